#!/bin/bash
# Build the framework from files on disk only (offline): Gen files, full Coq build, extraction, OCaml drivers, harness warm-up.
cd "$(dirname "$0")" || exit 2
mkdir -p build/extract
python3 tools/setup.py
