From Coq Require Import List Arith Lia Bool Relations.
Import ListNotations.

(* Classes are nat indexes < n. tb c = list of (proper) bases known for c. *)
Section Closure.
  Variable n : nat.
  Definition classes := seq 0 n.

  Definition tbl := nat -> list nat.
  Definition upd (t : tbl) (c : nat) (l : list nat) : tbl := fun x => if Nat.eqb x c then l else t x.

  Definition memb (x : nat) (l : list nat) := existsb (Nat.eqb x) l.
  Lemma memb_In x l : memb x l = true <-> In x l.
  Proof. unfold memb. rewrite existsb_exists. split.
    - intros [y [H E]]. apply Nat.eqb_eq in E. now subst.
    - intro H. exists x. split; [assumption|apply Nat.eqb_refl]. Qed.

  (* snapshot variant: candidates are the bases of the bases known at the start of the step *)
  Definition add_new (c : nat) (acc : list nat) (bb : nat) : list nat :=
    if Nat.eqb bb c || memb bb acc then acc else acc ++ [bb].
  Definition step_class (t : tbl) (c : nat) : list nat :=
    fold_left (add_new c) (flat_map t (t c)) (t c).
  Definition round (t : tbl) : tbl := fold_left (fun t c => upd t c (step_class t c)) classes t.

  (* the listed edges and their transitive closure *)
  Variable listed : tbl.
  Definition edge (b c : nat) := In b (listed c).
  Definition ancp := clos_trans nat edge.   (* b proper ancestor of c *)

  Definition sound (t : tbl) := forall c b, In b (t c) -> ancp b c.
  Definition contains (t : tbl) := forall c b, In b (listed c) -> In b (t c).
  Definition closed (t : tbl) := forall c b bb, c < n -> In b (t c) -> In bb (t b) -> bb <> c -> In bb (t c).

  Lemma add_new_incl c acc bb x : In x acc -> In x (add_new c acc bb).
  Proof. unfold add_new. destruct (_ || _); [auto|]. intro. apply in_or_app. auto. Qed.
  Lemma fold_add_incl c l : forall acc x, In x acc -> In x (fold_left (add_new c) l acc).
  Proof. induction l as [|a l IH]; cbn; intros; [assumption|]. apply IH. now apply add_new_incl. Qed.
  Lemma add_new_in c acc bb x : In x (add_new c acc bb) -> In x acc \/ (x = bb /\ bb <> c).
  Proof. unfold add_new. destruct (Nat.eqb_spec bb c) as [->|Hne]; cbn [orb]; [auto|].
    destruct (memb bb acc); [auto|]. intro H. apply in_app_or in H. destruct H as [H|[H|[]]]; auto. Qed.
  Lemma fold_add_in c l : forall acc x, In x (fold_left (add_new c) l acc) -> In x acc \/ (In x l /\ x <> c).
  Proof. induction l as [|a l IH]; cbn; intros acc x H; [auto|].
    apply IH in H. destruct H as [H|[H1 H2]]; [|auto].
    apply add_new_in in H. destruct H as [H|[-> H]]; auto. Qed.
  Lemma fold_add_complete c l : forall acc x, In x l -> x <> c -> In x (fold_left (add_new c) l acc).
  Proof. induction l as [|a l IH]; cbn; intros acc x H Hne; [contradiction|].
    destruct H as [->|H]; [|now apply IH].
    apply fold_add_incl. unfold add_new. apply Nat.eqb_neq in Hne. rewrite Hne. cbn [orb].
    destruct (memb x acc) eqn:E; [now apply memb_In|]. apply in_or_app. right. now left. Qed.

  Lemma step_class_in t c x : In x (step_class t c) <->
    In x (t c) \/ (x <> c /\ exists b, In b (t c) /\ In x (t b)).
  Proof. unfold step_class. split.
    - intro H. apply fold_add_in in H. destruct H as [H|[H Hne]]; [auto|].
      right. split; [assumption|]. apply in_flat_map in H. exact H.
    - intros [H|[Hne [b [Hb Hx]]]]; [now apply fold_add_incl|].
      apply fold_add_complete; [|assumption]. apply in_flat_map. eauto. Qed.

  Lemma step_sound t c : sound t -> sound (upd t c (step_class t c)).
  Proof. intros S x b. unfold upd. destruct (Nat.eqb_spec x c) as [->|]; [|apply S].
    rewrite step_class_in. intros [H|[_ [b' [H1 H2]]]]; [now apply S|].
    eapply t_trans; [apply S; eassumption|apply S; assumption]. Qed.
  Lemma step_mono t c x b : In b (t x) -> In b (upd t c (step_class t c) x).
  Proof. unfold upd. destruct (Nat.eqb_spec x c) as [->|]; [|auto]. rewrite step_class_in. auto. Qed.

  Lemma round_gen l : forall t, sound t -> sound (fold_left (fun t c => upd t c (step_class t c)) l t)
     /\ (forall x b, In b (t x) -> In b (fold_left (fun t c => upd t c (step_class t c)) l t x)).
  Proof. induction l as [|c l IH]; intros t S; cbn; [auto|].
    destruct (IH _ (step_sound t c S)) as [S' M]. split; [assumption|].
    intros x b H. apply M. now apply step_mono. Qed.
  Lemma round_sound t : sound t -> sound (round t). Proof. intro S. apply (round_gen classes t S). Qed.
  Lemma round_mono t : sound t -> forall x b, In b (t x) -> In b (round t x).
  Proof. intro S. apply (round_gen classes t S). Qed.

  (* "no change" observed extensionally as equal membership *)
  Definition same (t u : tbl) := forall c x, In x (t c) <-> In x (u c).

  (* if a full round changes nothing, the table is closed *)
  Lemma round_fix_closed_gen l : forall t, sound t ->
    same t (fold_left (fun t c => upd t c (step_class t c)) l t) ->
    forall c, In c l -> forall b bb, In b (t c) -> In bb (t b) -> bb <> c -> In bb (t c).
  Proof.
    induction l as [|a l IH]; intros t S Hsame c Hc b bb Hb Hbb Hne; [contradiction|].
    cbn in Hsame. set (t1 := upd t a (step_class t a)) in *.
    assert (S1 : sound t1) by (apply step_sound; assumption).
    assert (M : forall x y, In y (t1 x) -> In y (t x)).
    { intros x y H. apply Hsame. apply (round_gen l t1 S1). exact H. }
    destruct Hc as [->|Hc].
    - apply M. unfold t1, upd. rewrite Nat.eqb_refl. apply step_class_in. right. split; [assumption|]. eauto.
    - assert (Hs1 : same t1 (fold_left (fun t c => upd t c (step_class t c)) l t1)).
      { intros x y. split; [apply (round_gen l t1 S1)|]. intro H. apply Hsame in H. now apply step_mono. }
      apply M. apply (IH t1 S1 Hs1 c Hc b bb); [now apply step_mono|now apply step_mono|assumption].
  Qed.

  Lemma round_fix_closed t : sound t -> same t (round t) -> closed t.
  Proof. intros S H c b bb Hc. apply (round_fix_closed_gen classes t S H c). apply in_seq. lia. Qed.

  (* closed + contains + acyclic  ==> complete *)
  Hypothesis listed_lt : forall c b, In b (listed c) -> c < n.
  Hypothesis acyclic : forall c, ~ ancp c c.
  Lemma complete t : contains t -> closed t -> forall b c, ancp b c -> In b (t c).
  Proof. intros C K b c H. apply clos_trans_tn1 in H. induction H as [c H|c d H H' IH].
    - now apply C.
    - (* b anc+ c, c listed base of d *) apply (K d c b); [eapply listed_lt; eauto|now apply C|assumption|].
      intro E. subst d. apply (acyclic b). apply clos_tn1_trans. econstructor 2; eauto. Qed.
End Closure.
Print Assumptions complete.
Print Assumptions round_fix_closed.
