From Coq Require Import List Arith Lia.
Import ListNotations.

Section Tables.
  Variables (mask cell : Type).
  Variable inter : mask -> mask -> mask.
  Variable best : mask -> cell.
  Variable dflt : cell.

  (* groups listed from the LAST dimension down to dimension 0, as the recursion consumes them *)
  Fixpoint build (gss : list (list mask)) (cand : mask) : list cell :=
    match gss with
    | [] => [best cand]
    | gs :: rest => flat_map (fun g => build rest (inter cand g)) gs
    end.

  Fixpoint cells (gss : list (list mask)) : nat :=
    match gss with [] => 1 | gs :: rest => length gs * cells rest end.

  Lemma flat_map_length_const {A B} (f : A -> list B) n l :
    (forall a, length (f a) = n) -> length (flat_map f l) = length l * n.
  Proof. intro H. induction l as [|a l IH]; cbn; [reflexivity|]. rewrite app_length, H, IH. lia. Qed.

  Lemma build_length gss : forall cand, length (build gss cand) = cells gss.
  Proof.
    induction gss as [|gs rest IH]; intro cand; cbn [build cells]; [reflexivity|].
    apply flat_map_length_const. intro g. apply IH.
  Qed.

  Lemma nth_flat_map_const {A B} (f : A -> list B) n (d : B) : forall l i j a0,
    (forall a, length (f a) = n) -> i < length l -> j < n ->
    nth (i * n + j) (flat_map f l) d = nth j (f (nth i l a0)) d.
  Proof.
    induction l as [|a l IH]; intros i j a0 H Hi Hj; cbn in Hi; [lia|].
    cbn [flat_map]. destruct i as [|i].
    - cbn. rewrite app_nth1 by (rewrite H; lia). reflexivity.
    - rewrite app_nth2 by (rewrite H; lia). rewrite H.
      replace (S i * n + j - n) with (i * n + j) by lia.
      cbn [nth]. apply IH; auto; lia.
  Qed.

  (* index of a tuple: idx listed like gss (last dimension first) *)
  Fixpoint index (gss : list (list mask)) (idx : list nat) : nat :=
    match gss, idx with
    | gs :: rest, i :: is_ => i * cells rest + index rest is_
    | _, _ => 0
    end.
  Fixpoint sel (gss : list (list mask)) (idx : list nat) (cand : mask) (m0 : mask) : mask :=
    match gss, idx with
    | gs :: rest, i :: is_ => sel rest is_ (inter cand (nth i gs m0)) m0
    | _, _ => cand
    end.
  Fixpoint inb (gss : list (list mask)) (idx : list nat) : Prop :=
    match gss, idx with
    | gs :: rest, i :: is_ => i < length gs /\ inb rest is_
    | [], [] => True
    | _, _ => False
    end.

  Lemma index_lt gss : forall idx, inb gss idx -> index gss idx < cells gss.
  Proof.
    induction gss as [|gs rest IH]; intros [|i is_] H; cbn in *; try tauto; try lia.
    destruct H as [Hi Hr]. specialize (IH _ Hr). nia.
  Qed.

  Theorem build_nth gss : forall idx cand m0, inb gss idx ->
    nth (index gss idx) (build gss cand) dflt = best (sel gss idx cand m0).
  Proof.
    induction gss as [|gs rest IH]; intros idx cand m0 H.
    - destruct idx; [reflexivity | contradiction H].
    - destruct idx as [|i is_]; [contradiction H|].
      destruct H as [Hi Hr]. cbn [build index sel].
      rewrite (nth_flat_map_const _ (cells rest) dflt gs i (index rest is_) m0).
      + apply IH; assumption.
      + intro g. apply build_length.
      + assumption.
      + apply index_lt; assumption.
  Qed.
End Tables.
Print Assumptions build_nth.
