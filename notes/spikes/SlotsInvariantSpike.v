From Coq Require Import List NArith Arith Lia Bool.
Import ListNotations.
Local Open Scope N_scope.

(* bit sets as N *)
Definition mem (s : N) (i : N) : bool := N.testbit s i.
Definition add (s : N) (i : N) : N := N.lor s (N.shiftl 1 i).

Lemma mem_lor s t i : mem (N.lor s t) i = mem s i || mem t i.
Proof. apply N.lor_spec. Qed.
Lemma mem_add s i j : mem (add s i) j = mem s j || (j =? i).
Proof.
  unfold add, mem. rewrite N.lor_spec. f_equal.
  destruct (N.eqb_spec j i) as [->|Hne].
  - rewrite N.shiftl_spec_high' by lia. rewrite N.sub_diag. reflexivity.
  - destruct (N.lt_ge_cases j i).
    + now rewrite N.shiftl_spec_low.
    + rewrite N.shiftl_spec_high' by lia.
      assert (j - i <> 0) by lia. 
      apply N.bits_above_log2. 
      change (N.log2 1) with 0. lia.
Qed.

(* least index not in s: search with fuel *)
Fixpoint first_free_aux (fuel : nat) (s : N) (i : N) : N :=
  match fuel with
  | O => i
  | S f => if mem s i then first_free_aux f s (i + 1) else i
  end.
Definition first_free (s : N) : N := first_free_aux (S (N.to_nat (N.size s))) s 0.

Lemma first_free_aux_spec fuel : forall s i,
  (forall j, i + N.of_nat fuel <= j -> mem s j = false) ->
  mem s (first_free_aux fuel s i) = false.
Proof.
  induction fuel as [|f IH]; intros s i H; cbn [first_free_aux].
  - apply H. lia.
  - destruct (mem s i) eqn:E; [|exact E].
    apply IH. intros j Hj. apply H. lia.
Qed.

Lemma first_free_spec s : mem s (first_free s) = false.
Proof.
  unfold first_free. apply first_free_aux_spec.
  intros j Hj. unfold mem.
  destruct (N.eq_dec s 0) as [->|Hs]; [apply N.bits_0|].
  apply N.bits_above_log2.
  rewrite N.size_log2 in Hj by exact Hs. lia.
Qed.

(* Abstract lattice: classes are nat indexes; anc b d decidable relation *)
Section Lattice.
  Variable nclasses : nat.
  Variable ancb : nat -> nat -> bool.            (* ancb b d: b is d or a base of d *)
  Hypothesis anc_refl : forall c, ancb c c = true.
  Hypothesis anc_trans : forall a b c, ancb a b = true -> ancb b c = true -> ancb a c = true.

  (* compatible: share a descendant-or-self *)
  Definition compat (x c : nat) : Prop := exists z, ancb x z = true /\ ancb c z = true.

  Record st := { used : nat -> N; reserved : nat -> N }.

  (* bulk form of one assignment at class x, as derived from the three loops *)
  Definition tb (c b : nat) : bool := ancb b c && negb (Nat.eqb b c).   (* b proper base of c *)
  Definition in_cov (x c : nat) : bool := ancb x c.
  (* reserved targets: proper bases of x, and proper bases of any proper descendant of x *)
  Variable classes : list nat.  (* all class indexes *)
  Definition res_target (x j : nat) : bool :=
    tb x j || existsb (fun c => in_cov x c && negb (Nat.eqb c x) && tb c j) classes.

  Definition assign (x : nat) (s : st) : N * st :=
    let unavailable := N.lor (used s x) (reserved s x) in
    let slot := first_free unavailable in
    let u := add (used s x) slot in
    (slot,
     {| used := fun j => if Nat.eqb j x then u else if in_cov x j then N.lor (used s j) u else used s j;
        reserved := fun j => let r := if Nat.eqb j x then add (reserved s x) slot else reserved s j in
                             if res_target x j then N.lor r u else r |}).

  (* assigned pairs so far: list of (class, slot) *)
  Definition J (ps : list (nat * N)) (s : st) : Prop :=
    forall x sl, In (x, sl) ps -> forall c, In c classes -> compat x c ->
      mem (used s c) sl = true \/ mem (reserved s c) sl = true.

  Hypothesis classes_all : forall c z, ancb c z = true -> In c classes -> In z classes.

  Lemma assign_fresh ps s x : In x classes -> J ps s ->
    forall y sl, In (y, sl) ps -> compat y x -> fst (assign x s) <> sl.
  Proof.
    intros Hx HJ y sl Hin Hc. cbn [assign fst].
    intro E. specialize (HJ y sl Hin x Hx Hc).
    pose proof (first_free_spec (N.lor (used s x) (reserved s x))) as F.
    rewrite E in F. rewrite mem_lor in F. apply orb_false_iff in F. destruct F as [F1 F2].
    destruct HJ; congruence.
  Qed.

  Lemma assign_J ps s x : In x classes -> J ps s ->
    J ((x, fst (assign x s)) :: ps) (snd (assign x s)).
  Proof.
    intros Hx HJ y sl [E|Hin] c Hc Hcomp.
    - inversion E; subst y sl; clear E. cbn [assign fst snd used reserved].
      set (slot := first_free _). set (u := add (used s x) slot).
      assert (Hu : mem u slot = true) by (unfold u; rewrite mem_add, N.eqb_refl; apply orb_true_r).
      destruct (Nat.eqb_spec c x) as [->|Hne]; [left; exact Hu|].
      destruct (in_cov x c) eqn:Hcov.
      + left. rewrite mem_lor, Hu. apply orb_true_r.
      + right. destruct Hcomp as [z [Hxz Hcz]].
        assert (Ht : res_target x c = true).
        { unfold res_target. destruct (Nat.eqb_spec z x) as [->|Hzx].
          - unfold tb. rewrite Hcz. apply Nat.eqb_neq in Hne. rewrite Hne. reflexivity.
          - apply orb_true_iff. right. apply existsb_exists. exists z. split.
            + eapply classes_all; eauto.
            + unfold in_cov, tb. rewrite Hxz, Hcz.
              apply Nat.eqb_neq in Hzx. rewrite Hzx. cbn.
              destruct (Nat.eqb_spec c z) as [->|]; [|reflexivity].
              unfold in_cov in Hcov. congruence. }
        rewrite Ht, mem_lor, Hu. apply orb_true_r.
    - specialize (HJ y sl Hin c Hc Hcomp). cbn [assign snd used reserved].
      set (slot := first_free _). set (u := add (used s x) slot).
      destruct HJ as [H|H].
      + left. destruct (Nat.eqb_spec c x) as [->|Hne].
        * unfold u. rewrite mem_add, H. reflexivity.
        * destruct (in_cov x c); [rewrite mem_lor, H|]; auto.
      + right. 
        assert (Hr : mem (if Nat.eqb c x then add (reserved s x) slot else reserved s c) sl = true).
        { destruct (Nat.eqb_spec c x) as [->|]; [rewrite mem_add, H|]; auto. }
        destruct (res_target x c); [rewrite mem_lor, Hr|]; auto.
  Qed.
End Lattice.
Print Assumptions assign_J.
