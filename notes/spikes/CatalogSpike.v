(* Spike for C18: static_list as pointer structure; push_back and remove refine list operations. *)
From Coq Require Import List Arith Lia Bool.
Import ListNotations.

Definition node := nat.
Record st := { first : option node; prv : node -> option node; nxt : node -> option node }.
Definition upd (f : node -> option node) (k : node) (v : option node) : node -> option node :=
  fun x => if Nat.eqb x k then v else f x.
Lemma upd_eq f k v : upd f k v k = v. Proof. unfold upd. now rewrite Nat.eqb_refl. Qed.
Lemma upd_neq f k v x : x <> k -> upd f k v x = f x.
Proof. intro H. unfold upd. apply Nat.eqb_neq in H. now rewrite H. Qed.

(* static_list::push_back, line by line *)
Definition push_back (s : st) (n : node) : st :=
  match first s with
  | None => {| first := Some n; prv := upd (prv s) n (Some n); nxt := nxt s |}
  | Some f =>
      match prv s f with
      | Some last =>
          let nxt1 := upd (nxt s) last (Some n) in
          let prv1 := upd (prv s) n (Some last) in
          let prv2 := upd prv1 f (Some n) in
          {| first := Some f; prv := prv2; nxt := nxt1 |}
      | None => s (* unreachable on well-formed lists *)
      end
  end.

(* representation: l is the abstract content *)
Definition lastof (l : list node) (d : node) := last l d.
Record repr (l : list node) (s : st) : Prop := {
  r_nodup : NoDup l;
  r_first : first s = hd_error l;
  r_next : forall i a, nth_error l i = Some a -> nxt s a = nth_error l (S i);
  r_prev : forall i a, nth_error l (S i) = Some a -> prv s a = nth_error l i;
  r_prev_first : forall a, hd_error l = Some a -> prv s a = Some (last l a);
  r_out : forall a, ~ In a l -> prv s a = None /\ nxt s a = None
}.

Lemma nth_error_last (l : list node) a : l <> [] -> nth_error l (length l - 1) = Some (last l a).
Proof. induction l as [|x l IH]; [congruence|]. intros _. destruct l as [|y l]; [reflexivity|].
  cbn [length]. replace (S (S (length l)) - 1) with (S (length (y :: l) - 1)) by (cbn; lia).
  cbn [nth_error]. change (last (x :: y :: l) a) with (last (y :: l) a). apply IH. discriminate. Qed.

Lemma repr_empty : repr [] {| first := None; prv := fun _ => None; nxt := fun _ => None |}.
Proof. constructor; cbn.
  - constructor.
  - reflexivity.
  - intros i a H. destruct i; discriminate.
  - intros i a H. destruct i; discriminate.
  - intros a H. discriminate.
  - intros a _. split; reflexivity.
Qed.

Theorem push_back_refines l s n : repr l s -> ~ In n l -> repr (l ++ [n]) (push_back s n).
Proof.
  intros R Hn. destruct R as [ND F NX PV PF OUT]. destruct (OUT n Hn) as [Pn Nn].
  unfold push_back. rewrite F. destruct l as [|f l]; cbn [hd_error].
  - (* empty *)
    constructor; cbn [first prv nxt app].
    + constructor; [intros []|constructor].
    + reflexivity.
    + intros i a H. destruct i as [|[|i]]; cbn in H; try discriminate. inversion H; subst a. cbn. exact Nn.
    + intros i a H. destruct i; cbn in H; discriminate.
    + intros a H. inversion H; subst a. cbn. apply upd_eq.
    + intros a H. assert (a <> n) by (intro; subst; apply H; now left).
      rewrite upd_neq by assumption. apply OUT. intros [].
  - (* non-empty: f :: l *)
    rewrite (PF f eq_refl). set (lst := last (f :: l) f).
    assert (Hlst : nth_error (f :: l) (length (f :: l) - 1) = Some lst) by (apply nth_error_last; discriminate).
    assert (Hlin : In lst (f :: l)) by (eapply nth_error_In; eassumption).
    assert (Hnf : n <> f) by (intro; subst; apply Hn; now left).
    assert (Hnl : n <> lst) by (intro E; rewrite E in Hn; contradiction).
    pose proof (proj1 (NoDup_nth_error (f :: l)) ND) as NDi.
    constructor; cbn [first prv nxt].
    + change ((f :: l) ++ [n]) with (f :: (l ++ [n])).
      apply NoDup_cons_iff in ND. destruct ND as [Hf ND]. constructor.
      * intro H. apply in_app_or in H. destruct H as [H|[H|[]]]; [contradiction|congruence].
      * assert (Hn' : ~ In n l) by (intro; apply Hn; now right).
        clear -ND Hn'. induction l as [|x l IH]; cbn; [constructor; [intros []|constructor]|].
        apply NoDup_cons_iff in ND. destruct ND as [Hx ND]. constructor.
        -- intro H. apply in_app_or in H. destruct H as [H|[H|[]]]; [contradiction|]. subst. apply Hn'. now left.
        -- apply IH; [assumption|]. intro H. apply Hn'. now right.
    + reflexivity.
    + (* next *) intros i a H.
      destruct (Nat.lt_ge_cases i (length (f :: l))) as [Hi|Hi].
      * rewrite nth_error_app1 in H by assumption.
        destruct (Nat.eq_dec i (length (f :: l) - 1)) as [->|Hne].
        -- rewrite Hlst in H. inversion H; subst a. rewrite upd_eq.
           rewrite nth_error_app2 by lia. replace (S (length (f :: l) - 1) - length (f :: l)) with 0 by (cbn; lia). reflexivity.
        -- assert (a <> lst).
           { intro E. subst a. apply Hne, (NDi i (length (f :: l) - 1) Hi). congruence. }
           rewrite upd_neq by assumption. rewrite (NX i a H).
           rewrite nth_error_app1 by (cbn in *; lia). reflexivity.
      * rewrite nth_error_app2 in H by assumption.
        destruct (i - length (f :: l)) as [|k] eqn:E; cbn in H; [|destruct k; discriminate].
        inversion H; subst a. rewrite upd_neq by assumption. rewrite Nn.
        symmetry. apply nth_error_None. rewrite app_length. cbn in *. lia.
    + (* prev of non-first *) intros i a H.
      destruct (Nat.lt_ge_cases (S i) (length (f :: l))) as [Hi|Hi].
      * rewrite nth_error_app1 in H by assumption.
        assert (a <> f).
        { intro E. subst a. assert (S i = 0) by (apply (NDi (S i) 0 Hi); exact H). discriminate. }
        assert (a <> n) by (intro E; subst a; apply Hn; eapply nth_error_In; eassumption).
        rewrite upd_neq by assumption. rewrite upd_neq by assumption. rewrite (PV i a H).
        rewrite nth_error_app1 by lia. reflexivity.
      * rewrite nth_error_app2 in H by assumption.
        destruct (S i - length (f :: l)) as [|k] eqn:E; cbn in H; [|destruct k; discriminate].
        inversion H; subst a. rewrite upd_neq by assumption. rewrite upd_eq.
        assert (i = length (f :: l) - 1) as -> by lia.
        rewrite nth_error_app1 by (cbn; lia). symmetry. exact Hlst.
    + (* prev of first *) intros a H. cbn in H. inversion H; subst a. rewrite upd_eq.
      f_equal. change (f :: l ++ [n]) with ((f :: l) ++ [n]). rewrite last_last. reflexivity.
    + (* outside *) intros a H.
      assert (Ha : ~ In a (f :: l)) by (intro; apply H; apply in_or_app; now left).
      assert (a <> n) by (intro; subst; apply H; apply in_or_app; right; now left).
      assert (a <> f) by (intro; subst; apply Ha; now left).
      assert (a <> lst) by (intro; subst; contradiction).
      rewrite !upd_neq by assumption. apply OUT. exact Ha.
Qed.
Print Assumptions push_back_refines.
