(* Draft of Spec/Dispatch.v: the reader-facing specification, fully written out,
   plus the computable versions and the lemma tying the repaired best() to it. *)
From Coq Require Import List Arith Lia Bool Relations.
Import ListNotations.

Definition cid := nat.

Section Spec.
  (* ancb b d = true  iff  b is d or a direct or indirect base of d.
     In the development this is the boolean decision of
     clos_refl_trans (edge R); here it is a section variable with its two laws. *)
  Variable ancb : cid -> cid -> bool.
  Hypothesis anc_refl : forall c, ancb c c = true.
  Hypothesis anc_trans : forall a b c, ancb a b = true -> ancb b c = true -> ancb a c = true.
  Hypothesis anc_antisym : forall a b, ancb a b = true -> ancb b a = true -> a = b.

  Definition proper_base (b d : cid) : bool := ancb b d && negb (Nat.eqb b d).

  (* a definition is the list of classes of its virtual parameters *)
  Definition defn := list cid.

  Fixpoint applicable (d : defn) (args : list cid) : bool :=
    match d, args with
    | [], [] => true
    | p :: d', a :: args' => ancb p a && applicable d' args'
    | _, _ => false
    end.

  (* documented ordering: at no position a proper base of the other's class,
     at one position at least a proper derived class *)
  Fixpoint nowhere_base (a b : defn) : bool :=
    match a, b with
    | x :: a', y :: b' => negb (proper_base x y) && nowhere_base a' b'
    | _, _ => true
    end.
  Fixpoint somewhere_derived (a b : defn) : bool :=
    match a, b with
    | x :: a', y :: b' => proper_base y x || somewhere_derived a' b'
    | _, _ => false
    end.
  Definition more_specific (a b : defn) : bool := nowhere_base a b && somewhere_derived a b.

  (* model of compiler::is_more_specific, written as the C++ loop is *)
  Fixpoint is_more_specific_loop (a b : defn) (result : bool) : bool :=
    match a, b with
    | x :: a', y :: b' =>
        if Nat.eqb x y then is_more_specific_loop a' b' result
        else if ancb y x then is_more_specific_loop a' b' true
        else if ancb x y then false
        else is_more_specific_loop a' b' result
    | _, _ => result
    end.

  Lemma loop_spec a : forall b r,
    is_more_specific_loop a b r = nowhere_base a b && (r || somewhere_derived a b).
  Proof.
    induction a as [|x a IH]; intros [|y b] r; cbn; try (now rewrite ?orb_false_r).
    unfold proper_base. destruct (Nat.eqb_spec x y) as [->|Hne].
    - rewrite Nat.eqb_refl, anc_refl. cbn. apply IH.
    - assert (Nat.eqb y x = false) as -> by (apply Nat.eqb_neq; congruence).
      destruct (ancb y x) eqn:Eyx; cbn.
      + rewrite IH. destruct (ancb x y) eqn:Exy.
        * exfalso. apply Hne. now apply anc_antisym.
        * cbn. now rewrite orb_true_r.
      + destruct (ancb x y) eqn:Exy; cbn; [reflexivity|apply IH].
  Qed.
  Corollary is_more_specific_correct a b : is_more_specific_loop a b false = more_specific a b.
  Proof. now rewrite loop_spec. Qed.

  Lemma more_specific_asym a b : more_specific a b = true -> more_specific b a = false.
  Proof.
    unfold more_specific. revert b. induction a as [|x a IH]; intros [|y b]; cbn; try discriminate.
    intro H. apply andb_true_iff in H. destruct H as [H1 H2]. apply andb_true_iff in H1. destruct H1 as [Hn Hr].
    apply orb_true_iff in H2. destruct H2 as [H2|H2].
    - rewrite H2. reflexivity.
    - destruct (proper_base y x); [reflexivity|]. cbn.
      specialize (IH b). rewrite Hr, H2 in IH. cbn in IH. specialize (IH eq_refl).
      destruct (nowhere_base b a); [cbn in *|reflexivity].
      destruct (proper_base x y) eqn:E; [discriminate Hn|cbn; exact IH].
  Qed.

  (* dispatch outcome *)
  Inductive outcome := Run (i : nat) | NoDefinition | Ambiguous.

  (* definitions are identified by their index in the method's catalog *)
  Definition dominates (defs : list defn) (cand : list nat) (i : nat) : bool :=
    forallb (fun j => Nat.eqb j i || more_specific (nth i defs []) (nth j defs [])) cand.

  Definition spec_dispatch_among (defs : list defn) (cand : list nat) : outcome :=
    match cand with
    | [] => NoDefinition
    | _ => match find (dominates defs cand) cand with
           | Some i => Run i
           | None => Ambiguous
           end
    end.

  Definition applicable_idx (defs : list defn) (args : list cid) : list nat :=
    filter (fun i => applicable (nth i defs []) args) (seq 0 (length defs)).

  Definition spec_dispatch (defs : list defn) (args : list cid) : outcome :=
    spec_dispatch_among defs (applicable_idx defs args).

  (* strictly more general, for next *)
  Fixpoint everywhere_base_or_same (a b : defn) : bool :=
    match a, b with
    | x :: a', y :: b' => ancb x y && everywhere_base_or_same a' b'
    | [], [] => true
    | _, _ => false
    end.
  Definition strictly_more_general (a b : defn) : bool :=
    everywhere_base_or_same a b && existsb (fun xy => negb (Nat.eqb (fst xy) (snd xy))) (combine a b).
  Definition spec_next (defs : list defn) (i : nat) : outcome :=
    spec_dispatch_among defs
      (filter (fun j => strictly_more_general (nth j defs []) (nth i defs [])) (seq 0 (length defs))).

  (* uniqueness of the dominating definition: the outcome does not depend on the order of cand *)
  Lemma dominant_unique defs cand i j :
    NoDup cand -> In i cand -> In j cand ->
    dominates defs cand i = true -> dominates defs cand j = true -> i = j.
  Proof.
    intros _ Hi Hj Di Dj. unfold dominates in *. rewrite forallb_forall in Di, Dj.
    specialize (Di j Hj). specialize (Dj i Hi).
    destruct (Nat.eqb_spec j i) as [->|Hne]; [reflexivity|]. cbn in Di.
    destruct (Nat.eqb_spec i j) as [->|_]; [reflexivity|]. cbn in Dj.
    apply more_specific_asym in Di. congruence.
  Qed.

  (* model of the repaired compiler::best *)
  Definition best (defs : list defn) (cand : list nat) : list nat :=
    match find (dominates defs cand) cand with
    | Some i => [i]
    | None => cand
    end.

  Lemma best_dominant defs cand : NoDup cand ->
    match spec_dispatch_among defs cand with
    | Run i => best defs cand = [i] /\ In i cand /\ dominates defs cand i = true
    | NoDefinition => best defs cand = [] /\ cand = []
    | Ambiguous => 2 <= length (best defs cand) /\ forall i, In i cand -> dominates defs cand i = false
    end.
  Proof.
    intro ND. unfold spec_dispatch_among, best. destruct cand as [|c0 cand']; [auto|].
    set (cand := c0 :: cand') in *.
    destruct (find (dominates defs cand) cand) as [i|] eqn:F.
    - apply find_some in F. tauto.
    - split.
      + destruct cand' as [|c1 ?]; [|cbn; lia].
        exfalso. pose proof (find_none _ _ F c0 (or_introl eq_refl)) as H.
        unfold dominates, cand in H. cbn in H. now rewrite Nat.eqb_refl in H.
      + intros i Hi. exact (find_none _ _ F i Hi).
  Qed.
End Spec.
Print Assumptions best_dominant.
Print Assumptions is_more_specific_correct.
