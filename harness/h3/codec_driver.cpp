// H3 driver for C12 (static offsets) and C13 (encoded dispatch data), built on the H1 registry-level library.
//
// Reads registry queries (the format of ocaml/core_driver.ml: query / class / method / def / go) from the file
// given as argv[1], builds each registry at run time on the public catalogs of three policies, runs the real
// compiler<Policy>, and then
//   (a) calls the real generator::write_static_offsets and prints the numbers it parses out of the text;
//   (b) calls the real generator::encode_dispatch_data, parses the emitted C++ text into exactly sized heap
//       buffers laid out like the emitted struct (union part and dtbls part are separate blocks, so ASan sees an
//       overrun of either), runs the real decode_dispatch_data<Policy> on them through a pointer-shaped Data,
//       prints the decoded image / slots_strides / static v-table pointers, and re-walks every legal tuple
//       (manual walk + the real resolve + the real call) on the decoded tables;
//   (c) runs the real method<>::resolve of methods that HAVE static_offsets (specializations whose arrays the
//       driver fills at run time with the numbers parsed in (a)) under an unchecked and a checked policy:
//       dispatch must equal the walk on the installed arrays; with one or two numbers altered the checked
//       policy must raise static_slot_error / static_stride_error.
// Canonical lines are compared with ocaml/codec_driver.ml by checks/C12.py and checks/C13.py.
#include "../h1/h1.hpp"
#include <yorel/yomm2/generator.hpp>

#include <cstdlib>
#include <cstring>
#include <fstream>
#include <regex>
#include <unistd.h>

// ---------------------------------------------------------------- globals of the H1 library (as harness/h1/main.cpp)
namespace h1 {
type_id g_real_id[MAXN];
std::unordered_map<type_id, int> g_num_of;
std::unordered_map<type_id, type_id> g_alias;
std::string g_call_error;

type_id (*const g_idfn[MAXN])() = {
#define F4(a) idfn<a>, idfn<a + 1>, idfn<a + 2>, idfn<a + 3>
#define F16(a) F4(a), F4(a + 4), F4(a + 8), F4(a + 12)
    F16(0), F16(16), F16(32), F16(48)};
const std::type_info* const g_typeinfo[MAXN] = {
#define T4(a) &typeid(K<a>), &typeid(K<a + 1>), &typeid(K<a + 2>), &typeid(K<a + 3>)
#define T16(a) T4(a), T4(a + 4), T4(a + 8), T4(a + 12)
    T16(0), T16(16), T16(32), T16(48)};

int num_of(type_id t) {
    auto it = g_num_of.find(t);
    if (it != g_num_of.end()) return it->second;
    return -1;
}

std::string describe_error(const error_type& e) {
    std::ostringstream os;
    if (auto r = std::get_if<resolution_error>(&e)) {
        os << "resolution status " << (int)r->status << " arity " << r->arity;
    } else if (auto u = std::get_if<unknown_class_error>(&e)) {
        os << "unknown_class " << num_of(u->type);
    } else if (auto h = std::get_if<hash_search_error>(&e)) {
        os << "hash_search attempts " << h->attempts << " buckets " << h->buckets;
    } else if (std::get_if<method_table_error>(&e)) {
        os << "method_table";
    } else if (std::get_if<static_slot_error>(&e)) {
        os << "static_slot";
    } else if (std::get_if<static_stride_error>(&e)) {
        os << "static_stride";
    } else os << "error";
    return os.str();
}
void throwing_handler(const error_type& e) { throw Caught{describe_error(e)}; }
void bc_call_error(const method_call_error&, std::size_t, type_id*) { throw Caught{"call_error"}; }
std::map<std::string, RunnerBase*>& runners() { static std::map<std::string, RunnerBase*> r; return r; }

struct pol_so;
struct pol_sc;
}  // namespace h1

// ---------------------------------------------------------------- methods WITH static offsets, arrays filled at run time
namespace yorel { namespace yomm2 { namespace detail {
template<int S, int J, typename... A>
struct static_offsets<method<h1::MKey<h1::pol_so, S, J>, int(A...), h1::pol_so>> {
    static inline std::size_t slots[8] = {};
    static inline std::size_t strides[8] = {};
};
template<int S, int J, typename... A>
struct static_offsets<method<h1::MKey<h1::pol_sc, S, J>, int(A...), h1::pol_sc>> {
    static inline std::size_t slots[8] = {};
    static inline std::size_t strides[8] = {};
};
}}}  // namespace yorel::yomm2::detail

namespace h1 {
using namespace policy;
// codec + offsets printing: methods without static offsets
struct pol_cd : basic_policy<pol_cd, RttiIdent, fast_perfect_hash<pol_cd>, vptr_vector<pol_cd>, vectored_error<pol_cd>> {};
// static offsets, release-like (no runtime_checks)
struct pol_so : basic_policy<pol_so, RttiIdent, fast_perfect_hash<pol_so>, vptr_vector<pol_so>, vectored_error<pol_so>> {};
// static offsets, checked (checked_perfect_hash brings runtime_checks)
struct pol_sc : basic_policy<pol_sc, RttiIdent, checked_perfect_hash<pol_sc>, vptr_vector<pol_sc>, vectored_error<pol_sc>> {};

static_assert(!has_static_offsets<ShapeSlot<pol_cd, 2, 0, V, V, V>::M>::value);
static_assert(has_static_offsets<ShapeSlot<pol_so, 2, 0, V, V, V>::M>::value);
static_assert(has_static_offsets<ShapeSlot<pol_sc, 2, 0, V, V, V>::M>::value);
static_assert(pol_sc::has_facet<runtime_checks> && !pol_so::has_facet<runtime_checks>);

struct SoPtr { std::size_t* slots; std::size_t* strides; };
template<class Slot> SoPtr so_of() {
    if constexpr (has_static_offsets<typename Slot::M>::value) {
        using SO = static_offsets<typename Slot::M>;
        return SoPtr{SO::slots, SO::strides};
    } else return SoPtr{nullptr, nullptr};
}

template<class P> struct Bench {
    Runner<P>* r;
    std::vector<SoPtr> so;
    template<class Slot> void add(const char* shape) { r->slots.push_back(make_vt<Slot>(shape)); so.push_back(so_of<Slot>()); }
    Bench() {
        r = new Runner<P>(false);
        add<ShapeSlot<P, 0, 0, V>>("v");
        add<ShapeSlot<P, 0, 1, V>>("v");
        add<ShapeSlot<P, 1, 0, V, V>>("vv");
        add<ShapeSlot<P, 1, 1, V, V>>("vv");
        add<ShapeSlot<P, 2, 0, V, V, V>>("vvv");
        add<ShapeSlot<P, 2, 1, V, V, V>>("vvv");
        add<ShapeSlot<P, 3, 0, V, V, V, V>>("vvvv");
        add<ShapeSlot<P, 6, 0, V, I, V>>("vnv");
        add<ShapeSlot<P, 9, 0, I, V, V, I>>("nvvn");
        r->slot_used.assign(r->slots.size(), false);
        P::error = throwing_handler;
    }
};

struct Query {
    std::string tag;
    struct C { int num, abs; std::vector<int> bases; };
    struct M { std::string shape; std::vector<int> vp; };
    struct D { int mi, nx; std::vector<int> vp; };
    std::vector<C> classes; std::vector<M> methods; std::vector<D> defs;
};

template<class P> bool build_and_update(Runner<P>& r, const Query& q, std::ostream& os, bool report) {
    r.reset();
    for (auto& c : q.classes) r.add_class(c.num, c.abs, c.bases);
    int mi = 0;
    for (auto& m : q.methods) {
        r.add_method(m.shape, m.vp);
        // the text generators demangle method_type / class ids as std::type_info*: K<40 + mi> names method mi
        r.methods.back()->info->method_type = (type_id)g_typeinfo[40 + mi];
        ++mi;
    }
    for (auto& d : q.defs) r.add_def(d.mi, d.nx, d.vp);
    r.comp.reset(new compiler<P>());
    try {
        r.comp->compile();
        r.comp->install_global_tables();
    } catch (Caught& c) {
        if (report) os << "update error " << c.what << "\n";
        r.comp.reset();
        return false;
    }
    if (report) os << "update ok\n";
    return true;
}

// every legal tuple of every live method: manual walk through the static v-table pointers and slots_strides,
// then (when the method has a real method<> behind it) the real resolve and the real call
template<class P> std::vector<std::string> walk_all(Runner<P>& r, bool manual, bool real) {
    std::vector<std::string> out;
    auto lm = r.live_methods();
    auto anc = r.ancestors();
    std::vector<int> nums; { std::set<int> seen; for (auto c : r.classes) if (c->live && seen.insert(c->num).second) nums.push_back(c->num); }
    std::sort(nums.begin(), nums.end());
    for (std::size_t mi = 0; mi < lm.size(); ++mi) {
        auto m = lm[mi];
        std::size_t ar = m->vp.size();
        std::vector<std::vector<int>> dom(ar);
        for (std::size_t k = 0; k < ar; ++k) for (int n : nums) if (anc[n].count(m->vp[k])) dom[k].push_back(n);
        bool empty = false; for (auto& d : dom) if (d.empty()) empty = true;
        if (empty) continue;
        std::vector<std::size_t> idx(ar, 0);
        auto ss = m->info->slots_strides_ptr;
        while (true) {
            std::ostringstream line; line << "disp " << mi; for (std::size_t k = 0; k < ar; ++k) line << " " << dom[k][idx[k]];
            line << " =";
            if (manual) {
                auto vp = [&](std::size_t k) { return r.svp[dom[k][idx[k]]]; };
                std::uintptr_t res;
                if (ar == 1) res = vp(0)[ss[0]];
                else {
                    auto disp = (const std::uintptr_t*)vp(0)[ss[0]];
                    for (std::size_t k = 1; k < ar; ++k) disp = disp + vp(k)[ss[k]] * ss[ar + k - 1];
                    res = *disp;
                }
                line << " " << r.cell_name(res, m);
            }
            if (real && m->slot >= 0) {
                std::vector<std::unique_ptr<Obj>> objs; std::vector<Obj*> ptrs;
                for (std::size_t k = 0; k < ar; ++k) { objs.emplace_back(new Obj(g_real_id[dom[k][idx[k]]])); ptrs.push_back(objs.back().get()); }
                try { line << " resolve " << r.cell_name(r.slots[m->slot].resolve(ptrs.data()), m); }
                catch (Caught& c) { line << " resolve-error " << c.what; }
                try {
                    int ret = r.slots[m->slot].call(ptrs.data());
                    auto ds = r.live_defs(m); int which = -1;
                    for (std::size_t i = 0; i < ds.size(); ++i) if (ds[i]->pool == ret) which = (int)i;
                    line << " ran d" << which;
                } catch (Caught& c) { line << " error " << c.what; }
            }
            out.push_back(line.str());
            std::size_t k = 0; while (k < ar && ++idx[k] == dom[k].size()) { idx[k] = 0; ++k; } if (k == ar) break;
        }
    }
    return out;
}

// numbers printed by write_static_offsets, per method (K<40 + mi> names method mi)
struct Printed { bool found = false; std::vector<std::size_t> slots, strides; };
template<class P> std::vector<Printed> printed_offsets(Runner<P>& r, std::string* text_out = nullptr) {
    std::ostringstream os;
    generator gen;
    gen.write_static_offsets<P>(os);
    std::string text = os.str();
    if (text_out) *text_out = text;
    std::vector<Printed> res(r.live_methods().size());
    std::regex line_re(R"(template<> struct yorel::yomm2::detail::static_offsets<h1::K<(\d+)> ?> \{static constexpr std::size_t slots\[\] = \{([^}]*)\};(?: static constexpr std::size_t strides\[\] = \{([^}]*)\};)? \};)");
    std::regex num_re(R"(\d+)");
    std::istringstream is(text); std::string line;
    while (std::getline(is, line)) {
        std::smatch m;
        if (!std::regex_match(line, m, line_re)) { std::cout << "offsets-unparsed " << line << "\n"; continue; }
        std::size_t mi = std::stoul(m[1]) - 40;
        if (mi >= res.size()) { std::cout << "offsets-unparsed " << line << "\n"; continue; }
        res[mi].found = true;
        std::string a = m[2], b = m[3];
        for (auto it = std::sregex_iterator(a.begin(), a.end(), num_re); it != std::sregex_iterator(); ++it) res[mi].slots.push_back(std::stoul(it->str()));
        for (auto it = std::sregex_iterator(b.begin(), b.end(), num_re); it != std::sregex_iterator(); ++it) res[mi].strides.push_back(std::stoul(it->str()));
    }
    return res;
}

template<class P> std::string wname(Runner<P>& r, std::uintptr_t w, const std::vector<Meth*>& lm, const std::uintptr_t* tbase, std::size_t tlen) {
    for (std::size_t mi = 0; mi < lm.size(); ++mi) {
        auto m = lm[mi];
        if ((void*)w == m->info->ambiguous) return "amb" + std::to_string(mi);
        if ((void*)w == m->info->not_implemented) return "ni" + std::to_string(mi);
        auto ds = r.live_defs(m);
        for (std::size_t i = 0; i < ds.size(); ++i) if ((void*)w == ds[i]->info.pf) return "d" + std::to_string(mi) + "." + std::to_string(i);
    }
    if ((std::uintptr_t*)w >= tbase && (std::uintptr_t*)w < tbase + tlen) return "row" + std::to_string((std::uintptr_t*)w - tbase);
    if (w < (1u << 20)) return "idx" + std::to_string(w);
    return "junk";
}

// ---------------------------------------------------------------- (a) + (b) on pol_cd
void run_codec(Bench<pol_cd>& B, const Query& q, std::ostream& os, const char* textdir) {
    using P = pol_cd;
    auto& r = *B.r;
    if (!build_and_update(r, q, os, true)) return;
    auto& C = *r.comp;
    auto lm = r.live_methods();
    // what update installed
    for (std::size_t mi = 0; mi < C.methods.size(); ++mi) {
        auto& m = C.methods[mi];
        os << "installed " << mi << " slots"; for (auto s : m.slots) os << " " << s;
        os << " strides"; for (auto s : m.strides) os << " " << s; os << "\n";
        os << "ssinst " << mi; std::size_t nss = 2 * m.arity() - 1;
        for (std::size_t i = 0; i < nss; ++i) os << " " << m.info->slots_strides_ptr[i];
        os << "\n";
    }
    // (a)
    std::string otext;
    auto pr = printed_offsets(r, &otext);
    for (std::size_t mi = 0; mi < pr.size(); ++mi) {
        if (!pr[mi].found) { os << "offsets " << mi << " missing\n"; continue; }
        os << "offsets " << mi << " slots"; for (auto s : pr[mi].slots) os << " " << s;
        os << " strides"; for (auto s : pr[mi].strides) os << " " << s; os << "\n";
    }
    // (a'): the generator must print WHATEVER the installed array holds: every entry is replaced by a value wider than 16 / 32
    // bits (strides of large registries reach them), the text is generated again and compared position by position
    for (std::size_t mi = 0; mi < C.methods.size() && mi < pr.size(); ++mi) {
        auto& m = C.methods[mi];
        std::size_t nss = 2 * m.arity() - 1;
        std::vector<std::size_t> saved(m.info->slots_strides_ptr, m.info->slots_strides_ptr + nss), wide(nss);
        for (std::size_t j = 0; j < nss; ++j)
            wide[j] = saved[j] + ((std::size_t)(j + 1) << 16) + (j % 2 ? ((std::size_t)(mi + 1) << 33) : 0) + (j % 3 == 2 ? ((std::size_t)1 << 47) : 0);
        std::copy(wide.begin(), wide.end(), m.info->slots_strides_ptr);
        auto pw = printed_offsets(r);
        std::copy(saved.begin(), saved.end(), m.info->slots_strides_ptr);
        std::vector<std::size_t> got(pw[mi].slots); got.insert(got.end(), pw[mi].strides.begin(), pw[mi].strides.end());
        os << "wide " << mi;
        if (!pw[mi].found || got.size() != nss) os << " MISMATCH printed " << got.size() << " numbers for " << nss << " installed";
        else {
            bool ok = true;
            for (std::size_t j = 0; j < nss; ++j) if (got[j] != wide[j]) { os << " MISMATCH pos " << j << " installed " << wide[j] << " printed " << got[j]; ok = false; break; }
            if (ok) os << " ok " << nss;
        }
        os << "\n";
    }
    // update's image, canonical
    std::size_t ntab = 0, nvt = 0;
    for (auto& m : C.methods) if (m.arity() > 1) ntab += m.dispatch_table.size();
    for (auto& c : C.classes) nvt += c.vtbl.size();
    auto base = P::dispatch_data.data();
    os << "image";
    for (std::size_t i = 0; i < ntab + nvt && i < P::dispatch_data.size(); ++i) os << " " << wname(r, base[i], lm, base, ntab);
    os << "\n";
    for (auto& c : C.classes) os << "vptr0 " << r.cnum(&c) << " " << (std::ptrdiff_t)(*c.static_vptr - (base + ntab)) << "\n";
    os << "counts tables " << ntab << " vtbls " << nvt << " classes " << C.classes.size() << "\n";
    auto before = walk_all(r, true, true);
    auto before_manual = walk_all(r, true, false);

    // (b) encode
    std::ostringstream enc;
    generator::encode_dispatch_data(C, "h1::pol_cd", enc);
    std::string text = enc.str();
    if (textdir) { std::ofstream f(std::string(textdir) + "/" + q.tag + ".txt"); f << text; }
    std::smatch mm;
    std::regex rsz(R"(uint16_t headroom\[(-?\d+)\];\s*uint16_t slots\[(-?\d+)\];\s*uint16_t vtbls\[(-?\d+)\];\s*\} encoded;\s*std::uintptr_t vtbls\[(-?\d+)\];\s*\};\s*std::uintptr_t dtbls\[(-?\d+)\];)");
    if (!std::regex_search(text, mm, rsz)) { os << "codec unparsed prelude\n"; return; }
    long H = std::stol(mm[1]), S = std::stol(mm[2]), E = std::stol(mm[3]), D = std::stol(mm[4]), T = std::stol(mm[5]);
    os << "codec sizes H " << H << " S " << S << " E " << E << " D " << D << " T " << T << "\n";
    auto body = text.substr(text.find("yomm2_dispatch_data = {"));
    body = std::regex_replace(body, std::regex(R"(//[^\n]*)"), "");
    std::vector<std::vector<unsigned long>> groups;
    {
        std::size_t pos = body.find("{}, {");
        if (pos == std::string::npos) { os << "codec unparsed body\n"; return; }
        pos += 4;
        std::regex num(R"(0x[0-9a-fA-F]+|\d+)");
        for (int g = 0; g < 3; ++g) {
            pos = body.find('{', pos);
            std::size_t end = body.find('}', pos);
            std::string inner = body.substr(pos + 1, end - pos - 1);
            std::vector<unsigned long> v;
            for (auto it = std::sregex_iterator(inner.begin(), inner.end(), num); it != std::sregex_iterator(); ++it) v.push_back(std::stoul(it->str(), nullptr, 0));
            groups.push_back(v);
            pos = end + 1;
        }
    }
    os << "codec cells slots"; for (auto v : groups[0]) os << " " << v;
    os << " vtbls"; for (auto v : groups[1]) os << " " << v;
    os << " dtbls"; for (auto v : groups[2]) os << " " << v; os << "\n";
    if (H < 0 || S < 0 || E < 0 || D < 0 || T < 0) { os << "codec bad-bound negative\n"; return; }
    if ((long)groups[0].size() > S || (long)groups[1].size() > E || (long)groups[2].size() > T) { os << "codec bad-bound too-many-initializers\n"; return; }
    // the emitted struct: union { encoded {headroom[H], slots[S], vtbls[E]}; uintptr_t vtbls[D]; }; uintptr_t dtbls[T];
    std::size_t union_bytes = std::max<std::size_t>(2 * (std::size_t)(H + S + E), 8 * (std::size_t)D);
    union_bytes = (union_bytes + 7) / 8 * 8;
    auto ubuf = (unsigned char*)std::malloc(union_bytes ? union_bytes : 1);
    std::memset(ubuf, 0, union_bytes);
    auto dt = (std::uintptr_t*)std::malloc(8 * (std::size_t)T ? 8 * (std::size_t)T : 1);
    std::memset(dt, 0, 8 * (std::size_t)T);
    auto cells = (uint16_t*)ubuf;
    for (std::size_t i = 0; i < groups[0].size(); ++i) cells[H + i] = (uint16_t)groups[0][i];
    for (std::size_t i = 0; i < groups[1].size(); ++i) cells[H + S + i] = (uint16_t)groups[1][i];
    for (std::size_t i = 0; i < groups[2].size(); ++i) dt[i] = groups[2][i];
    struct { struct { uint16_t* slots; uint16_t* vtbls; } encoded; std::uintptr_t* vtbls; std::uintptr_t* dtbls; } data{{cells + H, cells + H + S}, (std::uintptr_t*)ubuf, dt};
    // a process holding the same registrations, before any update: null static v-table pointers, no slots
    for (auto& kv : r.svp) kv.second = nullptr;
    for (auto m : lm) for (std::size_t i = 0; i < 2 * m->vp.size() - 1; ++i) m->info->slots_strides_ptr[i] = 999999;
    os << "decoding\n"; os.flush();
    bool published = true;
    try {
        decode_dispatch_data<P>(data);
    } catch (Caught& c) {
        // raised by the last statement of the decoder (publish_vptrs): the tables are decoded, the v-table pointers
        // are not published, so real calls are not possible
        os << "codec decode-error " << c.what << "\n";
        published = false;
    }
    if ((long)nvt > D) os << "codec decoded-beyond-declared " << nvt << " > D " << D << "\n";
    os << "codec decoded";
    for (std::size_t i = 0; i < ntab && (long)i < T; ++i) os << " " << wname(r, dt[i], lm, dt, ntab);
    for (std::size_t i = 0; i < nvt && 8 * (i + 1) <= union_bytes; ++i) os << " " << wname(r, data.vtbls[i], lm, dt, ntab);
    os << "\n";
    for (std::size_t mi = 0; mi < lm.size(); ++mi) {
        os << "codec ss " << mi;
        for (std::size_t i = 0; i < 2 * lm[mi]->vp.size() - 1; ++i) os << " " << lm[mi]->info->slots_strides_ptr[i];
        os << "\n";
    }
    for (auto& c : C.classes) os << "codec vptr " << r.cnum(&c) << " " << (std::ptrdiff_t)(*c.static_vptr - data.vtbls) << "\n";
    if (!published) before = before_manual;
    auto after = walk_all(r, true, published);
    std::size_t mism = 0; std::string first;
    for (std::size_t i = 0; i < before.size() || i < after.size(); ++i) {
        std::string a = i < before.size() ? before[i] : "<none>", b = i < after.size() ? after[i] : "<none>";
        if (a != b) { if (!mism) first = " first [" + a + "] after decode [" + b + "]"; ++mism; }
    }
    os << "rewalk tuples " << before.size() << " mismatches " << mism << first << "\n";
    for (auto& kv : r.svp) kv.second = nullptr;
    std::free(ubuf); std::free(dt);
}

// ---------------------------------------------------------------- (c) static offsets compiled into resolve
template<class P> void run_static(Bench<P>& B, const Query& q, std::ostream& os, const char* pname, bool checked) {
    auto& r = *B.r;
    std::ostringstream sink;
    if (!build_and_update(r, q, sink, false)) return;
    auto lm = r.live_methods();
    auto pr = printed_offsets(r);
    auto set_static = [&](Meth* m, const Printed& p) {
        auto so = B.so[m->slot];
        std::fill(so.slots, so.slots + 8, 777777); std::fill(so.strides, so.strides + 8, 777777);
        for (std::size_t i = 0; i < p.slots.size() && i < 8; ++i) so.slots[i] = p.slots[i];
        for (std::size_t i = 0; i < p.strides.size() && i < 8; ++i) so.strides[i] = p.strides[i];
    };
    for (std::size_t mi = 0; mi < lm.size(); ++mi) if (lm[mi]->slot >= 0 && pr[mi].found) set_static(lm[mi], pr[mi]);
    // 1. every legal tuple: the walk on the installed arrays (manual) vs the real resolve, which reads the static offsets
    auto manual = walk_all(r, true, false);
    auto real = walk_all(r, false, true);
    std::size_t n = 0, mism = 0, errs = 0; std::string first;
    for (std::size_t i = 0; i < manual.size() && i < real.size(); ++i) {
        auto eq = manual[i].find(" = ");
        std::string cell = manual[i].substr(eq + 3);
        std::string key = manual[i].substr(0, eq);
        std::string rl = real[i].substr(real[i].find(" =") + 2);
        if (rl.empty()) continue;     // no real method<> behind this one
        ++n;
        bool err = rl.find("resolve-error") != std::string::npos || rl.find(" error static") != std::string::npos;
        if (err) ++errs;
        std::string want = " resolve " + cell;
        if (rl.compare(0, want.size(), want) != 0 || (rl.size() > want.size() && rl[want.size()] != ' ')) {
            if (!mism) first = " first [" + key + " installed-walk " + cell + " static-resolve" + rl + "]";
            ++mism;
        } else if (cell[0] == 'd' && rl.find(" ran " + cell) == std::string::npos) {
            if (!mism) first = " first [" + key + " installed-walk " + cell + " static-call" + rl + "]";
            ++mism;
        }
    }
    os << "static " << pname << " tuples " << n << " mismatches " << mism << " errors " << errs << first << "\n";
    if (!checked) return;
    // 2. the consistency check: correct offsets accepted, altered offsets rejected with the right error
    auto first_tuple = [&](Meth* m, std::vector<std::unique_ptr<Obj>>& objs, std::vector<Obj*>& ptrs) {
        // the method's own parameter classes are always legal
        for (int c : m->vp) { objs.emplace_back(new Obj(g_real_id[c])); ptrs.push_back(objs.back().get()); }
    };
    auto probe = [&](Meth* m) -> std::string {
        std::vector<std::unique_ptr<Obj>> objs; std::vector<Obj*> ptrs; first_tuple(m, objs, ptrs);
        try { r.slots[m->slot].resolve(ptrs.data()); return "accepted"; }
        catch (Caught& c) { return c.what; }
    };
    for (std::size_t mi = 0; mi < lm.size(); ++mi) {
        auto m = lm[mi];
        if (m->slot < 0 || !pr[mi].found) continue;
        std::size_t a = m->vp.size(), npos = 2 * a - 1;
        os << "check " << mi << " ok = " << probe(m) << "\n";
        auto alter = [&](std::size_t p, long d) { auto so = B.so[m->slot]; if (p < a) so.slots[p] += d; else so.strides[p - a] += d; };
        for (std::size_t p = 0; p < npos; ++p) {
            alter(p, 1); os << "check " << mi << " " << p << " = " << probe(m) << "\n"; alter(p, -1);
        }
        for (std::size_t p = 0; p < npos; ++p) for (std::size_t q2 = p + 1; q2 < npos; ++q2) {
            alter(p, 1); alter(q2, 1); os << "check " << mi << " " << p << " " << q2 << " = " << probe(m) << "\n"; alter(p, -1); alter(q2, -1);
        }
    }
}
}  // namespace h1

using namespace h1;

int main(int argc, char** argv) {
    if (argc < 2) { std::cerr << "usage: codec_driver <queryfile>\n"; return 2; }
    const char* textdir = std::getenv("CODEC_TEXT_DIR");
    // ids are addresses of typeid(K<n>): the generators reinterpret them as std::type_info*
    for (int n = 0; n < MAXN; ++n) { g_real_id[n] = (type_id)g_typeinfo[n]; g_num_of[g_real_id[n]] = n; }
    Bench<pol_cd> bcd; Bench<pol_so> bso; Bench<pol_sc> bsc;
    std::ifstream in(argv[1]);
    std::string line;
    Query q;
    auto& os = std::cout;
    auto rest = [](std::istringstream& is) { std::vector<int> v; int x; while (is >> x) v.push_back(x); return v; };
    while (std::getline(in, line)) {
        std::istringstream is(line); std::string w; is >> w;
        if (w == "query") { q = Query(); is >> q.tag; os << "begin " << q.tag << "\n"; }
        else if (w == "class") { Query::C c; is >> c.num >> c.abs; c.bases = rest(is); q.classes.push_back(c); }
        else if (w == "method") { Query::M m; is >> m.shape; m.vp = rest(is); q.methods.push_back(m); }
        else if (w == "def") { Query::D d; is >> d.mi >> d.nx; d.vp = rest(is); q.defs.push_back(d); }
        else if (w == "go") {
            os.flush();
            run_codec(bcd, q, os, textdir);
            os.flush();
            run_static(bso, q, os, "release", false);
            run_static(bsc, q, os, "checked", true);
            os << "done " << q.tag << "\n";
            os.flush();
        }
    }
    os.flush();
    _exit(0);
}
