// C18 — unit driver for the REAL yorel::yomm2::detail::static_list<Node>.
//
// usage: h3_catalog <case file>
// case file: one case per line, ops separated by blanks: p<k> push node k, r<k> remove node k,
// c clear; blank lines and lines starting with # are skipped. The pool is nodes 0 .. max id, value-
// initialised (all links null, as for objects with static storage duration).
//
// One line per case, same text as ocaml/catalog_driver.ml prints from the Coq model:
//   <ops> => <step>;<step>;...
//   step = <op>:[a,b,..] n=<size()> e=<empty()> f=<first|-> ok=<push precondition before the op|-> L=<prev>/<next>,...
// [LOOP] n=LOOP when begin()/++ does not reach end() within pool+1 increments.
// The driver never calls an operation whose BOOST_ASSERT would fail (it prints ASSERT and ends the case instead).
// stdout is flushed after every case, so that after a crash (null dereference under a broken
// static_list) the check script knows which case died.

#include <cstdio>
#include <cstdlib>
#include <cstring>
#include <fstream>
#include <iostream>
#include <iterator>
#include <memory>
#include <sstream>
#include <string>
#include <vector>

#include <yorel/yomm2/detail/static_list.hpp>

using yorel::yomm2::detail::static_list;

struct Node : static_list<Node>::static_link {
    Node* prev_() const {
        return prev_ptr;
    }
    Node* next_() const {
        return next_ptr;
    }
};

struct List : static_list<Node> {
    Node* first_() const {
        return first;
    }
};

struct Op {
    char kind;
    int id;
    std::string tok;
};

static std::string name(const Node* pool, const Node* p) {
    if (!p) {
        return "-";
    }
    return std::to_string(p - pool);
}

static void run_case(const std::vector<Op>& ops, std::string& out) {
    int pool_size = 0;
    for (auto& op : ops) {
        if (op.id + 1 > pool_size) {
            pool_size = op.id + 1;
        }
    }

    std::unique_ptr<Node[]> pool(new Node[pool_size > 0 ? pool_size : 1]());
    std::unique_ptr<List> lst(new List());

    for (std::size_t k = 0; k < ops.size(); ++k) {
        const Op& op = ops[k];
        out += op.tok;
        std::string ok = "-";

        if (op.kind == 'p') {
            Node& n = pool[op.id];
            bool pre = n.prev_() == nullptr && n.next_() == nullptr;
            ok = pre ? "1" : "0";
            if (!pre) {
                out += ":ASSERT push precondition";
                return;
            }
            lst->push_back(n);
        } else if (op.kind == 'r') {
            if (lst->first_() == nullptr) {
                out += ":ASSERT first != nullptr";
                return;
            }
            lst->remove(pool[op.id]);
        } else {
            lst->clear();
        }

        // enumerate with the real iterators
        std::string items;
        int count = 0;
        bool loop = false;
        for (auto it = lst->begin(); it != lst->end(); ++it) {
            if (count == pool_size + 1) {
                loop = true;
                break;
            }
            if (count) {
                items += ",";
            }
            items += name(pool.get(), &*it);
            ++count;
        }

        if (loop) {
            out += ":[LOOP] n=LOOP";
        } else {
            // const iterators and size()
            const List& cl = *lst;
            std::size_t n = cl.size();
            std::size_t m = std::distance(cl.begin(), cl.end());
            out += ":[" + items + "] n=" + std::to_string(n);
            if (m != n || (int)n != count) {
                out += "(const iteration " + std::to_string(m) + ", iteration " +
                    std::to_string(count) + ")";
            }
        }

        out += std::string(" e=") + (lst->empty() ? "1" : "0");
        out += " f=" + name(pool.get(), lst->first_());
        out += " ok=" + ok + " L=";
        for (int i = 0; i < pool_size; ++i) {
            if (i) {
                out += ",";
            }
            out += name(pool.get(), pool[i].prev_()) + "/" +
                name(pool.get(), pool[i].next_());
        }
        if (k + 1 < ops.size()) {
            out += ";";
        }
    }
}

int main(int argc, char** argv) {
    if (argc != 2) {
        std::fprintf(stderr, "usage: %s <case file>\n", argv[0]);
        return 2;
    }
    std::ifstream in(argv[1]);
    if (!in) {
        std::fprintf(stderr, "cannot read %s\n", argv[1]);
        return 2;
    }
    std::string line;
    while (std::getline(in, line)) {
        std::istringstream is(line);
        std::vector<Op> ops;
        std::string tok, joined;
        bool comment = false;
        while (is >> tok) {
            if (ops.empty() && tok[0] == '#') {
                comment = true;
                break;
            }
            Op op;
            op.tok = tok;
            op.kind = tok[0];
            op.id = -1;
            if (tok == "c") {
                op.kind = 'c';
            } else if ((tok[0] == 'p' || tok[0] == 'r') && tok.size() >= 2) {
                op.id = std::atoi(tok.c_str() + 1);
            } else {
                std::fprintf(stderr, "bad op %s\n", tok.c_str());
                return 2;
            }
            if (!joined.empty()) {
                joined += " ";
            }
            joined += tok;
            ops.push_back(op);
        }
        if (comment || ops.empty()) {
            continue;
        }
        std::string out = joined + " => ";
        run_case(ops, out);
        out += "\n";
        std::fwrite(out.data(), 1, out.size(), stdout);
        std::fflush(stdout);
    }
    return 0;
}
