// H3 unit driver for property C05: the REAL fast_perfect_hash / checked_perfect_hash + vptr_vector
// of /repo/include, run on raw type-id sets.
//
// usage: hash_driver <case file>
//
// Case file: see ocaml/hash_driver.ml (same file; `stream` lines are ignored here: the stream is
// whatever std::default_random_engine produces, recorded through verif::hash_observer and printed).
//
// Output, one update after the other:
//   update <k> classes <n> ids <m> budget <b>
//   stream <mult>...                  recorded candidates (after `| 1`)        } not part of the
//   mseq <M>:<count>...               bucket exponent of each pass, attempts    } canonical lines
//   hash found mult <m> shift <s> len <l> min <a> max <b> attempts <n>
//   hash error attempts <n> buckets <b>      (+ `state mult.. shift.. len.. min.. max..` when the handler throws)
//   control <id or ->...              checked variant only ('-' is type_id(-1))
//   vptrs <tag or ->...               '-' is nullptr
//   lookup <t> idx <i> cls <tag>      through Policy::dynamic_vptr
//   lookup <t> unknown <t'>           unknown_class_error{type = t'}
//   publish unknown <t>               unknown_class_error raised inside publish_vptrs
// mode throw: the error handler throws the error (observed in-process, the history goes on);
// mode abort: the handler prints the line and returns, so the library calls abort() (SIGABRT).
//
// Without YOMM2_VERIF (compiled with -UYOMM2_VERIF) there is no hook: budget is the literal of the
// source, no stream is printed and `attempts` is printed as `?`.

#include <yorel/yomm2/policy.hpp>

#include <cinttypes>
#include <cstdio>
#include <cstdlib>
#include <cstring>
#include <fstream>
#include <iostream>
#include <sstream>
#include <string>
#include <vector>

using namespace yorel::yomm2;
using namespace yorel::yomm2::policy;

// ----------------------------------------------------------------------------- policies under test

struct object {
    type_id id;
};

struct id_rtti : virtual rtti {
    template<class T>
    static type_id dynamic_type(const T& obj) {
        return obj.id;
    }
};

struct checked_pol : basic_policy<
                         checked_pol, id_rtti, checked_perfect_hash<checked_pol>,
                         vptr_vector<checked_pol>, vectored_error<checked_pol>> {};

struct fast_pol
    : basic_policy<
          fast_pol, id_rtti, fast_perfect_hash<fast_pol>, vptr_vector<fast_pol>,
          vectored_error<fast_pol>> {};

// what publish_vptrs needs from a class
struct reg_class {
    std::vector<type_id> ids;
    std::uintptr_t tag;
    mutable std::uintptr_t* slot;

    auto type_id_begin() const {
        return ids.begin();
    }
    auto type_id_end() const {
        return ids.end();
    }
    const std::uintptr_t* vptr() const {
        return reinterpret_cast<const std::uintptr_t*>(tag << 3);
    }
    const std::uintptr_t* const* indirect_vptr() const {
        return &slot;
    }
};

// ----------------------------------------------------------------------------- case file

struct update_t {
    std::size_t budget;
    std::vector<reg_class> classes;
    std::vector<type_id> lookups;
};

struct case_t {
    bool checked = true;
    bool abort_mode = false;
    std::vector<update_t> updates;
};

static type_id num(const std::string& s) {
    char* end;
    errno = 0;
    unsigned long long v = strtoull(s.c_str(), &end, 10);
    if (*end || errno) {
        fprintf(stderr, "bad number: %s\n", s.c_str());
        exit(2);
    }
    return static_cast<type_id>(v);
}

static case_t read_case(const char* path) {
    std::ifstream in(path);
    if (!in) {
        fprintf(stderr, "cannot open %s\n", path);
        exit(2);
    }
    case_t c;
    std::string line;
    while (std::getline(in, line)) {
        std::istringstream ss(line);
        std::string kw;
        if (!(ss >> kw) || kw[0] == '#' || kw == "end" || kw == "stream") {
            continue;
        }
        std::vector<std::string> args;
        for (std::string a; ss >> a;) {
            args.push_back(a);
        }
        if (kw == "variant" && args.size() == 1) {
            c.checked = args[0] == "checked";
        } else if (kw == "mode" && args.size() == 1) {
            c.abort_mode = args[0] == "abort";
        } else if (kw == "update" && args.size() == 1) {
            c.updates.push_back(update_t{(std::size_t)num(args[0]), {}, {}});
        } else if (kw == "class" && !args.empty() && !c.updates.empty()) {
            reg_class rc;
            rc.tag = num(args[0]);
            rc.slot = nullptr;
            for (std::size_t i = 1; i < args.size(); ++i) {
                rc.ids.push_back(num(args[i]));
            }
            c.updates.back().classes.push_back(rc);
        } else if (kw == "lookup" && !c.updates.empty()) {
            for (auto& a : args) {
                c.updates.back().lookups.push_back(num(a));
            }
        } else {
            fprintf(stderr, "bad line: %s\n", line.c_str());
            exit(2);
        }
    }
    return c;
}

// ----------------------------------------------------------------------------- observation

static std::vector<type_id> rec_mult;
static std::vector<std::size_t> rec_M;

#ifdef YOMM2_VERIF
static void observer(type_id mult, std::size_t M) {
    rec_mult.push_back(mult);
    rec_M.push_back(M);
}
#endif

static void print_stream() {
#ifdef YOMM2_VERIF
    std::string s = "stream";
    for (auto m : rec_mult) {
        s += " " + std::to_string(m);
    }
    puts(s.c_str());
    s = "mseq";
    for (std::size_t i = 0; i < rec_M.size();) {
        std::size_t j = i;
        while (j < rec_M.size() && rec_M[j] == rec_M[i]) {
            ++j;
        }
        s += " " + std::to_string(rec_M[i]) + ":" + std::to_string(j - i);
        i = j;
    }
    puts(s.c_str());
#endif
}

static bool abort_mode = false;
static bool in_lookup = false; // what the library was asked when the handler is called
static type_id lookup_arg = 0;

static void handler(const error_type& ev) {
    if (abort_mode) {
        // report, return: the library must abort()
        if (auto e = std::get_if<hash_search_error>(&ev)) {
            print_stream();
            printf("hash error attempts %zu buckets %zu\n", e->attempts, e->buckets);
        } else if (auto e = std::get_if<unknown_class_error>(&ev)) {
            if (in_lookup) {
                printf(
                    "lookup %" PRIuPTR " unknown %" PRIuPTR "\n", lookup_arg,
                    e->type);
            } else {
                printf("publish unknown %" PRIuPTR "\n", e->type);
            }
        } else {
            printf("other error\n");
        }
        fflush(stdout);
        return;
    }
    std::visit([](auto&& arg) { throw arg; }, ev);
}

template<class P>
static void print_state(const char* head) {
    using H = fast_perfect_hash<P>;
    printf(
        "%s mult %" PRIuPTR " shift %zu len %zu min %zu max %zu", head,
        H::hash_mult, H::hash_shift, H::hash_length, H::hash_min, H::hash_max);
}

template<class P>
static void print_vectors() {
    if constexpr (std::is_same_v<P, checked_pol>) {
        std::string s = "control";
        for (auto x : P::control) {
            if (x == static_cast<type_id>(-1)) {
                s += " -";
            } else {
                s += " " + std::to_string(x);
            }
        }
        puts(s.c_str());
    }
    std::string s = "vptrs";
    for (auto p : P::vptrs) {
        if (!p) {
            s += " -";
        } else {
            s += " " + std::to_string(reinterpret_cast<std::uintptr_t>(p) >> 3);
        }
    }
    puts(s.c_str());
}

template<class P>
static int run(const case_t& c) {
    using H = fast_perfect_hash<P>;
    constexpr bool checked = std::is_same_v<P, checked_pol>;
    P::error = handler;
    std::size_t k = 0;
    for (auto& u : c.updates) {
        std::size_t nids = 0;
        for (auto& rc : u.classes) {
            nids += rc.ids.size();
        }
        printf(
            "update %zu classes %zu ids %zu budget %zu\n", k++, u.classes.size(),
            nids, u.budget);
        fflush(stdout);
        rec_mult.clear();
        rec_M.clear();
#ifdef YOMM2_VERIF
        verif::hash_budget = u.budget;
        verif::hash_observer = observer;
#endif
        bool found = false, lookups_ok = true;
        hash_search_error herr{};
        bool pub_unknown = false;
        type_id pub_unknown_type = 0;
        in_lookup = false;
        try {
            P::publish_vptrs(u.classes.begin(), u.classes.end());
            found = true;
        } catch (const hash_search_error& e) {
            herr = e;
        } catch (const unknown_class_error& e) {
            pub_unknown = true;
            pub_unknown_type = e.type;
        }
        print_stream();
        if (pub_unknown) {
            printf("publish unknown %" PRIuPTR "\n", pub_unknown_type);
            fflush(stdout);
            return 0;
        }
        if (found) {
            print_state<P>("hash found");
#ifdef YOMM2_VERIF
            printf(" attempts %zu\n", rec_mult.size());
#else
            printf(" attempts ?\n");
#endif
            print_vectors<P>();
        } else {
            printf(
                "hash error attempts %zu buckets %zu\n", herr.attempts,
                herr.buckets);
            print_state<P>("state");
            printf("\n");
            print_vectors<P>();
            if (!checked) {
                lookups_ok = false; // vptrs not resized: reading it is undefined
            }
        }
        fflush(stdout);
        if (lookups_ok) {
            for (auto t : u.lookups) {
                object o{t};
                in_lookup = true;
                lookup_arg = t;
                try {
                    auto vp = P::dynamic_vptr(o);
                    auto idx = H::hash_type_id(t);
                    if (vp) {
                        printf(
                            "lookup %" PRIuPTR " idx %" PRIuPTR " cls %" PRIuPTR
                            "\n",
                            t, idx, reinterpret_cast<std::uintptr_t>(vp) >> 3);
                    } else {
                        printf(
                            "lookup %" PRIuPTR " idx %" PRIuPTR " cls -\n", t,
                            idx);
                    }
                } catch (const unknown_class_error& e) {
                    printf(
                        "lookup %" PRIuPTR " unknown %" PRIuPTR "\n", t, e.type);
                }
            }
        }
        fflush(stdout);
    }
    return 0;
}

int main(int argc, char** argv) {
    if (argc != 2) {
        fprintf(stderr, "usage: %s <case file>\n", argv[0]);
        return 2;
    }
    case_t c = read_case(argv[1]);
    abort_mode = c.abort_mode;
    return c.checked ? run<checked_pol>(c) : run<fast_pol>(c);
}
