// C18 — REAL registration objects of yomm2, constructed and destroyed in orders read from a case file,
// the three kinds of catalogs dumped after every step:
//     pol::classes (class_declaration / use_classes objects),
//     pol::methods (method<...> objects: the static `fn` of three methods + extra heap instances),
//     M0::fn.specs (definition_info objects: add_function's function-local statics + raw records).
//
// usage: h3_catalog_objects <case file>
// case file: one case per line; tokens +<slot> (construct the registration object of that slot) and
// -<slot> (destroy it). Slots (a fixed menu, one object each):
//     c0..c5   class_declaration<K0..K5, bases, pol>      c6, c7  second records for K0, K1
//     u0       use_classes<K0, K1, K2, pol>               u1      use_classes<K3, K4, K5, pol>
//     m0, m1   method objects of type M0 (besides M0::fn) m2: of type M1   m3: of type M2
//     a0..a2   M0::add_function<f0|f1|f2> objects         a3      a second M0::add_function<f0> object
//     d0..d5   definition_info records with method = &M0::fn, pushed on M0::fn.specs the way
//              add_function does it, destroyed by the real ~definition_info
// At the end of a case every object still alive is destroyed in slot order (`end` step).
//
// Registration objects are designed for static storage duration: their link fields are not
// initialised by any constructor (static_link() = default). Objects are therefore constructed with
// placement new in zeroed storage (and the TU is compiled with -fno-lifetime-dse) — exactly the state
// a static object is in when its constructor runs.
//
// Output, one line per case:  <ops> => <step>;<step>;...;<end step>
//   step = <op>: classes=[..] n= e= | methods=[..] n= e= | specs=[..] n= e=
//   classes entries  <slot>:<class>, the records of one use_classes object (a std::tuple, element
//                    construction order unspecified) joined with + after sorting
//   methods entries  fn:<M> for the static objects (leading run sorted: static initialisation order of
//                    template statics is unspecified), <slot>:<M> for heap objects
//   specs entries    a:<class of the definition's virtual parameter> for add_function's records, d<k>
// Last line, printed from an atexit handler registered before any add_function ran, i.e. AFTER the
// function-local static definition_info records have been destroyed:  exit: specs=[..] n= e=

#include <algorithm>
#include <cstdio>
#include <cstdlib>
#include <cstring>
#include <fstream>
#include <functional>
#include <iostream>
#include <map>
#include <sstream>
#include <string>
#include <vector>

#include <yorel/yomm2/core.hpp>

using namespace yorel::yomm2;

struct pol : policy::debug::rebind<pol> {};

struct K0 {
    virtual ~K0() {
    }
};
struct K1 : K0 {};
struct K2 : K0 {};
struct K3 : K1 {};
struct K4 {
    virtual ~K4() {
    }
};
struct K5 : K4 {};

struct key0;
struct key1;
struct key2;
using M0 = method<key0, void(virtual_<K0&>), pol>;
using M1 = method<key1, void(virtual_<K0&>, virtual_<K4&>), pol>;
using M2 = method<key2, int(int, virtual_<K4&>), pol>;

void f0(K0&) {
}
void f1(K1&) {
}
void f2(K2&) {
}
void g1(K1&, K5&) {
}
int h2(int, K5&) {
    return 0;
}

// make sure the three static method objects exist (odr-use of fn through add_function)
static M1::add_function<g1> reg_g1;
static M2::add_function<h2> reg_h2;

static std::string class_name(type_id t) {
    if (t == pol::static_type<K0>()) return "K0";
    if (t == pol::static_type<K1>()) return "K1";
    if (t == pol::static_type<K2>()) return "K2";
    if (t == pol::static_type<K3>()) return "K3";
    if (t == pol::static_type<K4>()) return "K4";
    if (t == pol::static_type<K5>()) return "K5";
    return "K?";
}

static std::string method_name(const detail::method_info* m) {
    if (m->method_type == pol::static_type<M0>()) return "M0";
    if (m->method_type == pol::static_type<M1>()) return "M1";
    if (m->method_type == pol::static_type<M2>()) return "M2";
    return "M?";
}

// ---------------------------------------------------------------- slots

struct Slot {
    std::string name;
    std::size_t bytes;
    std::function<void*()> make;
    std::function<void(void*)> destroy;
    void* obj = nullptr;
};

template<class T>
void* make_zeroed() {
    void* p = std::calloc(1, sizeof(T));
    return new (p) T; // default-initialisation: the links keep the zeroes, as in a static object
}

template<class T>
void destroy_free(void* p) {
    static_cast<T*>(p)->~T();
    std::free(p);
}

template<class T>
Slot slot(const char* name) {
    Slot s;
    s.name = name;
    s.bytes = sizeof(T);
    s.make = make_zeroed<T>;
    s.destroy = destroy_free<T>;
    return s;
}

static void* make_definition() {
    // what add_function's constructor does with its function-local static record
    auto info = static_cast<detail::definition_info*>(
        std::calloc(1, sizeof(detail::definition_info)));
    new (info) detail::definition_info;
    info->method = &M0::fn;
    info->type = pol::static_type<decltype(f0)>();
    info->next = nullptr;
    info->pf = nullptr;
    info->vp_begin = nullptr;
    info->vp_end = nullptr;
    M0::fn.specs.push_back(*info);
    return info;
}

static std::vector<Slot> slots;

static void init_slots() {
    slots.push_back(slot<class_declaration<K0, pol>>("c0"));
    slots.push_back(slot<class_declaration<K1, K0, pol>>("c1"));
    slots.push_back(slot<class_declaration<K2, K0, pol>>("c2"));
    slots.push_back(slot<class_declaration<K3, K1, K0, pol>>("c3"));
    slots.push_back(slot<class_declaration<K4, pol>>("c4"));
    slots.push_back(slot<class_declaration<K5, K4, pol>>("c5"));
    slots.push_back(slot<class_declaration<K0, pol>>("c6"));
    slots.push_back(slot<class_declaration<K1, K0, pol>>("c7"));
    slots.push_back(slot<use_classes<K0, K1, K2, pol>>("u0"));
    slots.push_back(slot<use_classes<K3, K4, K5, pol>>("u1"));
    slots.push_back(slot<M0>("m0"));
    slots.push_back(slot<M0>("m1"));
    slots.push_back(slot<M1>("m2"));
    slots.push_back(slot<M2>("m3"));
    slots.push_back(slot<M0::add_function<f0>>("a0"));
    slots.push_back(slot<M0::add_function<f1>>("a1"));
    slots.push_back(slot<M0::add_function<f2>>("a2"));
    slots.push_back(slot<M0::add_function<f0>>("a3"));
    for (int i = 0; i < 6; ++i) {
        Slot s;
        s.name = "d" + std::to_string(i);
        s.bytes = sizeof(detail::definition_info);
        s.make = make_definition;
        s.destroy = destroy_free<detail::definition_info>;
        slots.push_back(s);
    }
}

static Slot* find_slot(const std::string& name) {
    for (auto& s : slots) {
        if (s.name == name) {
            return &s;
        }
    }
    return nullptr;
}

static std::string owner(const void* p) {
    auto a = reinterpret_cast<const char*>(p);
    for (auto& s : slots) {
        if (s.obj) {
            auto b = static_cast<const char*>(s.obj);
            if (a >= b && a < b + s.bytes) {
                return s.name;
            }
        }
    }
    return "";
}

// ---------------------------------------------------------------- dumps

static const std::size_t LIMIT = 64; // more entries than objects can exist: a cycle

template<class List>
std::string tail(List& list, std::size_t seen, bool loop) {
    if (loop) {
        return " n=LOOP e=" + std::string(list.empty() ? "1" : "0");
    }
    std::string out = " n=" + std::to_string(list.size());
    if (list.size() != seen) {
        out += "(iteration " + std::to_string(seen) + ")";
    }
    return out + " e=" + (list.empty() ? "1" : "0");
}

static std::string join(const std::vector<std::string>& v) {
    std::string out;
    for (auto& s : v) {
        if (!out.empty()) {
            out += " ";
        }
        out += s;
    }
    return out;
}

static std::string dump_classes() {
    // consecutive records owned by the same (tuple) object are merged, names sorted
    std::vector<std::pair<std::string, std::vector<std::string>>> groups;
    std::size_t seen = 0;
    bool loop = false;
    for (auto& cls : pol::classes) {
        if (seen == LIMIT) {
            loop = true;
            break;
        }
        ++seen;
        auto o = owner(&cls);
        if (o.empty()) {
            o = "?";
        }
        if (groups.empty() || groups.back().first != o || o[0] != 'u') {
            groups.push_back({o, {}});
        }
        groups.back().second.push_back(class_name(cls.type));
    }
    std::vector<std::string> items;
    for (auto& g : groups) {
        std::sort(g.second.begin(), g.second.end());
        std::string s = g.first + ":";
        for (std::size_t i = 0; i < g.second.size(); ++i) {
            s += (i ? "+" : "") + g.second[i];
        }
        items.push_back(s);
    }
    return "classes=[" + (loop ? std::string("LOOP") : join(items)) + "]" +
        tail(pol::classes, seen, loop);
}

static std::string dump_methods() {
    std::vector<std::string> items;
    std::size_t seen = 0, statics = 0;
    bool loop = false, leading = true;
    for (auto& m : pol::methods) {
        if (seen == LIMIT) {
            loop = true;
            break;
        }
        ++seen;
        auto o = owner(&m);
        if (o.empty()) {
            bool is_fn = &m == &M0::fn || &m == &M1::fn || &m == &M2::fn;
            o = is_fn ? "fn" : "?";
        } else {
            leading = false;
        }
        if (leading) {
            ++statics;
        }
        items.push_back(o + ":" + method_name(&m));
    }
    std::sort(items.begin(), items.begin() + statics);
    return "methods=[" + (loop ? std::string("LOOP") : join(items)) + "]" +
        tail(pol::methods, seen, loop);
}

static std::string dump_specs() {
    std::vector<std::string> items;
    std::size_t seen = 0;
    bool loop = false;
    for (auto& d : M0::fn.specs) {
        if (seen == LIMIT) {
            loop = true;
            break;
        }
        ++seen;
        auto o = owner(&d);
        if (!o.empty()) {
            items.push_back(o);
        } else if (d.vp_begin && d.vp_end == d.vp_begin + 1) {
            items.push_back("a:" + class_name(*d.vp_begin));
        } else {
            items.push_back("?");
        }
    }
    return "specs=[" + (loop ? std::string("LOOP") : join(items)) + "]" +
        tail(M0::fn.specs, seen, loop);
}

static void at_exit() {
    // function-local statics constructed after this handler was registered are already destroyed
    std::string out = "exit: " + dump_specs() + "\n";
    std::fwrite(out.data(), 1, out.size(), stdout);
    std::fflush(stdout);
}

int main(int argc, char** argv) {
    if (argc != 2) {
        std::fprintf(stderr, "usage: %s <case file>\n", argv[0]);
        return 2;
    }
    std::ifstream in(argv[1]);
    if (!in) {
        std::fprintf(stderr, "cannot read %s\n", argv[1]);
        return 2;
    }
    std::atexit(at_exit);
    init_slots();

    std::string line;
    while (std::getline(in, line)) {
        std::istringstream is(line);
        std::vector<std::string> toks;
        std::string tok;
        while (is >> tok) {
            toks.push_back(tok);
        }
        if (toks.empty() || toks[0][0] == '#') {
            continue;
        }
        std::string out = join(toks) + " => ";
        for (auto& t : toks) {
            Slot* s = t.size() >= 3 ? find_slot(t.substr(1)) : nullptr;
            if (!s || (t[0] != '+' && t[0] != '-')) {
                std::fprintf(stderr, "bad op %s\n", t.c_str());
                return 2;
            }
            if (t[0] == '+') {
                if (s->obj) {
                    std::fprintf(stderr, "%s: slot is occupied\n", t.c_str());
                    return 2;
                }
                s->obj = s->make();
            } else {
                if (!s->obj) {
                    std::fprintf(stderr, "%s: slot is empty\n", t.c_str());
                    return 2;
                }
                void* p = s->obj;
                s->obj = nullptr; // after this, its records print as unowned if they stay in a catalog
                s->destroy(p);
            }
            out += t + ": " + dump_classes() + " | " + dump_methods() + " | " +
                dump_specs() + ";";
        }
        for (auto& s : slots) {
            if (s.obj) {
                void* p = s.obj;
                s.obj = nullptr;
                s.destroy(p);
            }
        }
        out += "end: " + dump_classes() + " | " + dump_methods() + " | " +
            dump_specs() + "\n";
        std::fwrite(out.data(), 1, out.size(), stdout);
        std::fflush(stdout);
    }
    return 0;
}
