// H3 unit driver for property C19: the two text functions of yorel::yomm2::generator, as they are in /repo now.
//
// usage: h3_fwddecl <case file>          one case per line (same format as ocaml/fwddecl_driver.ml):
//   W name name ...      each name goes through the real generator::add_forward_declaration(std::string_view),
//                        then write_forward_declarations(os).  Prints   W <text written, escaped>
//   S <description>      generator::add_forward_declaration(description); prints the content of the private
//                        member `names`:   S <names sorted, separated by one blank>
//   other lines          ignored (they are for the model driver)
// Every answer line is flushed: after a crash the check knows which case it was.
// Built with ASan/UBSan: the writer keeps iterators into the previous name while it walks the next one.

#include <yorel/yomm2/core.hpp>
#include <yorel/yomm2/generator.hpp>

#include <algorithm>
#include <deque>
#include <fstream>
#include <iostream>
#include <sstream>
#include <string>
#include <vector>

using yorel::yomm2::generator;

// Access to the private member `generator::names` without editing /repo: explicit instantiation may name private
// members (C++17 [temp.spec]/6).
template<auto Member>
struct names_access {
    friend auto& names_of(generator& g) {
        return g.*Member;
    }
};
auto& names_of(generator& g);
template struct names_access<&generator::names>;

static std::string escape(const std::string& s) {
    std::string r;
    for (char c : s) {
        if (c == '\n') {
            r += "\\n";
        } else if (c == '\\') {
            r += "\\\\";
        } else {
            r += c;
        }
    }
    return r;
}

int main(int argc, char** argv) {
    if (argc < 2) {
        std::cerr << "usage: " << argv[0] << " <case file>\n";
        return 2;
    }

    std::ifstream in(argv[1]);
    std::string line;

    while (std::getline(in, line)) {
        if (line.size() < 1) {
            continue;
        }

        std::string rest = line.size() > 2 ? line.substr(2) : std::string();

        if (line[0] == 'W') {
            // The generator may keep views of what it is given: the backing strings outlive it.
            std::deque<std::string> backing;
            std::istringstream is(rest);
            std::string w;
            while (is >> w) {
                backing.push_back(w);
            }
            {
                generator gen;
                for (auto& name : backing) {
                    gen.add_forward_declaration(std::string_view(name));
                }
                std::ostringstream os;
                gen.write_forward_declarations(os);
                std::cout << "W " << escape(os.str()) << std::endl;
            }
        } else if (line[0] == 'S') {
            const std::string description = rest;
            generator gen;
            gen.add_forward_declaration(std::string_view(description));
            std::vector<std::string> found;
            for (auto& name : names_of(gen)) {
                found.push_back(std::string(name));
            }
            std::sort(found.begin(), found.end());
            found.erase(std::unique(found.begin(), found.end()), found.end());
            std::cout << "S ";
            const char* sep = "";
            for (auto& name : found) {
                std::cout << sep << name;
                sep = " ";
            }
            std::cout << std::endl;
        }
    }

    return 0;
}
