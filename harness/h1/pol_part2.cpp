#define H1_PART 2
#include "policies.inc"
