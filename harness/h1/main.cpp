// H1 main: reads a case file, drives the runners, prints canonical observation lines.
#include "h1.hpp"
#include <fstream>
#include <unistd.h>

namespace h1 {
type_id g_real_id[MAXN];
std::unordered_map<type_id, int> g_num_of;
std::unordered_map<type_id, type_id> g_alias;
std::string g_call_error;

template<int... N> static constexpr auto make_idfns(std::integer_sequence<int, N...>) { return std::array<type_id (*)(), sizeof...(N)>{&idfn<N>...}; }
static const auto idfns = make_idfns(std::make_integer_sequence<int, MAXN>());
type_id (*const g_idfn[MAXN])() = {
#define F4(a) idfn<a>, idfn<a + 1>, idfn<a + 2>, idfn<a + 3>
#define F16(a) F4(a), F4(a + 4), F4(a + 8), F4(a + 12)
    F16(0), F16(16), F16(32), F16(48)};
const std::type_info* const g_typeinfo[MAXN] = {
#define T4(a) &typeid(K<a>), &typeid(K<a + 1>), &typeid(K<a + 2>), &typeid(K<a + 3>)
#define T16(a) T4(a), T4(a + 4), T4(a + 8), T4(a + 12)
    T16(0), T16(16), T16(32), T16(48)};

int num_of(type_id t) {
    auto it = g_num_of.find(t);
    if (it != g_num_of.end()) return it->second;
    for (int n = 0; n < MAXN; ++n) if ((type_id)g_idfn[n] == t) return 1000 + n;   // an unresolved deferred id
    return -1;
}

std::string describe_error(const error_type& e) {
    std::ostringstream os;
    if (auto r = std::get_if<resolution_error>(&e)) {
        os << "resolution status " << (int)r->status << " arity " << r->arity << " types";
        for (std::size_t i = 0; i < r->arity && i < resolution_error::max_types; ++i) os << " " << num_of(r->types[i]);
    } else if (auto u = std::get_if<unknown_class_error>(&e)) {
        os << "unknown_class " << num_of(u->type);
    } else if (auto h = std::get_if<hash_search_error>(&e)) {
        os << "hash_search attempts " << h->attempts << " buckets " << h->buckets;
    } else if (auto m = std::get_if<method_table_error>(&e)) {
        os << "method_table " << num_of(m->type);
    } else if (std::get_if<static_slot_error>(&e)) {
        os << "static_slot";
    } else if (std::get_if<static_stride_error>(&e)) {
        os << "static_stride";
    } else os << "error";
    return os.str();
}
void throwing_handler(const error_type& e) { throw Caught{describe_error(e)}; }
void bc_call_error(const method_call_error& error, std::size_t arity, type_id* types) {
    std::ostringstream os; os << "call_error code " << (int)error.code << " arity " << arity << " types";
    for (std::size_t i = 0; i < arity && i < 16; ++i) os << " " << num_of(types[i]);
    g_call_error = os.str();
    throw Caught{g_call_error};
}
std::map<std::string, RunnerBase*>& runners() { static std::map<std::string, RunnerBase*> r; return r; }
void init_part0(); void init_part1(); void init_part2(); void init_part3();
void init_policies() { init_part0(); init_part1(); init_part2(); init_part3(); }
}

using namespace h1;

int main(int argc, char** argv) {
    if (argc < 2) { std::cerr << "usage: h1 <casefile>\n"; return 2; }
    init_policies();
    std::ifstream in(argv[1]);
    std::string line;
    std::set<std::string> used;
    auto set_ids = [&](const std::string& mode) {
        g_num_of.clear();
        for (int n = 0; n < MAXN; ++n) { g_real_id[n] = mode == "typeid" ? (type_id)g_typeinfo[n] : (type_id)n; g_num_of[g_real_id[n]] = n; }
    };
    set_ids("small");
    auto& os = std::cout;
    while (std::getline(in, line)) {
        if (line.empty() || line[0] == '#') continue;
        std::istringstream is(line); std::string w; is >> w;
        if (w == "case") { std::string name; is >> name; os << "case " << name << " begin\n"; used.clear(); g_alias.clear(); set_ids("small"); continue; }
        if (w == "end") { os << "case end\n"; os.flush(); continue; }
        if (w == "ids") { std::string m; is >> m; set_ids(m); continue; }
        if (w == "alias") { int a, b; is >> a >> b; g_alias[g_real_id[a]] = g_real_id[b]; continue; }
        if (w[0] != '@') { std::cerr << "bad line: " << line << "\n"; return 2; }
        std::string pol = w.substr(1), pfx = w + " ";
        auto it = runners().find(pol);
        if (it == runners().end()) { os << pfx << "nopolicy\n"; continue; }
        auto r = it->second;
        if (used.insert(pol).second) r->reset();
        std::string op; is >> op;
        auto rest = [&]() { std::vector<int> v; int x; while (is >> x) v.push_back(x); return v; };
        if (op == "class") { int num, abs; is >> num >> abs; r->add_class(num, abs, rest()); }
        else if (op == "method") { std::string shape; is >> shape; r->add_method(shape, rest()); }
        else if (op == "def") { int mi, nx; is >> mi >> nx; r->add_def(mi, nx, rest()); }
        else if (op == "del") { std::string what; is >> what; auto v = rest();
            if (what == "class") r->del_class(v.at(0)); else if (what == "method") r->del_method(v.at(0)); else r->del_def(v.at(0), v.at(1)); }
        else if (op == "update") { r->update(os, pfx); }
        else if (op == "observe") { r->observe(os, pfx); }
        else if (op == "probe") { int n; is >> n; r->lookup(os, pfx, n); }
        else if (op == "textgen") { r->textgen(os, pfx); }
        else if (op == "callx") { int mi; is >> mi; r->callx(os, pfx, mi, rest()); }
        else if (op == "mkvptr") { int n; is >> n; r->mkvptr(os, pfx, n); }
        else if (op == "sethandler") { std::string w2; is >> w2; r->sethandler(os, pfx, w2); }
        else { std::cerr << "bad op: " << line << "\n"; return 2; }
    }
    os.flush();
    _exit(0);   // skip static destructors: method<>::fn objects were unlinked from the catalogs by hand
}
