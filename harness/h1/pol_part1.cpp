#define H1_PART 1
#include "policies.inc"
