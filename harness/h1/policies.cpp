// The driver's policies: one concrete policy type per configuration that matters (DESIGN.md 6.2).
#include "h1.hpp"
namespace h1 {
using namespace policy;

#define SLOT(P, S, J, NAME, ...) make_vt<ShapeSlot<P, S, J, __VA_ARGS__>>(NAME)
#define FULL_SLOTS(P) { \
    SLOT(P,0,0,"v",V), SLOT(P,0,1,"v",V), SLOT(P,0,2,"v",V), \
    SLOT(P,1,0,"vv",V,V), SLOT(P,1,1,"vv",V,V), SLOT(P,1,2,"vv",V,V), \
    SLOT(P,2,0,"vvv",V,V,V), SLOT(P,2,1,"vvv",V,V,V), \
    SLOT(P,3,0,"vvvv",V,V,V,V), \
    SLOT(P,4,0,"nv",I,V), SLOT(P,5,0,"vn",V,I), SLOT(P,6,0,"vnv",V,I,V), SLOT(P,6,1,"vnv",V,I,V), \
    SLOT(P,7,0,"nvnv",I,V,I,V), SLOT(P,8,0,"vvn",V,V,I), SLOT(P,9,0,"nvvn",I,V,V,I), \
    SLOT(P,10,0,"vnvnv",V,I,V,I,V), SLOT(P,11,0,"vnnv",V,I,I,V) }
#define LITE_SLOTS(P) { \
    SLOT(P,0,0,"v",V), SLOT(P,0,1,"v",V), SLOT(P,1,0,"vv",V,V), SLOT(P,1,1,"vv",V,V), \
    SLOT(P,2,0,"vvv",V,V,V), SLOT(P,6,0,"vnv",V,I,V), SLOT(P,4,0,"nv",I,V) }

struct pol_vec : basic_policy<pol_vec, RttiIdent, vptr_vector<pol_vec>, vectored_error<pol_vec>> {};
struct pol_hash : basic_policy<pol_hash, RttiIdent, fast_perfect_hash<pol_hash>, vptr_vector<pol_hash>, vectored_error<pol_hash>> {};
struct pol_chk : basic_policy<pol_chk, RttiIdent, checked_perfect_hash<pol_chk>, vptr_vector<pol_chk>, vectored_error<pol_chk>> {};
struct pol_map : basic_policy<pol_map, RttiIdent, vptr_map<pol_map>, vectored_error<pol_map>> {};
struct pol_ind : basic_policy<pol_ind, RttiIdent, fast_perfect_hash<pol_ind>, vptr_vector<pol_ind>, basic_indirect_vptr<pol_ind>, vectored_error<pol_ind>> {};
struct pol_thr : basic_policy<pol_thr, RttiIdent, checked_perfect_hash<pol_thr>, vptr_vector<pol_thr>, throw_error> {};
struct pol_bc : basic_policy<pol_bc, RttiIdent, fast_perfect_hash<pol_bc>, vptr_vector<pol_bc>, backward_compatible_error_handler<pol_bc>> {};
struct pol_proj : basic_policy<pol_proj, RttiProj, checked_perfect_hash<pol_proj>, vptr_vector<pol_proj>, vectored_error<pol_proj>> {};
struct pol_def : basic_policy<pol_def, RttiDeferred, fast_perfect_hash<pol_def>, vptr_vector<pol_def>, vectored_error<pol_def>> {};
struct pol_defvec : basic_policy<pol_defvec, RttiDeferred, vptr_vector<pol_defvec>, vectored_error<pol_defvec>> {};
// policies derived from others with rebind / replace / remove (C14): same facet templates, new key
struct pol_chk2 : pol_chk::rebind<pol_chk2> {};
struct pol_vec2 : pol_chk::rebind<pol_vec2>::remove<type_hash> {};
struct pol_map2 : pol_chk::rebind<pol_map2>::remove<type_hash>::replace<vptr_placement, vptr_map<pol_map2>> {};

template<class P> static void set_vectored() { P::error = throwing_handler; }

void init_policies() {
#define REG(NAME, P, SLOTS, DEFERRED) { auto r = new Runner<P>(DEFERRED); r->slots = std::vector<SlotVT> SLOTS; r->slot_used.assign(r->slots.size(), false); runners()[NAME] = r; }
    REG("vec", pol_vec, FULL_SLOTS(pol_vec), false) set_vectored<pol_vec>();
    REG("hash", pol_hash, LITE_SLOTS(pol_hash), false) set_vectored<pol_hash>();
    REG("chk", pol_chk, LITE_SLOTS(pol_chk), false) set_vectored<pol_chk>();
    REG("map", pol_map, LITE_SLOTS(pol_map), false) set_vectored<pol_map>();
    REG("ind", pol_ind, LITE_SLOTS(pol_ind), false) set_vectored<pol_ind>();
    REG("thr", pol_thr, LITE_SLOTS(pol_thr), false)
    REG("bc", pol_bc, LITE_SLOTS(pol_bc), false) pol_bc::call_error = bc_call_error;
    pol_bc::error = [](const error_type& e) {
        if (std::get_if<resolution_error>(&e)) backward_compatible_error_handler<pol_bc>::default_error_handler(e);
        throwing_handler(e);
    };
    REG("proj", pol_proj, LITE_SLOTS(pol_proj), false) set_vectored<pol_proj>();
    REG("def", pol_def, LITE_SLOTS(pol_def), true) set_vectored<pol_def>();
    REG("defvec", pol_defvec, LITE_SLOTS(pol_defvec), true) set_vectored<pol_defvec>();
    REG("chk2", pol_chk2, LITE_SLOTS(pol_chk2), false) set_vectored<pol_chk2>();
    REG("vec2", pol_vec2, LITE_SLOTS(pol_vec2), false) set_vectored<pol_vec2>();
    REG("map2", pol_map2, LITE_SLOTS(pol_map2), false) set_vectored<pol_map2>();
}
}
