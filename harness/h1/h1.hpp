// H1 — registry-level driver for jll63/yomm2 (DESIGN.md 6.2).
// Builds registries at run time on the public catalogs (class_info / method_info / definition_info),
// runs the real compiler<Policy>, then observes the real call path.  One C++ class `Obj` carries its
// dynamic type id in a field (custom RTTI facet).
#pragma once
#include <yorel/yomm2/core.hpp>
#include <yorel/yomm2/detail/compiler.hpp>

#include <algorithm>
#include <cstdint>
#include <functional>
#include <iostream>
#include <map>
#include <memory>
#include <set>
#include <sstream>
#include <string>
#include <tuple>
#include <typeinfo>
#include <unordered_map>
#include <vector>

namespace h1 {
using namespace yorel::yomm2;
using namespace yorel::yomm2::detail;

struct Obj {
    type_id id;
    explicit Obj(type_id i) : id(i) {}
    virtual ~Obj() {}
};

// ---------------------------------------------------------------- class numbers <-> type ids
constexpr int MAXN = 64;
template<int N> struct K {};
extern type_id g_real_id[MAXN];            // class number -> id currently in use
extern std::unordered_map<type_id, int> g_num_of;  // id -> class number
extern std::unordered_map<type_id, type_id> g_alias;  // proj flavour: id -> representative id
template<int N> type_id idfn() { return g_real_id[N]; }
extern type_id (*const g_idfn[MAXN])();
extern const std::type_info* const g_typeinfo[MAXN];
int num_of(type_id t);

// ---------------------------------------------------------------- RTTI facets
struct RttiIdent : policy::rtti {
    template<typename T> static type_id static_type() { return 0; }   // never a registered id
    template<typename T> static type_id dynamic_type(const T& obj) {
        if constexpr (std::is_base_of_v<Obj, T>) return obj.id; else return 0;
    }
    template<class Stream> static void type_name(type_id type, Stream& stream) { stream << "C" << num_of(type); }
};
struct RttiProj : RttiIdent {
    static type_id type_index(type_id t) { auto it = g_alias.find(t); return it == g_alias.end() ? t : it->second; }
};
struct RttiDeferred : policy::deferred_static_rtti {
    template<typename T> static type_id static_type() { return 0; }
    template<typename T> static type_id dynamic_type(const T& obj) {
        if constexpr (std::is_base_of_v<Obj, T>) return obj.id; else return 0;
    }
    template<class Stream> static void type_name(type_id type, Stream& stream) { stream << "C" << num_of(type); }
};

// ---------------------------------------------------------------- errors caught in process
struct Caught { std::string what; };
std::string describe_error(const error_type& e);
[[noreturn]] void throwing_handler(const error_type& e);
extern std::string g_call_error;           // deprecated call_error handler output
void bc_call_error(const method_call_error& error, std::size_t arity, type_id* types);

// ---------------------------------------------------------------- registry objects
struct Cls { int num; std::vector<int> bases; bool abstract_; class_info info; std::vector<type_id> ids; bool live = false; };
struct Def { std::vector<int> vp; definition_info info; void* next = nullptr; bool has_next; std::vector<type_id>* ids; bool live = false; int pool = -1; };
struct Meth { std::string shape; std::vector<int> vp; method_info* info; method_info own; std::vector<std::size_t> ss;
              std::vector<Def*> defs; std::vector<type_id>* ids; bool live = false; int slot = -1; int shape_idx = -1; };

struct RunnerBase {
    virtual ~RunnerBase() {}
    virtual void reset() = 0;                          // start of a case: empty the catalogs
    virtual void add_class(int num, bool abs, const std::vector<int>& bases) = 0;
    virtual void add_method(const std::string& shape, const std::vector<int>& vp) = 0;
    virtual void add_def(int mi, bool has_next, const std::vector<int>& vp) = 0;
    virtual void del_class(int idx) = 0;
    virtual void del_method(int idx) = 0;
    virtual void del_def(int mi, int idx) = 0;
    virtual void update(std::ostream& os, const std::string& pfx) = 0;
    virtual void observe(std::ostream& os, const std::string& pfx) = 0;   // re-take call observations without update
    virtual void lookup(std::ostream& os, const std::string& pfx, int num) = 0;
    virtual void textgen(std::ostream& os, const std::string& pfx) {}     // offsets / codec (only some policies)
    virtual void callx(std::ostream& os, const std::string& pfx, int mi, const std::vector<int>& nums) = 0;  // real call with arbitrary (possibly unregistered) dynamic ids
    virtual void mkvptr(std::ostream& os, const std::string& pfx, int num) = 0;    // virtual_ptr<Obj>(obj of dynamic id num): route 'from base reference'
    virtual void sethandler(std::ostream& os, const std::string& pfx, const std::string& which) = 0;
    std::string idmode = "small";
    bool deferred = false;
};

std::map<std::string, RunnerBase*>& runners();
struct Registrar { Registrar(const char* name, RunnerBase* r) { runners()[name] = r; } };

// ---------------------------------------------------------------- method shapes with a real method<> behind them
using V = virtual_<Obj&>;
using I = int;
template<class P, int ShapeIdx, int J> struct MKey;

template<typename T> struct Pick;
template<> struct Pick<V> { static Obj& get(Obj** o, std::size_t& k) { return *o[k++]; } };
template<> struct Pick<I> { static int get(Obj**, std::size_t&) { return 7; } };

template<class P, int ShapeIdx, int J, typename... A>
struct ShapeSlot {
    using M = method<MKey<P, ShapeIdx, J>, int(A...), P>;
    template<int D> static int defn(remove_virtual<A>...) { return D; }
    static constexpr int NPOOL = 12;
    static void* pool(int d) {
        static void* p[NPOOL] = {(void*)defn<0>, (void*)defn<1>, (void*)defn<2>, (void*)defn<3>, (void*)defn<4>, (void*)defn<5>,
                                 (void*)defn<6>, (void*)defn<7>, (void*)defn<8>, (void*)defn<9>, (void*)defn<10>, (void*)defn<11>};
        return p[d];
    }
    static method_info* info() { return &M::fn; }
    static int call(Obj** objs) {
        std::size_t k = 0;
        std::tuple<remove_virtual<A>...> args{Pick<A>::get(objs, k)...};   // braced init: left-to-right
        return std::apply([](auto&&... a) { return M::fn(std::forward<decltype(a)>(a)...); }, args);
    }
    static std::uintptr_t resolve(Obj** objs) {
        std::size_t k = 0;
        std::tuple<remove_virtual<A>...> args{Pick<A>::get(objs, k)...};
        return std::apply([](auto&&... a) { return (std::uintptr_t)M::fn.resolve(a...); }, args);
    }
};

struct SlotVT { const char* shape; method_info* (*info)(); void* (*pool)(int); int (*call)(Obj**); std::uintptr_t (*resolve)(Obj**); int npool; };

template<class Slot> SlotVT make_vt(const char* shape) { return SlotVT{shape, &Slot::info, &Slot::pool, &Slot::call, &Slot::resolve, Slot::NPOOL}; }

// ---------------------------------------------------------------- the runner
template<class P>
struct Runner : RunnerBase {
    std::vector<SlotVT> slots;                 // available real methods
    std::vector<bool> slot_used;
    std::vector<Cls*> classes;                 // live + dead (index = creation order)
    std::vector<Meth*> methods;
    std::map<int, std::uintptr_t*> svp;        // class number -> its static v-table pointer variable
    std::map<std::vector<int>, std::vector<type_id>*> id_arrays;   // shared id lists (as type_id_list statics are)

    Runner(bool deferred_) { deferred = deferred_; }

    std::vector<type_id>* id_array(const std::vector<int>& nums) {
        auto it = id_arrays.find(nums);
        if (it != id_arrays.end()) return it->second;
        auto v = new std::vector<type_id>();
        for (int n : nums) v->push_back(deferred ? (type_id)g_idfn[n] : g_real_id[n]);
        v->push_back(0);   // the flag that follows the list
        id_arrays[nums] = v;
        return v;
    }

    void reset() override {
        P::classes.clear();
        for (auto m : methods) if (m->live) { m->info->specs.clear(); }
        P::methods.clear();
        for (auto c : classes) c->live = false;
        for (auto m : methods) { m->live = false; for (auto d : m->defs) { d->live = false; d->info.method = nullptr; } }
        classes.clear(); methods.clear(); id_arrays.clear(); kept_vptrs.clear();
        std::fill(slot_used.begin(), slot_used.end(), false);
    }

    void add_class(int num, bool abs, const std::vector<int>& bases) override {
        auto c = new Cls(); c->num = num; c->bases = bases; c->abstract_ = abs;
        auto arr = id_array(bases);
        c->info.type = deferred ? (type_id)g_idfn[num] : g_real_id[num];
        c->info.is_abstract = abs;
        // every registration record of a class refers to the class's one static v-table pointer variable
        { auto it = g_alias.find(g_real_id[num]); c->info.static_vptr = &svp[it == g_alias.end() ? num : num_of(it->second)]; }
        c->info.first_base = arr->data(); c->info.last_base = arr->data() + arr->size() - 1;
        P::classes.push_back(c->info); c->live = true; classes.push_back(c);
    }

    void add_method(const std::string& shape, const std::vector<int>& vp) override {
        auto m = new Meth(); m->shape = shape; m->vp = vp;
        m->ids = id_array(vp);
        for (std::size_t s = 0; s < slots.size(); ++s)
            if (!slot_used[s] && shape == slots[s].shape) { m->slot = (int)s; slot_used[s] = true; break; }
        if (m->slot >= 0) {
            m->info = slots[m->slot].info();
        } else {
            m->info = &m->own; m->ss.resize(2 * vp.size()); m->info->slots_strides_ptr = m->ss.data();
            static char stubs[8192]; static int nstub = 0;
            m->info->ambiguous = &stubs[nstub++ % 8192]; m->info->not_implemented = &stubs[nstub++ % 8192];
            m->info->name = "m";
        }
        m->info->vp_begin = m->ids->data(); m->info->vp_end = m->ids->data() + m->ids->size() - 1;
        m->info->method_type = 0;
        P::methods.push_back(*m->info); m->live = true; methods.push_back(m);
    }

    void add_def(int mi, bool has_next, const std::vector<int>& vp) override {
        auto m = methods.at(mi);
        auto d = new Def(); d->vp = vp; d->has_next = has_next; d->ids = id_array(vp);
        d->info.method = nullptr;   // we unregister by hand
        d->info.type = 0; d->info.next = has_next ? &d->next : nullptr;
        d->next = (void*)0x1;       // sentinel: "untouched"
        d->info.vp_begin = d->ids->data(); d->info.vp_end = d->ids->data() + d->ids->size() - 1;
        int idx = (int)m->defs.size();
        if (m->slot >= 0 && idx < slots[m->slot].npool) { d->info.pf = slots[m->slot].pool(idx); d->pool = idx; }
        else { static char tags[65536]; static int ntag = 0; d->info.pf = &tags[ntag++ % 65536]; }
        m->info->specs.push_back(d->info); d->live = true; m->defs.push_back(d);
    }

    void del_class(int idx) override { auto c = classes.at(idx); if (c->live) { P::classes.remove(c->info); c->live = false; } }
    void del_method(int idx) override {
        auto m = methods.at(idx);
        if (!m->live) return;
        // an unloaded library takes its definitions with it (their destructors unregister them first)
        for (auto d : m->defs) if (d->live) { m->info->specs.remove(d->info); d->live = false; }
        P::methods.remove(*m->info); m->live = false;
        if (m->slot >= 0) slot_used[m->slot] = false;
    }
    void del_def(int mi, int idx) override { auto d = methods.at(mi)->defs.at(idx); if (d->live) { methods.at(mi)->info->specs.remove(d->info); d->live = false; } }

    // live methods / defs in catalog order (= creation order among the live ones, since push_back appends)
    std::vector<Meth*> live_methods() {
        std::vector<Meth*> r;
        for (auto& mi : P::methods) for (auto m : methods) if (m->live && m->info == &mi) r.push_back(m);
        return r;
    }
    std::vector<Def*> live_defs(Meth* m) {
        std::vector<Def*> r;
        for (auto& di : m->info->specs) for (auto d : m->defs) if (d->live && &d->info == &di) r.push_back(d);
        return r;
    }

    std::string word_name(std::uintptr_t w, const std::vector<Meth*>& lm) {
        auto base = P::dispatch_data.data(); auto end = base + P::dispatch_data.size();
        for (std::size_t mi = 0; mi < lm.size(); ++mi) {
            auto m = lm[mi];
            if ((void*)w == m->info->ambiguous) return "amb" + std::to_string(mi);
            if ((void*)w == m->info->not_implemented) return "ni" + std::to_string(mi);
            auto ds = live_defs(m);
            for (std::size_t i = 0; i < ds.size(); ++i) if ((void*)w == ds[i]->info.pf) return "d" + std::to_string(mi) + "." + std::to_string(i);
        }
        if ((std::uintptr_t*)w >= base && (std::uintptr_t*)w < end) return "row" + std::to_string((std::uintptr_t*)w - base);
        if (w < (1u << 20)) return "idx" + std::to_string(w);
        return "junk";
    }
    std::string cell_name(std::uintptr_t w, Meth* m) {
        if ((void*)w == m->info->ambiguous) return "amb";
        if ((void*)w == m->info->not_implemented) return "ni";
        if (w == 0x1) return "untouched";
        auto ds = live_defs(m);
        for (std::size_t i = 0; i < ds.size(); ++i) if ((void*)w == ds[i]->info.pf) return "d" + std::to_string(i);
        return "???";
    }

    // classes acceptable for virtual parameter class `num`: from the compiler's own covariant sets is circular;
    // use the registry: ancestors by closure over the listed bases of live records.
    std::map<int, std::set<int>> ancestors() {
        std::map<int, std::set<int>> anc;
        auto rep = [](int n) { auto it = g_alias.find(g_real_id[n]); return it == g_alias.end() ? n : num_of(it->second); };
        for (auto c : classes) if (c->live) { int k = rep(c->num); anc[k].insert(k); for (int b : c->bases) anc[k].insert(rep(b)); }
        for (bool ch = true; ch;) { ch = false; for (auto& [k, s] : anc) { auto cp = s; for (int b : cp) if (anc.count(b)) for (int bb : anc[b]) if (s.insert(bb).second) ch = true; } }
        return anc;
    }

    std::unique_ptr<compiler<P>> comp;
    std::map<int, virtual_ptr<Obj, P>*> kept_vptrs;

    void update(std::ostream& os, const std::string& pfx) override {
        comp.reset(new compiler<P>());
        try {
            comp->compile();
            comp->install_global_tables();
        } catch (Caught& c) {
            os << pfx << "update error " << c.what << "\n";
            comp.reset();
            return;
        } catch (unknown_class_error& e) {
            os << pfx << "update error unknown_class " << num_of(e.type) << "\n";
            comp.reset();
            return;
        } catch (hash_search_error& e) {
            os << pfx << "update error hash_search attempts " << e.attempts << " buckets " << e.buckets << "\n";
            comp.reset();
            return;
        }
        os << pfx << "update ok\n";
        dump(os, pfx);
        observe(os, pfx);
    }

    int cnum(const generic_compiler::class_* c) { return num_of(c->type_ids[0]); }

    void dump(std::ostream& os, const std::string& pfx) {
        auto& C = *comp;
        auto lm = live_methods();
        for (auto& c : C.classes) {
            os << pfx << "class " << cnum(&c) << " tids";
            for (auto t : c.type_ids) os << " " << num_of(t);
            os << " abstract " << c.is_abstract << " tb";
            { std::vector<int> v; for (auto b : c.transitive_bases) v.push_back(cnum(b)); std::sort(v.begin(), v.end()); for (int x : v) os << " " << x; }
            os << " direct"; for (auto b : c.direct_bases) os << " " << cnum(b);
            os << " derived"; for (auto b : c.direct_derived) os << " " << cnum(b);
            os << " cov"; { std::vector<int> v; for (auto b : c.covariant_classes) v.push_back(cnum(b)); std::sort(v.begin(), v.end()); for (int x : v) os << " " << x; }
            os << "\n";
        }
        std::size_t written = 0;
        for (std::size_t mi = 0; mi < C.methods.size(); ++mi) {
            auto& m = C.methods[mi];
            os << pfx << "slots " << mi; for (auto s : m.slots) os << " " << s;
            os << " strides"; for (auto s : m.strides) os << " " << s; os << "\n";
            os << pfx << "ss " << mi;
            std::size_t nss = m.arity() == 1 ? 1 : 2 * m.arity() - 1;
            for (std::size_t i = 0; i < nss; ++i) os << " " << m.info->slots_strides_ptr[i];
            os << "\n";
            os << pfx << "table " << mi;
            for (auto d : m.dispatch_table) os << " " << cell_name(d->pf, lm[mi]);
            os << "\n";
            if (m.arity() > 1) written += m.dispatch_table.size();
            auto& r = m.report;
            os << pfx << "report " << mi << " cells " << r.cells << " ccells " << r.concrete_cells << " ni " << r.not_implemented
               << " amb " << r.ambiguous << " cni " << r.concrete_not_implemented << " camb " << r.concrete_ambiguous << "\n";
            auto ds = live_defs(lm[mi]);
            for (std::size_t i = 0; i < ds.size(); ++i)
                os << pfx << "next " << mi << " " << i << " = " << (ds[i]->has_next ? cell_name((std::uintptr_t)ds[i]->next, lm[mi]) : "none-registered") << "\n";
        }
        {
            auto& r = C.report;
            os << pfx << "report total cells " << r.cells << " ccells " << r.concrete_cells << " ni " << r.not_implemented
               << " amb " << r.ambiguous << " cni " << r.concrete_not_implemented << " camb " << r.concrete_ambiguous << "\n";
        }
        auto base = P::dispatch_data.data();
        for (auto& c : C.classes) {
            os << pfx << "vtbl " << cnum(&c) << " first " << c.first_slot << " len " << c.vtbl.size() << " entries";
            for (auto& e : c.vtbl) os << " (" << e.method_index << "," << e.vp_index << "," << e.group_index << ")";
            os << " vptr " << (std::ptrdiff_t)(*c.static_vptr - base) << "\n";
            written += c.vtbl.size();
        }
        os << pfx << "image " << P::dispatch_data.size() << " :";
        for (std::size_t i = 0; i < written && i < P::dispatch_data.size(); ++i) os << " " << word_name(base[i], lm);
        os << "\n";
    }

    // every legal tuple: bounds-checked re-walk of dispatch_data (what resolve does), the real resolve / fn() when
    // the method has a real method<> behind it, and the published v-table pointers.
    void observe(std::ostream& os, const std::string& pfx) override {
        if (!comp) return;
        auto lm = live_methods();
        auto anc = ancestors();
        auto rep = [](int n) { auto it = g_alias.find(g_real_id[n]); return it == g_alias.end() ? n : num_of(it->second); };
        auto base = P::dispatch_data.data(); auto end = base + P::dispatch_data.size();
        // all live class numbers (ids), with their representative
        std::vector<int> nums; { std::set<int> seen; for (auto c : classes) if (c->live && seen.insert(c->num).second) nums.push_back(c->num); }
        for (std::size_t mi = 0; mi < lm.size(); ++mi) {
            auto m = lm[mi];
            std::size_t ar = m->vp.size();
            std::vector<std::vector<int>> dom(ar);
            for (std::size_t k = 0; k < ar; ++k) for (int n : nums) if (anc[rep(n)].count(rep(m->vp[k]))) dom[k].push_back(n);
            bool empty = false; for (auto& d : dom) if (d.empty()) empty = true;
            if (empty) continue;
            std::vector<std::size_t> idx(ar, 0);
            auto ss = m->info->slots_strides_ptr;
            while (true) {
                std::ostringstream tup; for (std::size_t k = 0; k < ar; ++k) tup << " " << dom[k][idx[k]];
                // 1. manual walk with bounds checks, through the static v-table pointer of each class
                {
                    bool oob = false; std::ostringstream reads;
                    auto rd = [&](const std::uintptr_t* p) -> std::uintptr_t { reads << " " << (p - base); if (p < base || p >= end) { oob = true; return 0; } return *p; };
                    std::uintptr_t res = 0;
                    auto vp = [&](std::size_t k) { return svp[rep(dom[k][idx[k]])]; };
                    if (ar == 1) res = rd(vp(0) + ss[0]);
                    else {
                        auto disp = (const std::uintptr_t*)rd(vp(0) + ss[0]);
                        for (std::size_t k = 1; k < ar && !oob; ++k) { auto g = rd(vp(k) + ss[k]); if (!oob) disp = disp + g * ss[ar + k - 1]; }
                        if (!oob) res = rd(disp);
                    }
                    os << pfx << "disp " << mi << tup.str() << " = " << (oob ? "oob" : cell_name(res, m)) << " reads" << reads.str() << "\n";
                }
                // 2. the real resolve and the real call
                if (m->slot >= 0) {
                    std::vector<std::unique_ptr<Obj>> objs; std::vector<Obj*> ptrs;
                    for (std::size_t k = 0; k < ar; ++k) { objs.emplace_back(new Obj(g_real_id[dom[k][idx[k]]])); ptrs.push_back(objs.back().get()); }
                    os << pfx << "call " << mi << tup.str() << " =";
                    try {
                        auto pf = slots[m->slot].resolve(ptrs.data());
                        os << " resolve " << cell_name(pf, m);
                    } catch (Caught& c) { os << " resolve-error " << c.what; }
                    g_call_error.clear();
                    try {
                        int r = slots[m->slot].call(ptrs.data());
                        auto ds = live_defs(m); int which = -1;
                        for (std::size_t i = 0; i < ds.size(); ++i) if (ds[i]->pool == r) which = (int)i;
                        os << " ran d" << which;
                    } catch (Caught& c) { os << " error " << c.what; }
                    catch (resolution_error& e) { os << " threw resolution_error status " << (int)e.status << " arity " << e.arity << " types"; for (std::size_t i = 0; i < e.arity && i < 16; ++i) os << " " << num_of(e.types[i]); }
                    catch (unknown_class_error& e) { os << " threw unknown_class " << num_of(e.type); }
                    if (!g_call_error.empty()) os << " [" << g_call_error << "]";
                    os << "\n";
                }
                std::size_t k = 0; while (k < ar && ++idx[k] == dom[k].size()) { idx[k] = 0; ++k; } if (k == ar) break;
            }
        }
        // virtual_ptr<Obj, P> made from a base reference to an object of every live id: its v-table pointer must be the
        // class's static v-table pointer (through indirect_vptrs for indirect policies); pointers made at the previous
        // observation and kept across the update must still be right for indirect policies (for direct ones they are
        // only valid until the next update: not dereferenced)
        {
            std::map<int, virtual_ptr<Obj, P>*> still;
            for (int n : nums) {
                auto o = new Obj(g_real_id[n]);       // kept alive with the pointer
                os << pfx << "vptr " << n << " =";
                try {
                    auto vp = new virtual_ptr<Obj, P>(*o);
                    os << (vp->_vptr() == svp[rep(n)] ? " ok" : " WRONG") << "\n";
                    still[n] = vp;
                } catch (Caught& c) { os << " error " << c.what << "\n"; }
                catch (unknown_class_error& e) { os << " threw unknown_class " << num_of(e.type) << "\n"; }
            }
            if constexpr (P::template has_facet<policy::indirect_vptr>) {
                for (auto& [n, vp] : kept_vptrs) {
                    if (std::find(nums.begin(), nums.end(), n) == nums.end()) continue;    // its class was unregistered
                    os << pfx << "keptvptr " << n << " = " << (vp->_vptr() == svp[rep(n)] ? "ok" : "WRONG") << "\n";
                }
            }
            kept_vptrs = still;
        }
        // published v-table pointers: every id of every live class
        for (int n : nums) {
            Obj o(g_real_id[n]);
            try {
                auto vp = P::dynamic_vptr(o);
                os << pfx << "lookup " << n << " = " << (vp == svp[rep(n)] ? "ok" : "WRONG") << "\n";
            } catch (Caught& c) { os << pfx << "lookup " << n << " = error " << c.what << "\n"; }
        }
    }

    void callx(std::ostream& os, const std::string& pfx, int mi, const std::vector<int>& nums) override {
        auto m = methods.at(mi);
        std::ostringstream tup; for (int n : nums) tup << " " << n;
        if (m->slot < 0 || !m->live) { os << pfx << "callx " << mi << tup.str() << " = no-real-method\n"; return; }
        std::vector<std::unique_ptr<Obj>> objs; std::vector<Obj*> ptrs;
        for (int n : nums) { objs.emplace_back(new Obj(g_real_id[n])); ptrs.push_back(objs.back().get()); }
        os << pfx << "callx " << mi << tup.str() << " =";
        g_call_error.clear();
        try {
            int r = slots[m->slot].call(ptrs.data());
            auto ds = live_defs(m); int which = -1;
            for (std::size_t i = 0; i < ds.size(); ++i) if (ds[i]->pool == r) which = (int)i;
            os << " ran d" << which;
        } catch (Caught& c) { os << " error " << c.what; }
        catch (resolution_error& e) { os << " threw resolution_error status " << (int)e.status << " arity " << e.arity << " types"; for (std::size_t i = 0; i < e.arity && i < 16; ++i) os << " " << num_of(e.types[i]); }
        catch (unknown_class_error& e) { os << " threw unknown_class " << num_of(e.type); }
        os << "\n";
    }

    void mkvptr(std::ostream& os, const std::string& pfx, int num) override {
        Obj o(g_real_id[num]);
        auto rep = [](int n) { auto it = g_alias.find(g_real_id[n]); return it == g_alias.end() ? n : num_of(it->second); };
        os << pfx << "mkvptr " << num << " =";
        try {
            virtual_ptr<Obj, P> p(o);
            auto want = svp.count(rep(num)) ? svp[rep(num)] : nullptr;
            os << (p._vptr() == want ? " ok" : (p._vptr() == nullptr ? " null" : " WRONG")) << (&*p == &o ? "" : " WRONG-OBJECT");
        } catch (Caught& c) { os << " error " << c.what; }
        catch (unknown_class_error& e) { os << " threw unknown_class " << num_of(e.type); }
        os << "\n";
    }

    void sethandler(std::ostream& os, const std::string& pfx, const std::string& which) override {
        if constexpr (std::is_assignable_v<decltype((P::error)), error_handler_type>) {
            if (which == "alt") P::error = [](const error_type& e) { throw Caught{"ALT " + describe_error(e)}; };
            else if (which == "returning") P::error = [](const error_type& e) { std::cout << "handler-returned " << describe_error(e) << std::endl; };
            else P::error = throwing_handler;
            os << pfx << "sethandler " << which << " ok\n";
        } else {
            os << pfx << "sethandler " << which << " not-settable\n";
        }
    }

    void lookup(std::ostream& os, const std::string& pfx, int num) override {
        Obj o(g_real_id[num]);
        if constexpr (P::template has_facet<policy::runtime_checks>) {
            try { P::dynamic_vptr(o); os << pfx << "probe " << num << " = accepted\n"; }
            catch (Caught& c) { os << pfx << "probe " << num << " = error " << c.what << "\n"; }
            catch (unknown_class_error& e) { os << pfx << "probe " << num << " = threw unknown_class " << num_of(e.type) << "\n"; }
        } else {
            os << pfx << "probe " << num << " = unchecked\n";
        }
    }
};

} // namespace h1
