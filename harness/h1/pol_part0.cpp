#define H1_PART 0
#include "policies.inc"
