#define H1_PART 3
#include "policies.inc"
