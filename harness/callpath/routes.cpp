// C16 call-path harness: ONE translation unit; one extern "C", noinline
// function per call route x policy shape. translators/callpath.py compiles it
// from VERIF_REPO/include with clang++ -O2 -S -emit-llvm and reduces the IR of
// every c16_* function (and, transitively, of everything it calls that is
// defined in the module) to a list of memory accesses.
//
// The same file is linked into the ThreadSanitizer driver (tsan_driver.cpp).
#include "routes.hpp"

#include <new>

using namespace yorel::yomm2;

namespace c16 {

// Methods and their definitions, per policy shape. The method<> instances
// (and therefore method<>::fn, the registration objects) live at namespace
// scope through the explicit registrations made by C16_DEFINE_ROUTES below.
template<class P>
struct defs {
    using A = typename shape_classes<P>::A;
    using D = typename shape_classes<P>::D;
    using C = typename shape_classes<P>::C;
    using B = typename shape_classes<P>::B;

    struct kick_key;
    struct meet_key;
    struct vkick_key;
    struct vmeet_key;
    struct skick_key;

    using kick = method<kick_key, int(virtual_<A&>, int), P>;
    using meet = method<meet_key, int(virtual_<A&>, int, virtual_<A&>), P>;
    using vkick = method<vkick_key, int(vp<A, P>, int), P>;
    using vmeet = method<vmeet_key, int(vp<A, P>, vp<A, P>), P>;
    using skick = method<skick_key, int(const vsp<A, P>&), P>;

    // uni-method, virtual_<A&>
    static int kick_a(A& a, int x) {
        return 100 + x + a.tag;
    }
    static int kick_d(D& d, int x) {
        return 200 + x + d.tag;
    }
    static int kick_b(B& b, int x) {
        return 300 + x + b.tag;
    }
    // 2-method with a non-virtual parameter in the middle
    static int meet_aa(A& a, int x, A& b) {
        return 1000 + x + a.tag + b.tag;
    }
    static int meet_dc(D& a, int x, C& b) {
        return 2000 + x + a.tag + b.tag;
    }
    static int meet_cd(C& a, int x, D& b) {
        return 3000 + x + a.tag + b.tag;
    }
    static int meet_dd(D& a, int x, D& b) {
        return 4000 + x + a.tag + b.tag;
    }
    static int meet_bd(B& a, int x, D& b) {
        return 5000 + x + a.tag + b.tag;
    }
    // virtual_ptr by value
    static int vkick_a(vp<A, P> a, int x) {
        return 10100 + x + a->tag;
    }
    static int vkick_d(vp<D, P> d, int x) {
        return 10200 + x + d->tag;
    }
    static int vkick_b(vp<B, P> b, int x) {
        return 10300 + x + b->tag;
    }
    // two virtual_ptr
    static int vmeet_aa(vp<A, P> a, vp<A, P> b) {
        return 31000 + a->tag + b->tag;
    }
    static int vmeet_dc(vp<D, P> a, vp<C, P> b) {
        return 32000 + a->tag + b->tag;
    }
    static int vmeet_cd(vp<C, P> a, vp<D, P> b) {
        return 33000 + a->tag + b->tag;
    }
    static int vmeet_bb(vp<B, P> a, vp<B, P> b) {
        return 34000 + a->tag + b->tag;
    }
    // virtual_shared_ptr by const reference (the only virtual_ptr flavour the
    // library supports as a const-reference method parameter)
    static int skick_a(const vsp<A, P>& a) {
        return 40100 + a->tag;
    }
    static int skick_d(const vsp<D, P>& d) {
        return 40200 + d->tag;
    }
};

} // namespace c16

#define C16_NOINLINE __attribute__((noinline))

#define C16_DEFINE_ROUTES(SHAPE, P)                                            \
    namespace c16 {                                                            \
    namespace reg_##SHAPE {                                                    \
    using S = defs<P>;                                                         \
    static use_classes<S::A, S::D, S::C, S::B, P> classes;                     \
    static S::kick::add_function<S::kick_a> k1;                                \
    static S::kick::add_function<S::kick_d> k2;                                \
    static S::kick::add_function<S::kick_b> k3;                                \
    static S::meet::add_function<S::meet_aa> m1;                               \
    static S::meet::add_function<S::meet_dc> m2;                               \
    static S::meet::add_function<S::meet_cd> m3;                               \
    static S::meet::add_function<S::meet_dd> m4;                               \
    static S::meet::add_function<S::meet_bd> m5;                               \
    static S::vkick::add_function<S::vkick_a> v1;                              \
    static S::vkick::add_function<S::vkick_d> v2;                              \
    static S::vkick::add_function<S::vkick_b> v3;                              \
    static S::vmeet::add_function<S::vmeet_aa> w1;                             \
    static S::vmeet::add_function<S::vmeet_dc> w2;                             \
    static S::vmeet::add_function<S::vmeet_cd> w3;                             \
    static S::vmeet::add_function<S::vmeet_bb> w4;                             \
    static S::skick::add_function<S::skick_a> s1;                              \
    static S::skick::add_function<S::skick_d> s2;                              \
    }                                                                          \
    }                                                                          \
    extern "C" {                                                               \
    /* --- method calls ------------------------------------------------ */    \
    C16_NOINLINE int c16_call_uni__##SHAPE(c16::defs<P>::A* a, int x) {        \
        return c16::defs<P>::kick::fn(*a, x);                                  \
    }                                                                          \
    C16_NOINLINE int c16_call_multi__##SHAPE(                                  \
        c16::defs<P>::A* a, int x, c16::defs<P>::A* b) {                       \
        return c16::defs<P>::meet::fn(*a, x, *b);                              \
    }                                                                          \
    C16_NOINLINE int c16_call_vptr_uni__##SHAPE(                               \
        const c16::vp<c16::defs<P>::A, P>* p, int x) {                         \
        return c16::defs<P>::vkick::fn(*p, x);                                 \
    }                                                                          \
    C16_NOINLINE int c16_call_vptr_multi__##SHAPE(                             \
        const c16::vp<c16::defs<P>::A, P>* p,                                  \
        const c16::vp<c16::defs<P>::A, P>* q) {                                \
        return c16::defs<P>::vmeet::fn(*p, *q);                                \
    }                                                                          \
    C16_NOINLINE int c16_call_shared__##SHAPE(                                 \
        const c16::vsp<c16::defs<P>::A, P>* p) {                               \
        return c16::defs<P>::skick::fn(*p);                                    \
    }                                                                          \
    /* --- resolve ------------------------------------------------------ */   \
    C16_NOINLINE void* c16_resolve_uni__##SHAPE(c16::defs<P>::A* a) {          \
        return (void*)c16::defs<P>::kick::fn.resolve(*a, 0);                   \
    }                                                                          \
    C16_NOINLINE void* c16_resolve_multi__##SHAPE(                             \
        c16::defs<P>::A* a, c16::defs<P>::A* b) {                              \
        return (void*)c16::defs<P>::meet::fn.resolve(*a, 0, *b);               \
    }                                                                          \
    C16_NOINLINE void* c16_resolve_vptr__##SHAPE(                              \
        const c16::vp<c16::defs<P>::A, P>* p) {                                \
        return (void*)c16::defs<P>::vkick::fn.resolve(*p, 0);                  \
    }                                                                          \
    /* --- virtual_ptr construction ------------------------------------- */   \
    C16_NOINLINE const void* c16_vptr_exact__##SHAPE(                          \
        c16::defs<P>::D* d, c16::vp<c16::defs<P>::D, P>* out) {                \
        ::new ((void*)out) c16::vp<c16::defs<P>::D, P>(*d);                    \
        return out;                                                            \
    }                                                                          \
    C16_NOINLINE const void* c16_vptr_from_base__##SHAPE(                      \
        c16::defs<P>::A* a, c16::vp<c16::defs<P>::A, P>* out) {                \
        ::new ((void*)out) c16::vp<c16::defs<P>::A, P>(*a);                    \
        return out;                                                            \
    }                                                                          \
    C16_NOINLINE const void* c16_vptr_final__##SHAPE(                          \
        c16::defs<P>::D* d, c16::vp<c16::defs<P>::D, P>* out) {                \
        ::new ((void*)out) c16::vp<c16::defs<P>::D, P>(                        \
            c16::vp<c16::defs<P>::D, P>::final(*d));                           \
        return out;                                                            \
    }                                                                          \
    C16_NOINLINE const void* c16_vptr_copy__##SHAPE(                           \
        const c16::vp<c16::defs<P>::D, P>* in,                                 \
        c16::vp<c16::defs<P>::D, P>* out) {                                    \
        ::new ((void*)out) c16::vp<c16::defs<P>::D, P>(*in);                   \
        return out;                                                            \
    }                                                                          \
    C16_NOINLINE const void* c16_vptr_convert__##SHAPE(                        \
        const c16::vp<c16::defs<P>::D, P>* in,                                 \
        c16::vp<c16::defs<P>::A, P>* out) {                                    \
        ::new ((void*)out) c16::vp<c16::defs<P>::A, P>(*in);                   \
        return out;                                                            \
    }                                                                          \
    C16_NOINLINE const void* c16_vptr_cast__##SHAPE(                           \
        const c16::vp<c16::defs<P>::A, P>* in,                                 \
        c16::vp<c16::defs<P>::D, P>* out) {                                    \
        ::new ((void*)out) c16::vp<c16::defs<P>::D, P>(                        \
            in->cast<c16::vp<c16::defs<P>::D, P>>());                          \
        return out;                                                            \
    }                                                                          \
    /* --- virtual_shared_ptr ------------------------------------------- */   \
    C16_NOINLINE const void* c16_shared_ctor__##SHAPE(                         \
        const std::shared_ptr<c16::defs<P>::A>* sp,                            \
        c16::vsp<c16::defs<P>::A, P>* out) {                                   \
        ::new ((void*)out) c16::vsp<c16::defs<P>::A, P>(*sp);                  \
        return out;                                                            \
    }                                                                          \
    C16_NOINLINE const void* c16_shared_copy__##SHAPE(                         \
        const c16::vsp<c16::defs<P>::D, P>* in,                                \
        c16::vsp<c16::defs<P>::A, P>* out) {                                   \
        ::new ((void*)out) c16::vsp<c16::defs<P>::A, P>(*in);                  \
        return out;                                                            \
    }                                                                          \
    C16_NOINLINE const void* c16_shared_cast__##SHAPE(                         \
        const c16::vsp<c16::defs<P>::A, P>* in,                                \
        c16::vsp<c16::defs<P>::D, P>* out) {                                   \
        ::new ((void*)out) c16::vsp<c16::defs<P>::D, P>(                       \
            in->cast<c16::vsp<c16::defs<P>::D, P>>());                         \
        return out;                                                            \
    }                                                                          \
    C16_NOINLINE const void* c16_shared_make__##SHAPE(                         \
        c16::vsp<c16::defs<P>::D, P>* out) {                                   \
        ::new ((void*)out) c16::vsp<c16::defs<P>::D, P>(                       \
            make_virtual_shared<c16::defs<P>::D, P>());                        \
        return out;                                                            \
    }                                                                          \
    }

C16_DEFINE_ROUTES(rel, c16::rel_policy)
C16_DEFINE_ROUTES(dbg, c16::dbg_policy)
C16_DEFINE_ROUTES(nohash, c16::nohash_policy)
C16_DEFINE_ROUTES(vmap, c16::vmap_policy)
C16_DEFINE_ROUTES(ind, c16::ind_policy)

// Unresolvable calls that throw (thr_policy).
namespace c16 {
namespace reg_thr {
struct gap_key;
struct amb_key;
using gap = method<gap_key, int(virtual_<Animal&>), thr_policy>;
using amb = method<amb_key, int(virtual_<Animal&>, virtual_<Animal&>), thr_policy>;
static int gap_dog(Dog& d) {
    return 50200 + d.tag;
}
static int amb_da(Dog& a, Animal& b) {
    return 51000 + a.tag + b.tag;
}
static int amb_ad(Animal& a, Dog& b) {
    return 52000 + a.tag + b.tag;
}
static use_classes<Animal, Dog, Cat, Bulldog, thr_policy> classes;
static gap::add_function<gap_dog> g1;
static amb::add_function<amb_da> a1;
static amb::add_function<amb_ad> a2;
} // namespace reg_thr
} // namespace c16

extern "C" C16_NOINLINE int c16_errcall_uni__thr(c16::Animal* a) {
    return c16::reg_thr::gap::fn(*a);
}
extern "C" C16_NOINLINE int c16_errcall_multi__thr(c16::Animal* a, c16::Animal* b) {
    return c16::reg_thr::amb::fn(*a, *b);
}

// The foreign policy registers the same std_rtti classes and one method, so
// that update<foreign_policy>() does real work while the routes run.
namespace c16 {
namespace reg_foreign {
using S = defs<foreign_policy>;
static use_classes<S::A, S::D, S::C, S::B, foreign_policy> classes;
static S::kick::add_function<S::kick_a> k1;
static S::kick::add_function<S::kick_d> k2;
static S::meet::add_function<S::meet_aa> m1;
static S::meet::add_function<S::meet_dc> m2;
static S::meet::add_function<S::meet_dd> m4;
} // namespace reg_foreign
} // namespace c16

extern "C" C16_NOINLINE int c16_foreign_call(c16::Animal* a, c16::Animal* b) {
    return c16::defs<c16::foreign_policy>::kick::fn(*a, 1) +
        c16::defs<c16::foreign_policy>::meet::fn(*a, 2, *b);
}
