// C16 call-path harness: classes, policy shapes and the C signatures of the
// route functions. Included by routes.cpp (the ONE translation unit whose LLVM
// IR translators/callpath.py reduces to access lists) and by tsan_driver.cpp
// (the failing-schedule search).
//
// Nothing here calls update(): the IR of routes.cpp must contain the call
// path only.
#ifndef C16_ROUTES_HPP
#define C16_ROUTES_HPP

#include <yorel/yomm2/core.hpp>
#include <yorel/yomm2/symbols.hpp>
#include <yorel/yomm2/policies/throw_error.hpp>

#include <cstddef>
#include <memory>

namespace c16 {

namespace y = yorel::yomm2;
namespace yp = yorel::yomm2::policy;

// ---------------------------------------------------------------- classes
// std_rtti hierarchy (shapes rel, dbg, vmap, ind, and the foreign policy)
struct Animal {
    virtual ~Animal() {
    }
    int tag = 0;
};
struct Dog : Animal {};
struct Cat : Animal {};
struct Bulldog : Dog {};
// never registered with any policy (used only by the vptr_map experiment)
struct Stray : Animal {};

// custom integer rtti hierarchy (shape nohash). Polymorphic so that the
// virtual_ptr(Other&&) constructor compiles ("use 'final' if intended"), but
// the type ids come from the `type` member, not from typeid.
struct CAnimal {
    explicit CAnimal(std::size_t type = static_type) : type(type) {
    }
    virtual ~CAnimal() {
    }
    static constexpr std::size_t static_type = 0;
    std::size_t type;
    int tag = 0;
};
struct CDog : CAnimal {
    explicit CDog(std::size_t type = static_type) : CAnimal(type) {
    }
    static constexpr std::size_t static_type = 1;
};
struct CCat : CAnimal {
    explicit CCat(std::size_t type = static_type) : CAnimal(type) {
    }
    static constexpr std::size_t static_type = 2;
};
struct CBulldog : CDog {
    explicit CBulldog(std::size_t type = static_type) : CDog(type) {
    }
    static constexpr std::size_t static_type = 3;
};

struct custom_rtti : yp::rtti {
    template<typename T>
    static y::type_id static_type() {
        if constexpr (std::is_base_of_v<CAnimal, T>) {
            return T::static_type;
        } else {
            return 666;
        }
    }
    template<typename T>
    static y::type_id dynamic_type(const T& obj) {
        if constexpr (std::is_base_of_v<CAnimal, T>) {
            return obj.type;
        } else {
            return 666;
        }
    }
    template<class Stream>
    static void type_name(y::type_id type, Stream& stream) {
        stream << "c16type(" << type << ")";
    }
    static auto type_index(y::type_id type) {
        return type;
    }
};

// ---------------------------------------------------------------- shapes
// rel  : the stock release policy itself
// dbg  : the stock debug policy itself
// nohash: vptr_vector indexed directly by a small integer type id
// vmap : vptr_map (std::unordered_map), no hash
// ind  : release shape + basic_indirect_vptr
using rel_policy = yp::release;
using dbg_policy = yp::debug;

struct nohash_policy : yp::release::rebind<nohash_policy>::replace<
                           yp::rtti, custom_rtti>::remove<yp::type_hash> {};

struct vmap_policy
    : yp::release::rebind<vmap_policy>::remove<yp::type_hash>::replace<
          yp::external_vptr, yp::vptr_map<vmap_policy>> {};

struct ind_policy : yp::release::rebind<ind_policy>,
                    yp::basic_indirect_vptr<ind_policy> {};

// thr  : release shape with the throw_error facet: an unresolvable call throws resolution_error to its caller
//        (C16: such a call is a call like any other; concurrent failing calls must not disturb each other)
struct thr_policy : yp::release::rebind<thr_policy>::replace<
                        yp::error_handler, yp::throw_error> {};

// the unrelated policy the extra thread keeps updating; registers the SAME
// std_rtti classes as rel/dbg/vmap/ind
struct foreign_policy : yp::release::rebind<foreign_policy> {};

template<class P>
struct shape_classes {
    using A = Animal;
    using D = Dog;
    using C = Cat;
    using B = Bulldog;
};
template<>
struct shape_classes<nohash_policy> {
    using A = CAnimal;
    using D = CDog;
    using C = CCat;
    using B = CBulldog;
};

template<class T, class P>
using vp = y::virtual_ptr<T, P>;
template<class T, class P>
using vsp = y::virtual_shared_ptr<T, P>;

} // namespace c16

// ---------------------------------------------------------------- C routes
// One set per shape; SHAPE in {rel, dbg, nohash, vmap, ind}. Objects are the
// caller's; `out` parameters point to raw storage owned by the caller (the
// result is placement-constructed there).
#define C16_DECLARE_ROUTES(SHAPE, P)                                           \
    extern "C" {                                                               \
    int c16_call_uni__##SHAPE(c16::shape_classes<P>::A* a, int x);             \
    int c16_call_multi__##SHAPE(                                               \
        c16::shape_classes<P>::A* a, int x, c16::shape_classes<P>::A* b);      \
    int c16_call_vptr_uni__##SHAPE(                                            \
        const c16::vp<c16::shape_classes<P>::A, P>* p, int x);                 \
    int c16_call_vptr_multi__##SHAPE(                                          \
        const c16::vp<c16::shape_classes<P>::A, P>* p,                         \
        const c16::vp<c16::shape_classes<P>::A, P>* q);                        \
    int c16_call_shared__##SHAPE(                                              \
        const c16::vsp<c16::shape_classes<P>::A, P>* p);                       \
    void* c16_resolve_uni__##SHAPE(c16::shape_classes<P>::A* a);               \
    void* c16_resolve_multi__##SHAPE(                                          \
        c16::shape_classes<P>::A* a, c16::shape_classes<P>::A* b);             \
    void* c16_resolve_vptr__##SHAPE(                                           \
        const c16::vp<c16::shape_classes<P>::A, P>* p);                        \
    const void* c16_vptr_exact__##SHAPE(                                       \
        c16::shape_classes<P>::D* d,                                           \
        c16::vp<c16::shape_classes<P>::D, P>* out);                            \
    const void* c16_vptr_from_base__##SHAPE(                                   \
        c16::shape_classes<P>::A* a,                                           \
        c16::vp<c16::shape_classes<P>::A, P>* out);                            \
    const void* c16_vptr_final__##SHAPE(                                       \
        c16::shape_classes<P>::D* d,                                           \
        c16::vp<c16::shape_classes<P>::D, P>* out);                            \
    const void* c16_vptr_copy__##SHAPE(                                        \
        const c16::vp<c16::shape_classes<P>::D, P>* in,                        \
        c16::vp<c16::shape_classes<P>::D, P>* out);                            \
    const void* c16_vptr_convert__##SHAPE(                                     \
        const c16::vp<c16::shape_classes<P>::D, P>* in,                        \
        c16::vp<c16::shape_classes<P>::A, P>* out);                            \
    const void* c16_vptr_cast__##SHAPE(                                        \
        const c16::vp<c16::shape_classes<P>::A, P>* in,                        \
        c16::vp<c16::shape_classes<P>::D, P>* out);                            \
    const void* c16_shared_ctor__##SHAPE(                                      \
        const std::shared_ptr<c16::shape_classes<P>::A>* sp,                   \
        c16::vsp<c16::shape_classes<P>::A, P>* out);                           \
    const void* c16_shared_copy__##SHAPE(                                      \
        const c16::vsp<c16::shape_classes<P>::D, P>* in,                       \
        c16::vsp<c16::shape_classes<P>::A, P>* out);                           \
    const void* c16_shared_cast__##SHAPE(                                      \
        const c16::vsp<c16::shape_classes<P>::A, P>* in,                       \
        c16::vsp<c16::shape_classes<P>::D, P>* out);                           \
    const void* c16_shared_make__##SHAPE(                                      \
        c16::vsp<c16::shape_classes<P>::D, P>* out);                           \
    }

C16_DECLARE_ROUTES(rel, c16::rel_policy)
C16_DECLARE_ROUTES(dbg, c16::dbg_policy)
C16_DECLARE_ROUTES(nohash, c16::nohash_policy)
C16_DECLARE_ROUTES(vmap, c16::vmap_policy)
C16_DECLARE_ROUTES(ind, c16::ind_policy)

// unresolvable calls under thr_policy: gap(Animal) has a definition for Dog only; amb(Animal, Animal) has (Dog, Animal)
// and (Animal, Dog). The calls return normally when a definition applies and throw resolution_error otherwise.
extern "C" int c16_errcall_uni__thr(c16::Animal* a);
extern "C" int c16_errcall_multi__thr(c16::Animal* a, c16::Animal* b);

// one uni-method and one 2-method call through the foreign policy
extern "C" int c16_foreign_call(c16::Animal* a, c16::Animal* b);

#endif
