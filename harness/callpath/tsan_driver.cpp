// C16 failing-schedule search (ThreadSanitizer) and sequential-answer check.
//
// Built by checks/C16.py with clang++ -fsanitize=thread -O1 -g from
// VERIF_REPO/include, together with routes.cpp.
//
//   tsan_driver [--threads N] [--iters M] [--seed S] [--mode main|selftest|vmap-registered|
//                vmap-unregistered] [--no-foreign]
//
// main: update() every policy shape once; compute the table of answers of
//   every route x shape single-threaded; then N threads run every route x
//   shape M times each on the shared registries, comparing every answer with
//   the table, while one more thread keeps running update<foreign_policy>()
//   (a policy that registers the SAME classes) and calling through it.
//   Prints `RESULT ok ...` or `RESULT mismatch ...` on stdout. ThreadSanitizer
//   reports go to stderr (the check runs with halt_on_error=0 and collects).
// selftest: as main, plus an injected unsynchronised counter on the path; the
//   check requires ThreadSanitizer to flag it (proves the tool works here).
// vmap-registered: threads construct virtual_ptr<Animal>(derived object) under
//   the vptr_map policy for registered classes only, nothing else running (the
//   route that used unordered_map::operator[] before the library fix); part of
//   every check run. The map must keep its size.
// vmap-unregistered: same for classes never registered. A misuse (undefined
//   behaviour with find(), insertion races with operator[]); kept for manual
//   experiments only, never run by the check.
#include "routes.hpp"

#include <atomic>
#include <unistd.h>
#include <cstdint>
#include <cstdio>
#include <cstdlib>
#include <cstring>
#include <string>
#include <thread>
#include <utility>
#include <vector>

using namespace yorel::yomm2;
using c16::vp;
using c16::vsp;

template<class T>
struct slot {
    alignas(T) unsigned char bytes[sizeof(T)];
    T* p() {
        return reinterpret_cast<T*>(bytes);
    }
    T& operator*() {
        return *p();
    }
};

// injected by --mode selftest: a hit counter "on the call path"
long c16_injected_counter = 0;
static bool g_selftest = false;
__attribute__((noinline)) void c16_injected_hit() {
    ++c16_injected_counter;
}

template<class P>
struct objects {
    using A = typename c16::shape_classes<P>::A;
    using D = typename c16::shape_classes<P>::D;
    using C = typename c16::shape_classes<P>::C;
    using B = typename c16::shape_classes<P>::B;
    A a;
    D d;
    C c;
    B b;
    std::shared_ptr<A> sa, sd_as_a, sb_as_a;
    std::shared_ptr<D> sd;
    objects() {
        a.tag = 1;
        d.tag = 2;
        c.tag = 3;
        b.tag = 4;
        sa = std::make_shared<A>();
        sa->tag = 5;
        sd = std::make_shared<D>();
        sd->tag = 6;
        sd_as_a = sd;
        auto sb = std::make_shared<B>();
        sb->tag = 7;
        sb_as_a = sb;
    }
};

using answers = std::vector<std::uint64_t>;

#define C16_RUN(SHAPE, P, WITH_MAP_CTOR)                                       \
    static void run_##SHAPE(const objects<P>& k, answers& out) {               \
        using A = objects<P>::A;                                               \
        using D = objects<P>::D;                                               \
        using C = objects<P>::C;                                               \
        using B = objects<P>::B;                                               \
        auto& o = const_cast<objects<P>&>(k);                                  \
        A* all[4] = {&o.a, &o.d, &o.c, &o.b};                                  \
        if (g_selftest) {                                                      \
            c16_injected_hit();                                                \
        }                                                                      \
        /* virtual_<T&> */                                                     \
        for (A * x : all) {                                                    \
            out.push_back(c16_call_uni__##SHAPE(x, 7));                        \
            out.push_back((std::uint64_t)c16_resolve_uni__##SHAPE(x));         \
        }                                                                      \
        for (A * x : all) {                                                    \
            for (A * y : all) {                                                \
                out.push_back(c16_call_multi__##SHAPE(x, 9, y));               \
                out.push_back((std::uint64_t)c16_resolve_multi__##SHAPE(x, y));\
            }                                                                  \
        }                                                                      \
        /* virtual_ptr inputs made with final + conversion (always legal) */   \
        vp<A, P> in[4] = {                                                     \
            vp<A, P>::final(o.a), vp<D, P>::final(o.d), vp<C, P>::final(o.c),  \
            vp<B, P>::final(o.b)};                                             \
        for (auto& x : in) {                                                   \
            out.push_back(c16_call_vptr_uni__##SHAPE(&x, 11));                 \
            out.push_back((std::uint64_t)c16_resolve_vptr__##SHAPE(&x));       \
            for (auto& y : in) {                                               \
                out.push_back(c16_call_vptr_multi__##SHAPE(&x, &y));           \
            }                                                                  \
        }                                                                      \
        /* construction routes */                                              \
        {                                                                      \
            slot<vp<D, P>> e, f, cp, cs;                                       \
            slot<vp<A, P>> cv;                                                 \
            c16_vptr_exact__##SHAPE(&o.d, e.p());                              \
            c16_vptr_final__##SHAPE(&o.d, f.p());                              \
            c16_vptr_copy__##SHAPE(e.p(), cp.p());                             \
            c16_vptr_convert__##SHAPE(f.p(), cv.p());                          \
            c16_vptr_cast__##SHAPE(cv.p(), cs.p());                            \
            out.push_back((*e)._vptr() == in[1]._vptr());                      \
            out.push_back((*f)._vptr() == in[1]._vptr());                      \
            out.push_back((*cp)._vptr() == in[1]._vptr());                     \
            out.push_back((*cs)._vptr() == in[1]._vptr());                     \
            out.push_back((*cs).get() == &o.d);                                \
            out.push_back(c16_call_vptr_uni__##SHAPE(cv.p(), 17));             \
        }                                                                      \
        if (WITH_MAP_CTOR) {                                                   \
            int i = 0;                                                         \
            for (A * x : all) {                                                \
                slot<vp<A, P>> r;                                              \
                c16_vptr_from_base__##SHAPE(x, r.p());                         \
                out.push_back((*r)._vptr() == in[i++]._vptr());                \
                out.push_back(c16_call_vptr_uni__##SHAPE(r.p(), 19));          \
            }                                                                  \
            for (auto* sp : {&o.sa, &o.sd_as_a, &o.sb_as_a}) {                 \
                slot<vsp<A, P>> r;                                             \
                c16_shared_ctor__##SHAPE(sp, r.p());                           \
                out.push_back(c16_call_shared__##SHAPE(r.p()));                \
                r.p()->~virtual_ptr();                                         \
            }                                                                  \
        }                                                                      \
        /* smart pointer routes that do not go through the constructor */      \
        {                                                                      \
            /* const shared_ptr&: final() has no traits for a non-const lvalue */\
            auto fd = vsp<D, P>::final(k.sd);                                  \
            slot<vsp<A, P>> up;                                                \
            c16_shared_copy__##SHAPE(&fd, up.p());                             \
            out.push_back(c16_call_shared__##SHAPE(up.p()));                   \
            slot<vsp<D, P>> down;                                              \
            c16_shared_cast__##SHAPE(up.p(), down.p());                        \
            out.push_back((*down).get().get() == o.sd.get());                  \
            out.push_back((*down)._vptr() == fd._vptr());                      \
            slot<vsp<D, P>> made;                                              \
            c16_shared_make__##SHAPE(made.p());                                \
            slot<vsp<A, P>> made_up;                                           \
            c16_shared_copy__##SHAPE(made.p(), made_up.p());                   \
            out.push_back(c16_call_shared__##SHAPE(made_up.p()));              \
            out.push_back((*made)._vptr() == fd._vptr());                      \
            made_up.p()->~virtual_ptr();                                       \
            made.p()->~virtual_ptr();                                          \
            down.p()->~virtual_ptr();                                          \
            up.p()->~virtual_ptr();                                            \
        }                                                                      \
    }

C16_RUN(rel, c16::rel_policy, true)
C16_RUN(dbg, c16::dbg_policy, true)
C16_RUN(nohash, c16::nohash_policy, true)
C16_RUN(vmap, c16::vmap_policy, true)
C16_RUN(ind, c16::ind_policy, true)

// unresolvable calls under thr_policy: the error record a caller catches is part of the answer
static std::uint64_t encode_error(const yorel::yomm2::resolution_error& e) {
    std::uint64_t h = 0x9E3779B97F4A7C15ull * (std::uint64_t)(e.status + 1) + e.arity;
    for (std::size_t i = 0; i < e.arity && i < yorel::yomm2::resolution_error::max_types; ++i) {
        h = h * 1099511628211ull + (std::uint64_t)e.types[i];
    }
    return h | (1ull << 63);
}
static void run_thr(const objects<c16::rel_policy>& k, answers& out) {
    auto& o = const_cast<objects<c16::rel_policy>&>(k);
    c16::Animal* all[4] = {&o.a, &o.d, &o.c, &o.b};
    for (auto* x : all) {
        try {
            out.push_back((std::uint64_t)c16_errcall_uni__thr(x));
        } catch (const yorel::yomm2::resolution_error& e) {
            out.push_back(encode_error(e));
        }
        for (auto* y : all) {
            try {
                out.push_back((std::uint64_t)c16_errcall_multi__thr(x, y));
            } catch (const yorel::yomm2::resolution_error& e) {
                out.push_back(encode_error(e));
            }
        }
    }
}

struct world {
    objects<c16::rel_policy> rel;
    objects<c16::dbg_policy> dbg;
    objects<c16::nohash_policy> nohash;
    objects<c16::vmap_policy> vmap;
    objects<c16::ind_policy> ind;
};

constexpr int n_shapes = 6;

static void run_shape(int shape, const world& w, answers& out) {
    out.clear();
    switch (shape) {
    case 0:
        run_rel(w.rel, out);
        break;
    case 1:
        run_dbg(w.dbg, out);
        break;
    case 2:
        run_nohash(w.nohash, out);
        break;
    case 3:
        run_vmap(w.vmap, out);
        break;
    case 5:
        run_thr(w.rel, out);
        break;
    default:
        run_ind(w.ind, out);
        break;
    }
}

// xorshift64*: the order in which a thread visits the shapes, and its short
// pauses, derive from --seed (the schedule itself is the operating system's)
struct prng {
    std::uint64_t s;
    std::uint64_t next() {
        s ^= s >> 12;
        s ^= s << 25;
        s ^= s >> 27;
        return s * 0x2545F4914F6CDD1DULL;
    }
};

// ---------------------------------------------------------------- vmap experiment
template<int N>
struct StrayN : c16::Animal {};

template<int... I>
static std::vector<c16::Animal*> make_strays(std::integer_sequence<int, I...>) {
    return {new StrayN<I>()...};
}

// The unregistered variant is a real race on the hash table: it can corrupt the
// bucket chains and spin for ever. A watchdog thread gives up after a few
// seconds, keeping the ThreadSanitizer reports already written to stderr.
static void vmap_watchdog() {
    std::thread([] {
        for (int i = 0; i < 60; ++i) {
            usleep(100000);
        }
        static const char msg[] =
            "RESULT vmap hung (hash table corrupted by the race; gave up after 6 s)\n";
        ssize_t ignored = write(1, msg, sizeof(msg) - 1);
        (void)ignored;
        _exit(0);
    }).detach();
}

static int vmap_experiment(bool registered, int threads, int iters) {
    if (!registered) {
        vmap_watchdog();
    }
    update<c16::vmap_policy>();
    std::vector<c16::Animal*> objs;
    if (registered) {
        objs = {new c16::Dog(), new c16::Cat(), new c16::Bulldog()};
    } else {
        objs = make_strays(std::make_integer_sequence<int, 48>());
    }
    // expected v-table pointers, from find() (dynamic_vptr), single-threaded
    std::vector<const std::uintptr_t*> expected;
    for (auto* x : objs) {
        auto it = c16::vmap_policy::vptrs.find(
            c16::vmap_policy::dynamic_type(*x));
        expected.push_back(
            it == c16::vmap_policy::vptrs.end() ? nullptr : it->second);
    }
    std::size_t size_before = c16::vmap_policy::vptrs.size();
    std::atomic<int> go{0};
    std::atomic<long> mismatches{0};
    std::vector<std::thread> ts;
    for (int t = 0; t < threads; ++t) {
        ts.emplace_back([&, t] {
            while (!go.load()) {
            }
            for (int it = 0; it < iters; ++it) {
                for (std::size_t k = 0; k < objs.size(); ++k) {
                    // spread the first touches over the threads
                    std::size_t j = (k + t * 7) % objs.size();
                    slot<vp<c16::Animal, c16::vmap_policy>> r;
                    c16_vptr_from_base__vmap(objs[j], r.p());
                    if ((*r)._vptr() != expected[j]) {
                        ++mismatches;
                    }
                }
            }
        });
    }
    go = 1;
    for (auto& t : ts) {
        t.join();
    }
    const bool ok = mismatches.load() == 0 &&
        (!registered || c16::vmap_policy::vptrs.size() == size_before);
    std::printf(
        "RESULT %s vmap-%s threads=%d iters=%d map_size_before=%zu "
        "map_size_after=%zu mismatches=%ld comparisons=%zu\n",
        ok ? "ok" : "mismatch", registered ? "registered" : "unregistered",
        threads, iters, size_before, c16::vmap_policy::vptrs.size(),
        mismatches.load(),
        objs.size() * (std::size_t)threads * (std::size_t)iters);
    return 0;
}

// ---------------------------------------------------------------- main
int main(int argc, char** argv) {
    int threads = 8, iters = 200, seed = 1;
    std::string mode = "main";
    bool foreign = true;
    for (int i = 1; i < argc; ++i) {
        std::string a = argv[i];
        if (a == "--threads" && i + 1 < argc) {
            threads = std::atoi(argv[++i]);
        } else if (a == "--iters" && i + 1 < argc) {
            iters = std::atoi(argv[++i]);
        } else if (a == "--seed" && i + 1 < argc) {
            seed = std::atoi(argv[++i]);
        } else if (a == "--mode" && i + 1 < argc) {
            mode = argv[++i];
        } else if (a == "--no-foreign") {
            foreign = false;
        }
    }
    if (mode == "vmap-registered") {
        return vmap_experiment(true, threads, iters);
    }
    if (mode == "vmap-unregistered") {
        return vmap_experiment(false, threads, iters);
    }
    g_selftest = mode == "selftest";

    update<c16::rel_policy>();
    update<c16::dbg_policy>();
    update<c16::nohash_policy>();
    update<c16::vmap_policy>();
    update<c16::ind_policy>();
    update<c16::thr_policy>();
    update<c16::foreign_policy>();

    world w;
    if (mode == "cold") {
        // The FIRST use of every route happens in the threads, unsynchronised: nothing has been called, no virtual_ptr has
        // been made, before they start (a lazily initialised flag, cache or table written by a first use shows up here and
        // nowhere else). Every thread keeps the answers of its first pass; the sequential table is computed afterwards and
        // every thread's first pass is compared with it.
        std::atomic<int> go{0};
        std::vector<std::vector<answers>> first(threads, std::vector<answers>(n_shapes));
        std::atomic<long> unstable{0};
        std::vector<std::thread> cold;
        for (int t = 0; t < threads; ++t) {
            cold.emplace_back([&, t] {
                prng rng{(std::uint64_t)seed * 0x9E3779B97F4A7C15ULL + t + 1};
                int order[n_shapes] = {0, 1, 2, 3, 4, 5};
                for (int k = n_shapes - 1; k > 0; --k) {
                    std::swap(order[k], order[rng.next() % (k + 1)]);
                }
                while (!go.load()) {
                }
                for (int sh : order) {
                    run_shape(sh, w, first[t][sh]);
                }
                answers again;
                for (int it = 1; it < iters; ++it) {
                    for (int sh : order) {
                        run_shape(sh, w, again);
                        if (again != first[t][sh]) {
                            ++unstable;
                        }
                    }
                }
            });
        }
        go = 1;
        for (auto& t : cold) {
            t.join();
        }
        long bad = unstable.load();
        std::size_t per = 0;
        for (int sh = 0; sh < n_shapes; ++sh) {
            answers seq;
            run_shape(sh, w, seq);
            per += seq.size();
            for (int t = 0; t < threads; ++t) {
                if (first[t][sh] != seq) {
                    ++bad;
                }
            }
        }
        if (bad == 0) {
            std::printf("RESULT ok threads=%d iters=%d seed=%d answers_per_iteration=%zu comparisons=%zu\n", threads, iters,
                        seed, per, per * (std::size_t)threads * (std::size_t)iters);
        } else {
            std::printf("RESULT mismatch threads=%d iters=%d bad_iterations=%ld first_bad_answer(shape*100000+index)=-1 foreign_bad=0\n",
                        threads, iters, bad);
        }
        return 0;
    }
    answers table[n_shapes];
    std::size_t per_iteration = 0;
    for (int sh = 0; sh < n_shapes; ++sh) {
        run_shape(sh, w, table[sh]);
        per_iteration += table[sh].size();
        // the table must be reproducible single-threaded before anything else
        answers again;
        run_shape(sh, w, again);
        if (again != table[sh]) {
            std::printf("RESULT mismatch sequential-table-not-reproducible\n");
            return 0;
        }
    }
    c16::Dog fd;
    c16::Cat fc;
    const int foreign_expected = c16_foreign_call(&fd, &fc);

    std::atomic<int> go{0}, done{0};
    std::atomic<long> mismatches{0}, first_bad{-1}, foreign_bad{0},
        foreign_updates{0};
    std::vector<std::thread> ts;
    for (int t = 0; t < threads; ++t) {
        ts.emplace_back([&, t] {
            answers mine;
            prng rng{(std::uint64_t)seed * 0x9E3779B97F4A7C15ULL + t + 1};
            while (!go.load()) {
            }
            for (int it = 0; it < iters; ++it) {
                int order[n_shapes] = {0, 1, 2, 3, 4, 5};
                for (int k = n_shapes - 1; k > 0; --k) {
                    std::swap(order[k], order[rng.next() % (k + 1)]);
                }
                for (int sh : order) {
                    if (rng.next() % 64 == 0) {
                        std::this_thread::yield();
                    }
                    run_shape(sh, w, mine);
                    if (mine != table[sh]) {
                        ++mismatches;
                        for (std::size_t k = 0;
                             k < mine.size() && k < table[sh].size(); ++k) {
                            if (mine[k] != table[sh][k]) {
                                long exp = -1;
                                first_bad.compare_exchange_strong(
                                    exp, (long)(sh * 100000 + k));
                                break;
                            }
                        }
                    }
                }
            }
            ++done;
        });
    }
    std::thread updater;
    if (foreign) {
        updater = std::thread([&] {
            while (!go.load()) {
            }
            // at least a few updates even if the workers are already done
            while (done.load() < threads || foreign_updates.load() < 3) {
                update<c16::foreign_policy>();
                ++foreign_updates;
                if (c16_foreign_call(&fd, &fc) != foreign_expected) {
                    ++foreign_bad;
                }
            }
        });
    }
    go = 1;
    for (auto& t : ts) {
        t.join();
    }
    if (foreign) {
        updater.join();
    }
    std::fprintf(
        stderr, "c16: foreign updates while running: %ld, injected counter %ld\n",
        foreign_updates.load(), c16_injected_counter);
    if (mismatches.load() == 0 && foreign_bad.load() == 0) {
        std::printf(
            "RESULT ok threads=%d iters=%d seed=%d answers_per_iteration=%zu "
            "comparisons=%zu\n",
            threads, iters, seed, per_iteration,
            per_iteration * (std::size_t)threads * (std::size_t)iters);
    } else {
        std::printf(
            "RESULT mismatch threads=%d iters=%d bad_iterations=%ld "
            "first_bad_answer(shape*100000+index)=%ld foreign_bad=%ld\n",
            threads, iters, mismatches.load(), first_bad.load(),
            foreign_bad.load());
    }
    return 0;
}
