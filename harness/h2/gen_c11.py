#!/usr/bin/env python3
"""Scenario and program generator for property C11 (harness H2).

A *scenario* (plain JSON-able dict) describes one C++17 program:
    classes   [{id, bases: [[base, virtual01], ...], pad}]   in declaration order
    methods   [{id, route: 'macro'|'fn', ret, params: [{v:1, kind, cls} | {v:0, cat}], defs: [{id, classes:[D..]}]}]
    objects   [{name, cls}]                                    complete objects (make_shared)
    calls     [{id, method, def, args: [{obj, path, witness, expr} | {value, expr}], ret_value}]
    flags     {sanitize, ndebug, registration: 'macro'|'template'}

emit_cpp(scn)         -> program text (public front-end of yomm2 only, plus detail::requires_dynamic_cast
                         to observe the cast choice)
emit_model_input(scn) -> line format for ocaml/thunk_driver.ml
expectations(scn)     -> what the PROPERTY demands per call, computed here in Python independently of the
                         Coq model (own subobject enumeration by full inheritance paths)

Everything random derives from the vlib.Rng handed in.
"""
import json

KINDS = ['ref', 'rref', 'ptr', 'shared', 'cshared', 'vptr', 'vsptr', 'cvsptr']     # indexes = Thunk.kind_of_nat
# 'cvptr' (const virtual_ptr<T>&) can only be DECLARED: no definition taking it compiles (virtual_ptr::cast names
# Other::element_type on a reference); it appears in the error scenarios of C02 only
DECL_ONLY_KINDS = ['cvptr']
CATS = ['val', 'lref', 'rref', 'moveonly']
EXPRS = ['prvalue', 'xvalue', 'lvalue']
RKINDS = ['void', 'int', 'val', 'lref', 'moveonly']
SMART = ('shared', 'cshared', 'vsptr', 'cvsptr')

# --------------------------------------------------------------------------- hierarchies

SHAPES = {
    # name: list of (id, [(base, virtual)])
    'single': [(0, []), (1, [(0, 0)]), (2, [(1, 0)]), (3, [(2, 0)])],
    'second_base': [(0, []), (1, []), (2, [(1, 0), (0, 0)]), (3, [(2, 0)])],
    'virtual_base': [(0, []), (1, [(0, 1)]), (2, [(1, 0)])],
    'diamond': [(0, []), (1, [(0, 1)]), (2, [(0, 1)]), (3, [(1, 0), (2, 0)]), (4, [(3, 0)])],
    'levels': [(0, []), (1, []), (2, [(1, 0), (0, 0)]), (3, [(2, 0)]), (4, []), (5, [(4, 0), (3, 0)])],
    'virtual_second': [(0, []), (1, []), (2, [(1, 0), (0, 1)]), (3, []), (4, [(3, 0), (2, 0)])],
    'diamond_offset': [(0, []), (1, []), (2, [(1, 1), (0, 1)]), (3, [(0, 1)]), (4, [(2, 0), (3, 0)]), (5, [(1, 1), (4, 0)])],
    # outside the quantifier's list of shapes, covered by the theorem (D unambiguous, caller's subobject inside it)
    'repeated': [(0, []), (1, [(0, 0)]), (2, [(0, 0)]), (3, [(1, 0), (2, 0)])],
    'mixed_virtual': [(0, []), (1, [(0, 1)]), (2, [(0, 0)]), (3, [(1, 0), (2, 0)])],
}
QUICK_SHAPES = ['single', 'second_base', 'virtual_base', 'diamond', 'levels', 'virtual_second', 'diamond_offset', 'repeated']


def hier_of(classes):
    return {c['id']: [(b, bool(v)) for b, v in c['bases']] for c in classes}


def full_paths(H, X):
    """all inheritance paths starting at X: list of lists of (class, reached_through_virtual_edge)"""
    out = [[(X, False)]]
    for b, v in H[X]:
        for p in full_paths(H, b):
            out.append([(X, False), (b, v)] + p[1:])
    return out


def canon(fp):
    """Rossie-Friedman canonical form of a full path: cut before the target of the last virtual edge"""
    last = 0
    for i, (c, v) in enumerate(fp):
        if v:
            last = i
    return tuple(c for c, v in fp[last:])


def subobjects(H, C):
    """dict canonical path -> one witness full path (tuple of classes from C)"""
    out = {}
    for fp in full_paths(H, C):
        k = canon(fp)
        w = tuple(c for c, v in fp)
        if k not in out or (len(w), w) < (len(out[k]), out[k]):
            out[k] = w
    return out


def flags_of(H, w):
    """witness class path -> [(class, virtual edge?)]"""
    fp = [(w[0], False)]
    for a, b in zip(w, w[1:]):
        fp.append((b, dict(H[a])[b]))
    return fp


def base_subobjects(H, C, d):
    """canonical subobjects of C that are d or a base-class subobject of d (d canonical, in C)"""
    wd = subobjects(H, C)[d]
    fd = flags_of(H, wd)
    res = set()
    for ext in full_paths(H, d[-1]):
        res.add(canon(fd + ext[1:]))
    return res


def is_base(H, B, D):
    return any(p[-1][0] == B for p in full_paths(H, D))


def count_sub(H, C, X):
    return sum(1 for k in subobjects(H, C) if k[-1] == X)


def virtual_bases(H, D):
    vs = set()
    for fp in full_paths(H, D):
        for c, v in fp:
            if v:
                vs.add(c)
    return vs


def static_cast_ok(H, B, D):
    """[expr.static.cast]/2 by its wording"""
    if B == D:
        return True
    if not is_base(H, B, D) or count_sub(H, D, B) != 1:
        return False
    vb = virtual_bases(H, D)
    if B in vb:
        return False
    if any(is_base(H, B, V) for V in vb):
        return False
    return True


def legal_hierarchy(H):
    """every direct-base conversion is unambiguous (g++: 'direct base inaccessible due to ambiguity' otherwise)"""
    for X, bs in H.items():
        if len(set(b for b, v in bs)) != len(bs):
            return False
        for b, v in bs:
            if count_sub(H, X, b) != 1:
                return False
    return True


def relation_label(H, B, D):
    if B == D:
        return 'same'
    if not static_cast_ok(H, B, D):
        return 'virtual' if count_sub(H, D, B) == 1 else 'ambiguous-dynamic'
    q = [k for k in subobjects(H, D) if k[-1] == B][0]
    first = all(H[a][0][0] == b for a, b in zip(q, q[1:]))
    lab = 'first-base' if first else 'offset-base'
    if len(q) > 2:
        lab += '-levels'
    return lab


for _n, _cl in SHAPES.items():
    assert legal_hierarchy({i: [(b, bool(v)) for b, v in bs] for i, bs in _cl}), _n


def random_hierarchy(rng, n):
    for _ in range(200):
        cl = []
        for i in range(n):
            bs = []
            if i > 0:
                k = rng.choice([0, 1, 1, 1, 2, 2, 3]) if i > 1 else rng.choice([0, 1, 1])
                for b in rng.sample(list(range(i)), min(k, i)):
                    bs.append((b, 1 if rng.chance(1, 3) else 0))
            cl.append((i, bs))
        H = {i: [(b, bool(v)) for b, v in bs] for i, bs in cl}
        if legal_hierarchy(H) and any(len(bs) >= 2 for _, bs in cl):
            return cl
    return SHAPES['diamond']


# --------------------------------------------------------------------------- scenarios

PATTERNS = ['V', 'VN', 'NV', 'NVN', 'VNN', 'NNV', 'VV', 'VNV', 'NVV', 'VVN', 'VVV']


def position_label(pat, i):
    if len(pat) == 1:
        return 'only'
    return 'first' if i == 0 else ('last' if i == len(pat) - 1 else 'middle')


def descendants(H, B):
    return [X for X in sorted(H) if is_base(H, B, X)]


def make_scenario(rng, name, shape, classes, nmethods=18, moveonly=True, sanitize=False, ndebug=False,
                  registration='macro', kinds=None):
    H = {i: [(b, bool(v)) for b, v in bs] for i, bs in classes}
    scn = {
        'name': name, 'shape': shape,
        'classes': [{'id': i, 'bases': [[b, int(v)] for b, v in bs], 'pad': rng.choice([0, 8, 24, 40])} for i, bs in classes],
        'flags': {'sanitize': bool(sanitize), 'ndebug': bool(ndebug), 'registration': registration},
        'methods': [], 'objects': [], 'calls': [],
    }
    objs = {}

    def obj_for(C, slot):
        # one complete object per (class, virtual position): two smart pointers of one call never share a control block
        if (C, slot) not in objs:
            objs[(C, slot)] = 'o%d' % len(objs)
            scn['objects'].append({'name': objs[(C, slot)], 'cls': C})
        return objs[(C, slot)]

    kinds = kinds or KINDS
    roots = [B for B in sorted(H) if len(descendants(H, B)) >= 2]
    pats = list(PATTERNS)
    poff = rng.below(len(pats))
    callid = 0
    cats_cycle = [c for c in CATS if moveonly or c != 'moveonly']
    ci = rng.below(len(cats_cycle))
    for mi in range(nmethods):
        kind0 = kinds[mi % len(kinds)]
        pat = pats[(mi * 4 + poff) % len(pats)]
        route = 'macro' if (mi + rng.below(2)) % 2 == 0 else 'fn'
        params = []
        nv = 0
        for ch in pat:
            if ch == 'V':
                k = kind0 if nv == 0 else rng.choice(kinds)
                B = rng.choice(roots)
                params.append({'v': 1, 'kind': k, 'cls': B})
                nv += 1
            else:
                params.append({'v': 0, 'cat': cats_cycle[ci % len(cats_cycle)]})
                ci += 1
        ret = RKINDS[(mi + rng.below(len(RKINDS))) % len(RKINDS)]
        if ret == 'moveonly' and not moveonly:
            ret = 'val'
        m = {'id': mi, 'route': route, 'ret': ret, 'params': params, 'defs': []}
        vparams = [p for p in params if p['v']]
        # candidate calls: complete classes, definition classes, caller's subobjects
        wanted = []
        for _ in range(rng.range(3, 5)):
            tup = []
            ok = True
            for p in vparams:
                B = p['cls']
                desc = descendants(H, B)
                C = rng.choice([x for x in desc if x != B] or desc) if rng.chance(7, 8) else rng.choice(desc)
                subsC = subobjects(H, C)
                # with the macros a definition is matched to its method by overload resolution: the conversion D& -> B&
                # must exist, i.e. B unambiguous in D; the template form has no such step
                Ds = [D for D in sorted(H) if is_base(H, B, D) and is_base(H, D, C) and count_sub(H, C, D) == 1
                      and (route == 'fn' or count_sub(H, D, B) == 1)]
                if not Ds:
                    ok = False
                    break
                # prefer proper derived classes: that is where an adjustment happens
                D = rng.choice([d for d in Ds if d != B] or Ds) if rng.chance(5, 6) else rng.choice(Ds)
                d = [k for k in subsC if k[-1] == D][0]
                inside = sorted(s for s in base_subobjects(H, C, d) if s[-1] == B)
                if not inside:
                    ok = False
                    break
                s = rng.choice(inside)
                tup.append((C, D, s))
            if ok:
                wanted.append(tup)
        dtuples = []
        for tup in wanted:
            dt = tuple(D for C, D, s in tup)
            if dt not in dtuples and len(dtuples) < 3:
                dtuples.append(dt)
        for di, dt in enumerate(dtuples):
            m['defs'].append({'id': di, 'classes': list(dt)})

        def best(Cs):
            app = [d for d in m['defs'] if all(is_base(H, Dd, C) for Dd, C in zip(d['classes'], Cs))]
            bests = [d for d in app if all(all(is_base(H, o, mine) for mine, o in zip(d['classes'], e['classes'])) for e in app)]
            return bests[0] if len(bests) == 1 else None

        for tup in wanted:
            Cs = [C for C, D, s in tup]
            b = best(Cs)
            if b is None:
                continue
            # the definition that runs decides D; the caller's subobject must lie inside its D subobject
            args = []
            vi = 0
            ok = True
            for pi, p in enumerate(params):
                if p['v']:
                    C, _, s = tup[vi]
                    D = b['classes'][vi]
                    subsC = subobjects(H, C)
                    if count_sub(H, C, D) != 1:
                        ok = False
                        break
                    d = [k for k in subsC if k[-1] == D][0]
                    if tuple(s) not in base_subobjects(H, C, d):
                        ok = False
                        break
                    if p['kind'] in ('shared', 'vsptr'):
                        e = rng.choice(['lvalue', 'xvalue'])
                    else:
                        e = 'lvalue'
                    if p['kind'] in SMART:
                        # a fresh complete object per call: the definition keeps a copy of the pointer it receives, the
                        # caller drops its own, the object must stay alive exactly as long as the kept copy
                        args.append({'obj': 'f%d' % pi, 'fresh': 1, 'cls': C, 'path': list(s), 'witness': list(subsC[tuple(s)]), 'expr': e})
                    else:
                        args.append({'obj': obj_for(C, vi), 'cls': C, 'path': list(s), 'witness': list(subsC[tuple(s)]), 'expr': e})
                    vi += 1
                else:
                    cat = p['cat']
                    if cat == 'val':
                        e = rng.choice(['prvalue', 'prvalue', 'xvalue', 'lvalue'])
                    elif cat == 'moveonly':
                        e = rng.choice(['prvalue', 'xvalue'])
                    elif cat == 'lref':
                        e = 'lvalue'
                    else:
                        e = 'xvalue'
                    args.append({'value': 100000 + callid * 10 + pi, 'expr': e})
            if not ok:
                continue
            scn['calls'].append({'id': callid, 'method': mi, 'def': b['id'], 'args': args, 'ret_value': 500000 + callid})
            callid += 1
        if m['defs']:
            scn['methods'].append(m)
        else:
            scn['methods'].append(m)  # keep ids dense; a method without definitions is declared and never called
    return scn


def manual_scenario(name, shape, classes, methods, calls, sanitize=True, ndebug=False, registration='macro', pads=None):
    """hand-written scenarios (corpus): methods = [{route, ret, params, defs:[[D..]..]}], calls = [(method, [arg..], )]
    where a virtual arg is (C, path, expr) and a non-virtual one (value, expr); the definition that must run is computed"""
    H = {i: [(b, bool(v)) for b, v in bs] for i, bs in classes}
    scn = {'name': name, 'shape': shape,
           'classes': [{'id': i, 'bases': [[b, int(v)] for b, v in bs], 'pad': (pads or {}).get(i, 8 * (i % 3))} for i, bs in classes],
           'flags': {'sanitize': bool(sanitize), 'ndebug': bool(ndebug), 'registration': registration},
           'methods': [], 'objects': [], 'calls': []}
    for mi, m in enumerate(methods):
        scn['methods'].append({'id': mi, 'route': m['route'], 'ret': m['ret'], 'params': m['params'],
                               'defs': [{'id': di, 'classes': list(dc)} for di, dc in enumerate(m['defs'])]})
    objs = {}
    for cid, (mi, args) in enumerate(calls):
        m = scn['methods'][mi]
        Cs = [a[0] for p, a in zip(m['params'], args) if p['v']]
        app = [d for d in m['defs'] if all(is_base(H, Dd, C) for Dd, C in zip(d['classes'], Cs))]
        bests = [d for d in app if all(all(is_base(H, o, mine) for mine, o in zip(d['classes'], e['classes'])) for e in app)]
        assert len(bests) == 1, (name, cid)
        out, vi = [], 0
        for pi, (p, a) in enumerate(zip(m['params'], args)):
            if p['v']:
                C, path, e = a
                if p['kind'] in SMART:
                    out.append({'obj': 'f%d' % pi, 'fresh': 1, 'cls': C, 'path': list(path),
                                'witness': list(subobjects(H, C)[tuple(path)]), 'expr': e})
                else:
                    if (C, vi) not in objs:
                        objs[(C, vi)] = 'o%d' % len(objs)
                        scn['objects'].append({'name': objs[(C, vi)], 'cls': C})
                    out.append({'obj': objs[(C, vi)], 'cls': C, 'path': list(path), 'witness': list(subobjects(H, C)[tuple(path)]), 'expr': e})
                vi += 1
            else:
                out.append({'value': a[0], 'expr': a[1]})
        scn['calls'].append({'id': cid, 'method': mi, 'def': bests[0]['id'], 'args': out, 'ret_value': 500000 + cid})
    return scn


# --------------------------------------------------------------------------- expectations (oracle side)

def expectations(scn):
    """per call: what the property demands, from Python's own subobject computation"""
    H = hier_of(scn['classes'])
    meth = {m['id']: m for m in scn['methods']}
    out = {}
    for c in scn['calls']:
        m = meth[c['method']]
        d = [x for x in m['defs'] if x['id'] == c['def']][0]
        vi = 0
        vs, ns = {}, {}
        for pi, (p, a) in enumerate(zip(m['params'], c['args'])):
            if p['v']:
                D = d['classes'][vi]
                C = a['cls']
                cands = [k for k in subobjects(H, C) if k[-1] == D and tuple(a['path']) in base_subobjects(H, C, k)]
                vs[pi] = {
                    'kind': p['kind'], 'obj': a['obj'], 'B': p['cls'], 'D': D, 'C': C,
                    'path': '.'.join(map(str, cands[0])) if len(cands) == 1 else None,
                    'smart': p['kind'] in SMART, 'keep': bool(a.get('fresh')),
                    'nsub': len(subobjects(H, C)),
                    'back_defined': count_sub(H, D, p['cls']) == 1,
                    'relation': relation_label(H, p['cls'], D),
                    'position': position_label(m['params'], pi),
                }
                vi += 1
            else:
                byval = p['cat'] in ('val', 'moveonly')
                ns[pi] = {
                    'cat': p['cat'], 'value': a['value'], 'expr': a['expr'], 'by_value': byval,
                    'allowed_copies': 1 if (byval and a['expr'] == 'lvalue') else 0,
                    'intrinsic_moves': 1 if (byval and a['expr'] == 'xvalue') else 0,
                    'position': position_label(m['params'], pi),
                }
        out[c['id']] = {'method': m['id'], 'route': m['route'], 'def': 'm%d_d%d' % (m['id'], d['id']), 'v': vs, 'n': ns,
                        'ret': m['ret'], 'ret_value': c['ret_value']}
    return out


# --------------------------------------------------------------------------- model input

def emit_model_input(scn):
    L = []
    for c in scn['classes']:
        L.append('class %d %d %s' % (c['id'], len(c['bases']), ' '.join('%d %d' % (b, v) for b, v in c['bases'])))
    for o in scn['objects']:
        L.append('object %s %d' % (o['name'], o['cls']))
    meth = {m['id']: m for m in scn['methods']}
    for c in scn['calls']:
        m = meth[c['method']]
        d = [x for x in m['defs'] if x['id'] == c['def']][0]
        L.append('call %d %d %d m%d_d%d' % (c['id'], m['id'], 1 if m['route'] == 'macro' else 0, m['id'], d['id']))
        vi = 0
        for pi, (p, a) in enumerate(zip(m['params'], c['args'])):
            if p['v']:
                L.append('varg %d %d %s %d %d %d %d %s' % (pi, KINDS.index(p['kind']), a['obj'], a['cls'], d['classes'][vi],
                                                          EXPRS.index(a['expr']), len(a['path']), ' '.join(map(str, a['path']))))
                if a.get('fresh'):
                    L.append('keep %d' % pi)
                vi += 1
            else:
                L.append('narg %d %d %d %d' % (pi, CATS.index(p['cat']), EXPRS.index(a['expr']), a['value']))
        L.append('ret %d %d' % (RKINDS.index(m['ret']), c['ret_value']))
        L.append('endcall')
    return '\n'.join(L) + '\n'


# --------------------------------------------------------------------------- C++

PRELUDE = r'''// GENERATED by /verif/harness/h2/gen_c11.py -- scenario %(name)s
#include <yorel/yomm2/keywords.hpp>
#include <cstdio>
#include <map>
#include <memory>
#include <string>
#include <type_traits>
#include <typeinfo>
#include <utility>
#include <vector>

using yorel::yomm2::virtual_;
%(policy)s

struct Cnt { long cc = 0, mc = 0, as = 0; };
static Cnt g_cnt;
struct Tracked {
    long v; int copies = 0, moves = 0;
    explicit Tracked(long v) : v(v) {}
    Tracked(const Tracked& o) : v(o.v), copies(o.copies + 1), moves(o.moves) { ++g_cnt.cc; }
    Tracked(Tracked&& o) noexcept : v(o.v), copies(o.copies), moves(o.moves + 1) { o.v = -1; ++g_cnt.mc; }
    Tracked& operator=(const Tracked& o) { v = o.v; copies = o.copies + 1; moves = o.moves; ++g_cnt.as; return *this; }
    Tracked& operator=(Tracked&& o) noexcept { v = o.v; copies = o.copies; moves = o.moves + 1; o.v = -1; ++g_cnt.as; return *this; }
};
struct MoveOnly {
    long v; int moves = 0;
    explicit MoveOnly(long v) : v(v) {}
    MoveOnly(const MoveOnly&) = delete;
    MoveOnly& operator=(const MoveOnly&) = delete;
    MoveOnly(MoveOnly&& o) noexcept : v(o.v), moves(o.moves + 1) { o.v = -1; ++g_cnt.mc; }
    MoveOnly& operator=(MoveOnly&& o) noexcept { v = o.v; moves = o.moves + 1; o.v = -1; ++g_cnt.as; return *this; }
};

// subobject registry: (address, class) -> (object, canonical path); filled through chains of implicit
// derived-to-base conversions written out in this file, i.e. by the language, not by the library
static std::map<std::pair<const void*, int>, std::pair<std::string, std::string>> g_sub;
static std::vector<std::pair<const void*, int>> g_ctor;   // every constructor logs (this, class)
static long g_live;                                        // constructors run minus destructors run, all classes
static void reg(const char* obj, const char* path, int cls, const void* p) { g_sub[{p, cls}] = {obj, path}; }
static void unreg(const char* obj) {
    for (auto it = g_sub.begin(); it != g_sub.end();) { if (it->second.first == obj) it = g_sub.erase(it); else ++it; }
}
static void obj_report(const char* obj, int cls, int nsub) {
    int found = 0;
    for (auto& e : g_ctor) { auto it = g_sub.find(e); if (it != g_sub.end() && it->second.first == obj) ++found; }
    std::printf("O %%s cls=%%d nsub=%%d ctor=%%d ok=%%d\n", obj, cls, nsub, (int)g_ctor.size(),
                (int)(found == nsub && (int)g_ctor.size() == nsub));
}

// per call context written by the caller, read by the definition
static const void* g_arg[8];      // address of the object passed for each parameter (as the method's class / as Tracked)
static long g_uc[8];              // use_count at the call site just before the call
static std::weak_ptr<const void> g_owner[8];
static std::shared_ptr<const void> g_kept[8];   // the definition keeps a copy of every smart pointer it receives
static long g_ret_value;
static Tracked g_ret_obj(0);

template<class B, class D, class = void> struct can_static : std::false_type {};
template<class B, class D> struct can_static<B, D, std::void_t<decltype(static_cast<D>(std::declval<B>()))>> : std::true_type {};

static void def_begin(const char* name) { std::printf("D %%s\n", name); }
static void varg(int pos, const char* kind, int cls, const void* addr, bool lib_dyn, bool lang_static, int back, long uc, int own) {
    auto it = g_sub.find({addr, cls});
    char ucs[24]; if (uc == -999) std::snprintf(ucs, sizeof ucs, "-"); else std::snprintf(ucs, sizeof ucs, "%%ld", uc);
    std::printf("V %%d k=%%s obj=%%s path=%%s lib=%%s lang=%%s back=%%s uc=%%s own=%%s\n", pos, kind,
                it == g_sub.end() ? "?" : it->second.first.c_str(), it == g_sub.end() ? "?" : it->second.second.c_str(),
                lib_dyn ? "D" : "S", lang_static ? "S" : "D", back < 0 ? "-" : (back ? "1" : "0"), ucs,
                own < 0 ? "-" : (own ? "1" : "0"));
}
template<class P> static int same_owner(const P& p, int pos) {
    return !p.owner_before(g_owner[pos]) && !g_owner[pos].owner_before(p);
}
static void narg_t(int pos, const char* cat, const Tracked& t, bool ref) {
    std::printf("N %%d c=%%s val=%%ld cp=%%d mv=%%d same=%%s\n", pos, cat, t.v, t.copies, t.moves,
                ref ? (static_cast<const void*>(&t) == g_arg[pos] ? "1" : "0") : "-");
}
static void narg_m(int pos, const MoveOnly& t) {
    std::printf("N %%d c=moveonly val=%%ld cp=0 mv=%%d same=-\n", pos, t.v, t.moves);
}
static void totals(const char* tag) { std::printf("%%s cp=%%ld mv=%%ld as=%%ld\n", tag, g_cnt.cc, g_cnt.mc, g_cnt.as); }
// after the caller dropped its own pointers: is the object the definition kept a pointer to still alive?
// (weak_ptr::expired and the constructor/destructor balance; the kept pointer is never dereferenced)
static void keep_report(int pos) { std::printf("K %%d kept=%%d\n", pos, (int)!g_owner[pos].expired()); }
'''

POLICY_DEFAULT = '''template<class T> using VP = yorel::yomm2::virtual_ptr<T>;
template<class T> using VSP = yorel::yomm2::virtual_shared_ptr<T>;'''
POLICY_THROW = '''using POL = yorel::yomm2::default_policy::replace<yorel::yomm2::policy::error_handler, yorel::yomm2::policy::throw_error>;
template<class T> using VP = yorel::yomm2::virtual_ptr<T, POL>;
template<class T> using VSP = yorel::yomm2::virtual_shared_ptr<T, POL>;'''

ERR_PRELUDE = r'''
struct TypeName { const std::type_info* ti; const char* name; };
static const TypeName g_types[] = { %(table)s };
static const char* class_of(yorel::yomm2::type_id id) {
    for (auto& t : g_types) if (reinterpret_cast<yorel::yomm2::type_id>(t.ti) == id) return t.name;
    return "?";
}
static void print_err(const yorel::yomm2::resolution_error& e) {
    std::printf("ERR status=%%d arity=%%d types=", (int)e.status, (int)e.arity);
    for (std::size_t i = 0; i < e.arity && i < yorel::yomm2::resolution_error::max_types; ++i)
        std::printf("%%s%%s", i ? "," : "", class_of(e.types[i]));
    std::printf("\n");
}
'''


def cname(i):
    return 'K%d' % i


def chain(expr_ptr, witness):
    """pointer expression following the witness path by direct derived-to-base conversions"""
    e = expr_ptr
    for x in witness[1:]:
        e = 'static_cast<%s*>(%s)' % (cname(x), e)
    return e


def sp_chain(var, witness):
    e = var
    for x in witness[1:]:
        e = 'std::shared_ptr<%s>(%s)' % (cname(x), e)
    return e


# const_pointee scenarios: every virtual parameter, argument and definition parameter designates a const-qualified class
# (virtual_<const T&>, virtual_ptr<const T>, shared_ptr<const T> ...); cv-qualification must be transparent to the library
_Q = ['']


def qname(c):
    return _Q[0] + cname(c)


def method_param_type(p):
    if not p['v']:
        return {'val': 'Tracked', 'lref': 'Tracked&', 'rref': 'Tracked&&', 'moveonly': 'MoveOnly'}[p['cat']]
    B = qname(p['cls'])
    return {'ref': 'virtual_<%s&>', 'rref': 'virtual_<%s&&>', 'ptr': 'virtual_<%s*>', 'shared': 'virtual_<std::shared_ptr<%s>>',
            'cshared': 'virtual_<const std::shared_ptr<%s>&>', 'vptr': 'VP<%s>', 'vsptr': 'VSP<%s>', 'cvsptr': 'const VSP<%s>&',
            'cvptr': 'const VP<%s>&'}[p['kind']] % B


def def_param_type(p, D):
    if not p['v']:
        return method_param_type(p)
    return {'ref': '%s&', 'rref': '%s&&', 'ptr': '%s*', 'shared': 'std::shared_ptr<%s>', 'cshared': 'const std::shared_ptr<%s>&',
            'vptr': 'VP<%s>', 'vsptr': 'VSP<%s>', 'cvsptr': 'const VSP<%s>&'}[p['kind']] % qname(D)


RET_TYPE = {'void': 'void', 'int': 'long', 'val': 'Tracked', 'lref': 'Tracked&', 'moveonly': 'MoveOnly'}


def emit_args(w, H, m, args, indent='    '):
    """statements that build the arguments of one call; returns (argument expressions, statements to run just before the call)"""
    exprs, late = [], []
    for pi, (p, a) in enumerate(zip(m['params'], args)):
        if p['v']:
            B = qname(p['cls'])
            k = p['kind']
            if a.get('fresh'):
                o = a['obj']
                w(indent + 'std::shared_ptr<%s> %s = std::make_shared<%s>();' % (cname(a['cls']), o, cname(a['cls'])))
                w(indent + 'register_%s("%s", %s.get());' % (cname(a['cls']), o, o))
            else:
                o = 'g_' + a['obj']
            w(indent + '%s* p%d = %s;' % (B, pi, chain('%s.get()' % o, a['witness'])))
            w(indent + 'g_arg[%d] = static_cast<const void*>(p%d);' % (pi, pi))
            if k == 'ref':
                exprs.append('*p%d' % pi)
            elif k == 'rref':
                exprs.append('std::move(*p%d)' % pi)
            elif k == 'ptr':
                exprs.append('p%d' % pi)
            elif k in ('vptr', 'cvptr'):
                w(indent + 'VP<%s> v%d(*p%d);' % (B, pi, pi))
                exprs.append('v%d' % pi)
            else:
                w(indent + 'std::shared_ptr<%s> s%d = %s;' % (B, pi, sp_chain(o, a['witness'])))
                w(indent + 'g_owner[%d] = s%d;' % (pi, pi))
                if k in ('vsptr', 'cvsptr'):
                    w(indent + 'VSP<%s> v%d(s%d);' % (B, pi, pi))
                    var = 'v%d' % pi
                else:
                    var = 's%d' % pi
                exprs.append('std::move(%s)' % var if a['expr'] == 'xvalue' else var)
                late.append(indent + 'g_uc[%d] = s%d.use_count();' % (pi, pi))
        else:
            T = 'MoveOnly' if p['cat'] == 'moveonly' else 'Tracked'
            if a['expr'] == 'prvalue':
                exprs.append('%s(%d)' % (T, a['value']))
            else:
                w(indent + '%s x%d(%d);' % (T, pi, a['value']))
                w(indent + 'g_arg[%d] = static_cast<const void*>(&x%d);' % (pi, pi))
                exprs.append('std::move(x%d)' % pi if a['expr'] == 'xvalue' else 'x%d' % pi)
    return exprs, late


def emit_cpp(scn):
    _Q[0] = 'const ' if scn['flags'].get('const_pointee') else ''
    H = hier_of(scn['classes'])
    pol = scn['flags'].get('policy', 'default')
    POL = ', POL' if pol == 'throw' else ''
    out = [PRELUDE % {'name': scn['name'], 'policy': POLICY_THROW if pol == 'throw' else POLICY_DEFAULT}]
    w = out.append
    for c in scn['classes']:
        bs = ', '.join(('virtual ' if v else '') + cname(b) for b, v in c['bases'])
        pad = ' char pad%d[%d] = {};' % (c['id'], c['pad']) if c['pad'] else ''
        w('struct %s%s { long m%d = %d;%s %s() { g_ctor.push_back({static_cast<const void*>(this), %d}); ++g_live; } virtual ~%s() { --g_live; } };'
          % (cname(c['id']), (' : ' + bs) if bs else '', c['id'], c['id'], pad, cname(c['id']), c['id'], cname(c['id'])))
    allc = ', '.join(cname(c['id']) for c in scn['classes'])
    if scn['flags']['registration'] == 'macro':
        w('register_classes(%s%s);' % (allc, POL))
    else:
        w('static yorel::yomm2::use_classes<%s%s> g_use_classes;' % (allc, POL))
    if scn.get('error_calls'):
        w(ERR_PRELUDE % {'table': ', '.join('{&typeid(%s), "%s"}' % (cname(c['id']), cname(c['id'])) for c in scn['classes'])})
    w('')
    # methods and definitions
    for m in scn['methods']:
        mid = m['id']
        R = RET_TYPE[m['ret']]
        ptypes = ', '.join(method_param_type(p) for p in m['params'])
        if m['route'] == 'macro':
            w('declare_method(%s, m%d, (%s)%s);' % (R, mid, ptypes, POL))
        else:
            w('struct m%d_key; using m%d = yorel::yomm2::method<m%d_key, %s(%s)%s>;' % (mid, mid, mid, R, ptypes, POL))
            if not m['defs']:
                w('static auto& m%d_instance = m%d::fn;   // make sure the method object exists' % (mid, mid))
        for d in m['defs']:
            dn = 'm%d_d%d' % (mid, d['id'])
            vi = 0
            dps, body = [], ['    def_begin("%s");' % dn]
            for pi, p in enumerate(m['params']):
                if p['v']:
                    D = d['classes'][vi]
                    vi += 1
                    dps.append('%s a%d' % (def_param_type(p, D), pi))
                    k = p['kind']
                    Bn, Dn = qname(p['cls']), qname(D)
                    # every observation is taken in its own statement: virtual_ptr::get() returns the smart pointer
                    # BY VALUE, so a temporary owner exists while we look (hence the "- 1")
                    if k in ('ref', 'rref'):
                        pre = '%s* pd = &a%d; long uc = -999; int own = -1;' % (Dn, pi)
                    elif k == 'ptr':
                        pre = '%s* pd = a%d; long uc = -999; int own = -1;' % (Dn, pi)
                    elif k == 'vptr':
                        pre = '%s* pd = a%d.get(); long uc = -999; int own = -1;' % (Dn, pi)
                    elif k in ('shared', 'cshared'):
                        pre = ('%s* pd = a%d.get(); long uc = a%d.use_count() - g_uc[%d]; int own = same_owner(a%d, %d); g_kept[%d] = a%d;'
                               % (Dn, pi, pi, pi, pi, pi, pi, pi))
                    else:
                        pre = ('auto sp = a%d.get(); %s* pd = sp.get(); long uc = sp.use_count() - 1 - g_uc[%d]; int own = same_owner(sp, %d); '
                               'g_kept[%d] = sp;' % (pi, Dn, pi, pi, pi))
                    body.append('    { ' + pre)
                    if k == 'shared':
                        lib = 'yorel::yomm2::detail::requires_dynamic_cast<%s*, std::shared_ptr<%s>>' % (Bn, Dn)
                    elif k == 'cshared':
                        lib = 'yorel::yomm2::detail::requires_dynamic_cast<%s*, const std::shared_ptr<%s>&>' % (Bn, Dn)
                    else:
                        lib = 'yorel::yomm2::detail::requires_dynamic_cast<%s&, %s&>' % (Bn, Dn)
                    back = ('(static_cast<const void*>(static_cast<const %s*>(pd)) == g_arg[%d]) ? 1 : 0' % (cname(p['cls']), pi)) \
                        if count_sub(H, D, p['cls']) == 1 else '-1'
                    body.append('      varg(%d, "%s", %d, static_cast<const void*>(pd), %s, can_static<%s&, %s&>::value, %s, uc, own); }'
                                % (pi, k, D, lib, Bn, Dn, back))
                else:
                    dps.append('%s a%d' % (method_param_type(p), pi))
                    if p['cat'] == 'moveonly':
                        body.append('    narg_m(%d, a%d);' % (pi, pi))
                    else:
                        body.append('    narg_t(%d, "%s", a%d, %s);' % (pi, p['cat'], pi, 'true' if p['cat'] in ('lref', 'rref') else 'false'))
            body.append('    totals("T");')
            body.append({'void': '    return;', 'int': '    return g_ret_value;', 'val': '    return Tracked(g_ret_value);',
                         'lref': '    g_ret_obj.v = g_ret_value; return g_ret_obj;', 'moveonly': '    return MoveOnly(g_ret_value);'}[m['ret']])
            if m['route'] == 'macro':
                w('define_method(%s, m%d, (%s)) {' % (R, mid, ', '.join(dps)))
                w('\n'.join(body))
                w('}')
            else:
                w('static %s %s(%s) {' % (R, dn, ', '.join(dps)))
                w('\n'.join(body))
                w('}')
                w('static m%d::add_function<%s> %s_reg;' % (mid, dn, dn))
        w('')
    # one registration function per complete class in use: names every subobject through the language's conversions
    used = sorted(set([o['cls'] for o in scn['objects']] +
                      [a['cls'] for c in scn['calls'] + scn.get('error_calls', []) for a in c['args'] if a.get('fresh')]))
    for C in used:
        w('static void register_%s(const char* obj, %s* c) {' % (cname(C), cname(C)))
        subs = subobjects(H, C)
        for k in sorted(subs):
            w('    reg(obj, "%s", %d, static_cast<const void*>(%s));' % ('.'.join(map(str, k)), k[-1], chain('c', subs[k])))
        w('}')
    for o in scn['objects']:
        C = o['cls']
        w('static std::shared_ptr<%s> g_%s;' % (cname(C), o['name']))
        w('static void make_%s() {' % o['name'])
        w('    g_ctor.clear();')
        w('    g_%s = std::make_shared<%s>();' % (o['name'], cname(C)))
        w('    register_%s("%s", g_%s.get());' % (cname(C), o['name'], o['name']))
        w('    obj_report("%s", %d, %d);' % (o['name'], C, len(subobjects(H, C))))
        w('}')
    w('')
    meth = {m['id']: m for m in scn['methods']}
    for c in scn['calls']:
        m = meth[c['method']]
        cid = c['id']
        fresh = [(pi, a) for pi, a in enumerate(c['args']) if a.get('fresh')]
        w('static void call_%d() {' % cid)
        w('    std::printf("C %d m=%d route=%s\\n");' % (cid, m['id'], m['route']))
        w('    g_ret_value = %d;' % c['ret_value'])
        w('    long live0 = g_live;')
        w('    {')
        exprs, late = emit_args(w, H, m, c['args'], indent='        ')
        for l in late:
            w(l)
        callee = ('m%d' % m['id']) if m['route'] == 'macro' else ('m%d::fn' % m['id'])
        call = '%s(%s)' % (callee, ', '.join(exprs))
        w('        g_cnt = Cnt();')
        if m['ret'] == 'void':
            w('        %s;' % call)
            w('        std::printf("R k=void val=- cp=- mv=- same=-\\n");')
        elif m['ret'] == 'int':
            w('        long r = %s;' % call)
            w('        std::printf("R k=int val=%ld cp=- mv=- same=-\\n", r);')
        elif m['ret'] == 'val':
            w('        Tracked r = %s;' % call)
            w('        std::printf("R k=val val=%ld cp=%d mv=%d same=-\\n", r.v, r.copies, r.moves);')
        elif m['ret'] == 'lref':
            w('        Tracked& r = %s;' % call)
            w('        std::printf("R k=lref val=%ld cp=%d mv=%d same=%d\\n", r.v, r.copies, r.moves, (int)(&r == &g_ret_obj));')
        else:
            w('        MoveOnly r = %s;' % call)
            w('        std::printf("R k=moveonly val=%ld cp=0 mv=%d same=-\\n", r.v, r.moves);')
        w('        totals("X");')
        w('    }')
        if fresh:
            # the caller's pointers are gone; only the copies kept by the definition own the fresh objects now
            for pi, a in fresh:
                w('    keep_report(%d);' % pi)
            w('    long alive = g_live - live0;')
            for pi, a in fresh:
                w('    g_kept[%d].reset(); unreg("%s");' % (pi, a['obj']))
            w('    std::printf("L alive=%ld freed=%d\\n", alive, (int)(g_live == live0));')
        w('    std::printf("E %d\\n");' % cid)
        w('}')
    for c in scn.get('error_calls', []):
        m = meth[c['method']]
        cid = c['id']
        w('static void ecall_%d() {' % cid)
        w('    std::printf("C %d m=%d route=%s\\n");' % (cid, m['id'], m['route']))
        w('    try {')
        exprs, late = emit_args(w, H, m, c['args'], indent='        ')
        callee = ('m%d' % m['id']) if m['route'] == 'macro' else ('m%d::fn' % m['id'])
        w('        %s(%s);' % (callee, ', '.join(exprs)))
        w('        std::printf("ERR none\\n");')
        w('    } catch (const yorel::yomm2::resolution_error& e) { print_err(e);')
        w('    } catch (...) { std::printf("ERR other\\n"); }')
        w('    std::printf("E %d\\n");' % cid)
        w('}')
    w('')
    w('int main() {')
    w('    std::setvbuf(stdout, nullptr, _IOLBF, 0);')
    w('    yorel::yomm2::update%s();' % ('<POL>' if pol == 'throw' else ''))
    if scn.get('error_calls') and pol != 'throw':
        w('    yorel::yomm2::set_error_handler([](const yorel::yomm2::error_type& ev) {')
        w('        if (auto e = std::get_if<yorel::yomm2::resolution_error>(&ev)) throw *e;')
        w('    });')
    w('    std::printf("H classes=%d wf=1\\n");' % len(scn['classes']))
    for o in scn['objects']:
        w('    make_%s();' % o['name'])
    for c in scn['calls']:
        w('    call_%d();' % c['id'])
    for c in scn.get('error_calls', []):
        w('    ecall_%d();' % c['id'])
    w('    std::printf("END\\n");')
    w('    return 0;')
    w('}')
    return '\n'.join(out) + '\n'


# --------------------------------------------------------------------------- unresolvable calls (property C02, every kind)

ERROR_PATTERNS = ['NV', 'VN', 'NVN', 'VNV', 'NVNV', 'VVN', 'NVVN', 'VNVNV']


def more_specific(H, a, b):
    """compiler.hpp is_more_specific: some position strictly more specific, none strictly less (positions whose classes
    are unrelated do not count either way)"""
    result = False
    for x, y in zip(a, b):
        if x != y:
            if is_base(H, y, x):
                result = True
            elif is_base(H, x, y):
                return False
    return result


def classify(H, defs, Cs):
    """the library's rule for dynamic classes Cs: ('ok', def) | ('no_definition', None) | ('ambiguous', None)"""
    app = [d for d in defs if all(is_base(H, Dd, C) for Dd, C in zip(d['classes'], Cs))]
    if not app:
        return 'no_definition', None
    bests = [d for d in app if all(e is d or more_specific(H, d['classes'], e['classes']) for e in app)]
    if len(bests) == 1:
        return 'ok', bests[0]
    return 'ambiguous', None


def make_error_scenario(rng, name, shape, classes, policy='default', sanitize=True, ndebug=False, registration='macro'):
    """methods of every virtual parameter kind, non-virtual parameters before / between / after, and for each a few calls
    that have no applicable definition or (multiple inheritance / arity >= 2) are ambiguous"""
    import itertools
    H = {i: [(b, bool(v)) for b, v in bs] for i, bs in classes}
    scn = {'name': name, 'shape': shape, 'kind': 'c02_kinds',
           'classes': [{'id': i, 'bases': [[b, int(v)] for b, v in bs], 'pad': rng.choice([0, 8, 24])} for i, bs in classes],
           'flags': {'sanitize': bool(sanitize), 'ndebug': bool(ndebug), 'registration': registration, 'policy': policy},
           'methods': [], 'objects': [], 'calls': [], 'error_calls': []}
    objs = {}

    def obj_for(C, slot):
        if (C, slot) not in objs:
            objs[(C, slot)] = 'o%d' % len(objs)
            scn['objects'].append({'name': objs[(C, slot)], 'cls': C})
        return objs[(C, slot)]

    roots = [B for B in sorted(H) if len(descendants(H, B)) >= 2]
    allk = KINDS + DECL_ONLY_KINDS
    poff = rng.below(len(ERROR_PATTERNS))
    cid = 0
    for mi, kind0 in enumerate(allk + [rng.choice(KINDS), 'cvsptr']):
        pat = ERROR_PATTERNS[(mi + poff) % len(ERROR_PATTERNS)]
        route = 'macro' if mi % 2 == 0 else 'fn'
        declonly = kind0 in DECL_ONLY_KINDS
        params, nv = [], 0
        for ch in pat:
            if ch == 'V':
                k = kind0 if (nv == 0 or declonly) else rng.choice(KINDS)
                params.append({'v': 1, 'kind': k, 'cls': rng.choice(roots)})
                nv += 1
            else:
                params.append({'v': 0, 'cat': rng.choice(['val', 'lref', 'rref'])})
        m = {'id': mi, 'route': route, 'ret': rng.choice(['void', 'int', 'lref']), 'params': params, 'defs': []}
        vparams = [p for p in params if p['v']]
        spaces = [descendants(H, p['cls']) for p in vparams]
        tuples = list(itertools.product(*spaces))
        best_defs, best_score = [], -1
        if not declonly:
            for _ in range(12):
                defs = []
                for di in range(rng.range(1, 3)):
                    dt = []
                    for p, sp in zip(vparams, spaces):
                        cands = [D for D in sp if route == 'fn' or count_sub(H, D, p['cls']) == 1]
                        dt.append(rng.choice(cands))
                    if dt not in [d['classes'] for d in defs]:
                        defs.append({'id': len(defs), 'classes': dt})
                kinds_found = set(classify(H, defs, t)[0] for t in tuples)
                score = ('no_definition' in kinds_found) + 2 * ('ambiguous' in kinds_found)
                if score > best_score:
                    best_defs, best_score = defs, score
        m['defs'] = best_defs
        scn['methods'].append(m)
        for want in ('no_definition', 'ambiguous'):
            cands = [t for t in tuples if classify(H, m['defs'], t)[0] == want]
            rng.shuffle(cands)
            for Cs in cands[:2]:
                args, vi = [], 0
                for pi, p in enumerate(params):
                    if p['v']:
                        C = Cs[vi]
                        subsC = subobjects(H, C)
                        s = rng.choice(sorted(k for k in subsC if k[-1] == p['cls']))
                        e = rng.choice(['lvalue', 'xvalue']) if p['kind'] in ('shared', 'vsptr') else 'lvalue'
                        args.append({'obj': obj_for(C, vi), 'cls': C, 'path': list(s), 'witness': list(subsC[s]), 'expr': e})
                        vi += 1
                    else:
                        args.append({'value': 700000 + cid * 10 + pi, 'expr': {'val': rng.choice(['prvalue', 'xvalue']), 'lref': 'lvalue',
                                                                             'rref': 'xvalue'}[p['cat']]})
                scn['error_calls'].append({'id': cid, 'method': mi, 'args': args, 'status': want, 'classes': list(Cs)})
                cid += 1
    return scn


def error_expectations(scn):
    """property C02 on each unresolvable call: status, arity, dynamic classes of exactly the virtual arguments, in order"""
    meth = {m['id']: m for m in scn['methods']}
    out = {}
    for c in scn.get('error_calls', []):
        m = meth[c['method']]
        vs = [(pi, p) for pi, p in enumerate(m['params']) if p['v']]
        out[c['id']] = {'method': m['id'], 'route': m['route'], 'status': 1 if c['status'] == 'no_definition' else 2, 'arity': len(vs),
                        'types': [cname(C) for C in c['classes']], 'kinds': [p['kind'] for pi, p in vs],
                        'positions': [position_label(m['params'], pi) for pi, p in vs],
                        'signature': ''.join('V' if p['v'] else 'N' for p in m['params'])}
    return out


if __name__ == '__main__':
    import sys
    scn = json.load(open(sys.argv[1]))
    scn = scn.get('scenario', scn)
    sys.stdout.write(emit_cpp(scn) if len(sys.argv) < 3 or sys.argv[2] == 'cpp' else emit_model_input(scn))
