#!/usr/bin/env python3
"""H2 generator for the registration front end (use_classes / class_declaration): programs that dump the class_info
records the real templates produce, compared with Model/UseClasses.v (evaluated inside Coq on the same scenarios) and
with a direct Python computation."""
import os, re, sys, json, hashlib
sys.path.insert(0, os.path.join(os.path.dirname(os.path.abspath(__file__)), '..', '..', 'tools'))
import vlib, corelib


def gen_scenario(rng, i):
    n = rng.range(2, 8)
    kind = rng.choice(['tree', 'diamond', 'random', 'random', 'comb', 'chain'])
    par = corelib.gen_dag(rng, n, kind)
    virt = {c: [rng.chance(1, 3) for _ in par[c]] for c in par}
    abstract = [c for c in range(1, n + 1) if rng.chance(1, 5)]
    anc = corelib.ancestors(par, n)
    stmts = []
    style = rng.choice(['one', 'split', 'direct', 'mixed'])
    order = list(range(1, n + 1)); rng.shuffle(order)
    if style == 'one':
        stmts.append(('use', order))
    elif style == 'direct':
        for c in order:
            bs = list(par[c]); rng.shuffle(bs)
            stmts.append(('decl', [c] + bs))
    else:
        # several use_classes statements, each closed under "direct base of a listed class"
        left = set(order)
        while left:
            seed = rng.choice(sorted(left))
            grp = set(anc[seed])
            for extra in rng.sample(sorted(left), min(len(left), rng.range(0, 2))):
                grp |= anc[extra]
            g = sorted(grp); rng.shuffle(g)
            if style == 'mixed' and rng.chance(1, 3):
                for c in g:
                    stmts.append(('decl', [c] + list(par[c])))
            else:
                stmts.append(('use', g))
            left -= grp
    return {'name': 'uc%d' % i, 'n': n, 'parents': {str(c): par[c] for c in par}, 'virtual': {str(c): virt[c] for c in virt},
            'abstract': abstract, 'stmts': stmts, 'kind': kind, 'style': style}


def expected_records(sc):
    n = sc['n']; par = {int(k): v for k, v in sc['parents'].items()}
    anc = corelib.ancestors(par, n)
    recs = []
    for kind, cs in sc['stmts']:
        if kind == 'use':
            for c in cs:
                recs.append((c, 1 if c in sc['abstract'] else 0, tuple(b for b in cs if b in anc[c])))
        else:
            recs.append((cs[0], 1 if cs[0] in sc['abstract'] else 0, tuple(cs[1:])))
    return sorted(recs)


def program_text(sc):
    n = sc['n']; par = {int(k): v for k, v in sc['parents'].items()}; virt = {int(k): v for k, v in sc['virtual'].items()}
    out = ['#include <yorel/yomm2/core.hpp>', '#include <yorel/yomm2/compiler.hpp>' if False else '', '#include <iostream>', '#include <vector>', '#include <algorithm>',
           'using namespace yorel::yomm2;', 'struct pol : default_policy::rebind<pol> {};']
    # classes in an order where bases come first
    done = set(); order = []
    while len(order) < n:
        for c in range(1, n + 1):
            if c not in done and all(b in done for b in par[c]):
                done.add(c); order.append(c)
    for c in order:
        bases = ', '.join(('virtual ' if v else '') + 'K%d' % b for b, v in zip(par[c], virt[c]))
        body = 'virtual ~K%d() {} int f%d = %d;' % (c, c, c)
        anc_c = corelib.ancestors(par, n)[c]
        for b in sorted(anc_c - {c}):
            if b in sc['abstract']:
                body += ' void pure%d() override {}' % b
        if c in sc['abstract']:
            body += ' virtual void pure%d() = 0;' % c
        out.append('struct K%d%s { %s };' % (c, (' : ' + bases) if bases else '', body))
    for i, (kind, cs) in enumerate(sc['stmts']):
        names = ', '.join('K%d' % c for c in cs)
        if kind == 'use':
            out.append('use_classes<%s, pol> reg%d;' % (names, i))
        else:
            out.append('class_declaration<%s, pol> reg%d;' % (names, i))
    out.append('int main() {')
    out.append('  std::vector<std::pair<type_id, int>> ids = {%s};' % ', '.join('{pol::static_type<K%d>(), %d}' % (c, c) for c in range(1, n + 1)))
    out.append('  auto num = [&](type_id t) { for (auto& p : ids) if (p.first == t) return p.second; return -1; };')
    out.append('  for (auto& ci : pol::classes) { std::cout << "rec " << num(ci.type) << " " << ci.is_abstract << " :"; for (auto b = ci.first_base; b != ci.last_base; ++b) std::cout << " " << num(*b); std::cout << "\\n"; }')
    out.append('  std::cout << "done\\n"; }')
    return '\n'.join(out) + '\n'


def run_programs(scenarios, jobs=8):
    """compile + run; returns name -> sorted list of (class, abstract, bases) or an error string"""
    import subprocess
    res = {}
    todo = []
    for sc in scenarios:
        text = program_text(sc)
        key = vlib.tree_hash([os.path.join(vlib.REPO, 'include')], extra=text)[:20]
        d = vlib.cache_dir('uc-' + key)
        binp = os.path.join(d, 'prog')
        if not os.path.exists(binp):
            src = os.path.join(d, 'prog.cpp'); open(src, 'w').write(text)
            todo.append((sc['name'], src, binp))
        sc['_bin'] = binp
    procs = []
    def drain(limit):
        while len(procs) > limit:
            name, p = procs.pop(0)
            out, _ = p.communicate()
            if p.returncode != 0:
                res[name] = 'compile error: ' + out[-800:]
    for name, src, binp in todo:
        p = subprocess.Popen(['g++', '-std=c++17', '-O0', '-D' + vlib.GUARD, '-I', os.path.join(vlib.REPO, 'include'), src, '-o', binp],
                             stdout=subprocess.PIPE, stderr=subprocess.STDOUT, universal_newlines=True)
        procs.append((name, p)); drain(jobs - 1)
    drain(0)
    for sc in scenarios:
        if sc['name'] in res: continue
        rc, out = vlib.run([sc['_bin']], timeout=60)
        if rc != 0 or 'done' not in out:
            res[sc['name']] = 'run error: ' + out[-500:]; continue
        recs = []
        for l in out.split('\n'):
            m = re.match(r'rec (-?\d+) (\d) :(.*)$', l)
            if m: recs.append((int(m.group(1)), int(m.group(2)), tuple(int(x) for x in m.group(3).split())))
        res[sc['name']] = sorted(recs)
    # bound the cache
    root = os.path.join(vlib.BUILD, 'cache'); ents = sorted((e for e in os.listdir(root) if e.startswith('uc-')), key=lambda e: os.path.getmtime(os.path.join(root, e)))
    import shutil, time
    for e in ents[:-400]:
        if time.time() - os.path.getmtime(os.path.join(root, e)) > 3600: shutil.rmtree(os.path.join(root, e), ignore_errors=True)
    return res


def coq_records(scenarios):
    """evaluate Model/UseClasses.v inside Coq (vm_compute) on the same scenarios: name -> sorted records (use statements only)"""
    d = os.path.join(vlib.BUILD, 'cases'); os.makedirs(d, exist_ok=True)
    src = ['From Y2 Require Import Model.Registry Model.UseClasses.', 'Local Open Scope N_scope.']
    for sc in scenarios:
        n = sc['n']; par = {int(k): v for k, v in sc['parents'].items()}
        anc = corelib.ancestors(par, n)
        # row 0 unused
        rows = ['[]'] + ['[' + '; '.join(str(b) for b in sorted(anc[c])) + ']' for c in range(1, n + 1)]
        src.append('Definition isb_%s (b d : N) : bool := memN b (nth (N.to_nat d) [%s] []).' % (sc['name'], '; '.join(rows)))
        stmts = '[' + '; '.join('[' + '; '.join(str(c) for c in cs) + ']' for kind, cs in sc['stmts'] if kind == 'use') + ']'
        src.append('Goal True. idtac "@@ %s". Abort.' % sc['name'])
        src.append('Eval vm_compute in map (fun r => (c_tid r, c_bases r)) (program_records isb_%s (fun _ => false) %s).' % (sc['name'], stmts))
    p = os.path.join(d, 'UseClassesCases_%d.v' % os.getpid())
    open(p, 'w').write('\n'.join(src) + '\n')
    rc, out = vlib.run(['coqc', '-Q', vlib.COQ, 'Y2', p], timeout=600, cwd=d)
    for f in os.listdir(d):
        if 'UseClassesCases_%d' % os.getpid() in f:
            try: os.remove(os.path.join(d, f))
            except OSError: pass
    res = {}
    if rc != 0:
        return None, out[-1500:]
    for chunk in out.split('@@ ')[1:]:
        name, rest = chunk.split('\n', 1)
        body = rest.split(': list')[0]
        recs = []
        for m in re.finditer(r'\(\s*(\d+)\s*,\s*\[([^\]]*)\]\s*\)', body.replace('\n', ' ')):
            recs.append((int(m.group(1)), tuple(int(x) for x in re.findall(r'\d+', m.group(2)))))
        res[name.strip()] = sorted(recs)
    return res, ''
