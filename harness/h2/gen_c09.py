#!/usr/bin/env python3
"""Scenario and program generator for property C09 and the virtual_ptr routes of C15 (harness H2).

A *scenario* (plain JSON-able dict) describes one C++17 program:
    kind      'c09' | 'c15'
    policy    'default' (stock debug, release with ndebug) | 'ind' (stock facets + basic_indirect_vptr, really in the
              facet list) | 'map' (vptr_map, no hash) | 'vec' (vptr_vector, no hash, custom integer RTTI) | 'indvec'
    flags     {ndebug, sanitize}
    classes   [{id, bases: [[base, virtual01], ...], since: n, registered: bool, until?: n, dynamic?: bool}]
              since = number of the update before which it is registered; dynamic: registered through a
              std::optional<class_declaration<...>> (dynamic lifetime); until = number of the update before which that
              registration object is destroyed (the class is compiled by updates since <= e < until)
    methods   [{id, roots: [r0] | [r0, r1], defs: [{classes: [..], since: n}]}]
              each method exists in three versions with the same definitions: m<k>(virtual_ptr<r0>[, virtual_<r1&>]),
              s<k>(virtual_shared_ptr<r0>[, ..]) and the reference twin r<k>(virtual_<r0&>[, ..])
    ops       script, in order:
              {op: update, epoch, force_move}            late registrations for that epoch, then update<P>()
              {op: obj, name, id, cls, smart, made_by?}  complete object (smart: held by a shared_ptr)
              {op: ptr, name, route, obj, stat, src?}    make a virtual_ptr through a route (ROUTES)
              {op: ident, ptr}                           get / * / -> / owner
              {op: call, ptr, method, other?}            call through the pointer AND through a plain reference
              {op: same, ptr, judged}                    _vptr() == the class's current static v-table pointer
              {op: case, label, route, obj, stat, method, other?}     (c15) one erroneous use, handler throws

emit_cpp(scn)         -> program text (public front-end of yomm2 only)
emit_model_input(scn) -> line format for ocaml/virtualptr_driver.ml
expected_trace(scn)   -> what the PROPERTY demands, line by line, computed here in Python independently of the
                         Coq model (own dispatch computation, own registration bookkeeping)

Everything random derives from the vlib.Rng handed in.
"""
import json

PLAIN_ROUTES = ['exact', 'base', 'final', 'final_fn', 'copy', 'ccopy', 'move', 'up', 'upmove', 'cast']
SMART_ROUTES = ['s_const', 's_lvalue', 's_rvalue', 's_xvalue', 's_final_const', 's_final_lvalue', 's_final_rvalue', 's_make',
                's_copy', 's_move', 's_up', 's_upmove', 's_cast']
ROUTES = PLAIN_ROUTES + SMART_ROUTES
DERIVED = {'copy', 'ccopy', 'move', 'up', 'upmove', 'cast', 's_copy', 's_move', 's_up', 's_upmove', 's_cast'}
MOVES = {'move', 'upmove', 's_move', 's_upmove'}
FINALS = {'final', 'final_fn', 's_final_const', 's_final_lvalue', 's_final_rvalue', 's_make'}
CALL_ROUTES = ['call_ref', 'call_ptr', 'call_shared', 'call_cshared', 'call_second']

POLICIES = {
    #            hash (debug, ndebug)        placement  indirect  custom rtti
    'default': (('checked', 'fast'), 'vector', 0, False),
    'ind': (('checked', 'fast'), 'vector', 1, False),
    'map': (('none', 'none'), 'map', 0, False),
    'vec': (('none', 'none'), 'vector', 0, True),
    'indvec': (('none', 'none'), 'vector', 1, True),
}

SHAPES = {
    # name: list of (id, [(base, virtual)])
    'chain3': [(0, []), (1, [(0, 0)]), (2, [(1, 0)])],
    'chain5': [(0, []), (1, [(0, 0)]), (2, [(1, 0)]), (3, [(2, 0)]), (4, [(3, 0)])],
    'tree': [(0, []), (1, [(0, 0)]), (2, [(0, 0)]), (3, [(1, 0)]), (4, [(1, 0)])],
    'diamond': [(0, []), (1, [(0, 1)]), (2, [(0, 1)]), (3, [(1, 0), (2, 0)])],
    'diamond_tail': [(0, []), (1, [(0, 1)]), (2, [(0, 1)]), (3, [(1, 0), (2, 0)]), (4, [(3, 0)])],
    'second_base': [(0, []), (1, []), (2, [(1, 0), (0, 0)]), (3, [(2, 0)])],
    'levels': [(0, []), (1, []), (2, [(1, 0), (0, 0)]), (3, [(2, 0)]), (4, []), (5, [(4, 0), (3, 0)])],
    'virtual_second': [(0, []), (1, []), (2, [(1, 0), (0, 1)]), (3, [(2, 0)]), (4, [(2, 0)])],
    'wide6': [(0, []), (1, [(0, 0)]), (2, [(0, 0)]), (3, [(0, 0)]), (4, [(2, 0)]), (5, [(4, 0)])],
}
QUICK_SHAPES = ['chain3', 'diamond', 'second_base', 'tree', 'diamond_tail', 'virtual_second', 'chain5', 'levels', 'wide6']


def config_of(scn):
    h, pl, ind, _ = POLICIES[scn['policy']]
    return h[1 if scn['flags'].get('ndebug') else 0], pl, ind


def hier_of(classes):
    return {c['id']: [(b, bool(v)) for b, v in c['bases']] for c in classes}


def ancestors(H, c):
    out = set()
    for b, _ in H[c]:
        out.add(b)
        out |= ancestors(H, b)
    return out


def is_base(H, B, D):
    return B == D or B in ancestors(H, D)


def descendants(H, B):
    return [x for x in sorted(H) if is_base(H, B, x)]


def depth(H, c):
    return 0 if not H[c] else 1 + max(depth(H, b) for b, _ in H[c])


def cls_of(scn):
    return {c['id']: c for c in scn['classes']}


def registered_at(scn, epoch):
    return [c['id'] for c in scn['classes']
            if c.get('registered', True) and c.get('since', 1) <= epoch and epoch < c.get('until', 1 << 30)]


def cname(scn, i):
    c = cls_of(scn)[i]
    return 'U%d' % i if not c.get('registered', True) else 'K%d' % i


# --------------------------------------------------------------------------- dispatch (Python's own; C01's subject)

def label_of(m, classes):
    return 'd%d_%s' % (m['id'], '_'.join(map(str, classes)))


def dispatch(scn, m, epoch, cs):
    """the definition the documented rule selects for dynamic classes cs among those registered by update `epoch`;
    None when there is none or the call is ambiguous"""
    H = hier_of(scn['classes'])
    app = [d for d in m['defs'] if d['since'] <= epoch and all(is_base(H, dc, c) for dc, c in zip(d['classes'], cs))]
    best = [d for d in app if all(all(is_base(H, o, mine) for mine, o in zip(d['classes'], e['classes'])) for e in app)]
    return label_of(m, best[0]['classes']) if len(best) == 1 else None


# --------------------------------------------------------------------------- scenario generation

class Builder:
    def __init__(self, scn, rng):
        self.scn, self.rng = scn, rng
        self.H = hier_of(scn['classes'])
        self.ops = scn['ops']
        self.epoch = 0
        self.objs = {}
        self.ptrs = {}
        self.order = []

    def update(self, force_move):
        self.epoch += 1
        self.ops.append({'op': 'update', 'epoch': self.epoch, 'force_move': bool(force_move)})

    def obj(self, cls, smart, made_by=None):
        n = len(self.objs) + 1
        name = 'o%d' % n
        o = {'op': 'obj', 'name': name, 'id': n, 'cls': cls, 'smart': bool(smart)}
        if made_by:
            o['made_by'] = made_by
        self.objs[name] = o
        self.ops.append(o)
        return name

    def ptr(self, route, obj, stat, src=None, use=True):
        name = 'p%d' % (len(self.ptrs) + 1)
        if route == 's_make':
            obj = self.obj(stat, True, made_by=name)
        op = {'op': 'ptr', 'name': name, 'route': route, 'obj': obj, 'stat': stat}
        if src:
            op['src'] = src
        self.ops.append(op)
        self.ptrs[name] = {'obj': obj, 'stat': stat, 'smart': route.startswith('s_'), 'alive': True, 'epoch': self.epoch, 'route': route}
        self.order.append(name)
        if route in ('s_move', 's_upmove'):
            self.ptrs[src]['alive'] = False      # its shared_ptr was moved away
        if use:
            self.use(name, ident=True)
        return name

    def live(self, cls):
        return cls in registered_at(self.scn, self.epoch)

    def methods_for(self, pname):
        p = self.ptrs[pname]
        return [m for m in self.scn['methods'] if is_base(self.H, m['roots'][0], p['stat'])]

    def pick_other(self, m, first_cls):
        cands = [o for o in self.objs.values() if is_base(self.H, m['roots'][1], o['cls']) and self.live(o['cls'])
                 and dispatch(self.scn, m, self.epoch, [first_cls, o['cls']])]
        return self.rng.choice(cands)['name'] if cands else None

    def use(self, pname, ident=False, ncalls=2):
        p = self.ptrs[pname]
        if ident:
            self.ops.append({'op': 'ident', 'ptr': pname})
        ms = self.methods_for(pname)
        self.rng.shuffle(ms)
        done = 0
        dyn = self.objs[p['obj']]['cls']
        for m in ms:
            if done >= ncalls:
                break
            if len(m['roots']) == 1:
                if dispatch(self.scn, m, self.epoch, [dyn]) is None:
                    continue
                self.ops.append({'op': 'call', 'ptr': pname, 'method': m['id']})
            else:
                other = self.pick_other(m, dyn)
                if other is None:
                    continue
                self.ops.append({'op': 'call', 'ptr': pname, 'method': m['id'], 'other': other})
            done += 1

    def routes_on_plain(self, o, rich=True):
        rng, H = self.rng, self.H
        C = self.objs[o]['cls']
        made = []
        pe = self.ptr('exact', o, C)
        made.append(pe)
        made.append(self.ptr(rng.choice(['final', 'final_fn']), o, C))
        anc = sorted(ancestors(H, C), key=lambda x: (-depth(H, x), x))
        bases = []
        for S in (anc[:1] + rng.sample(anc[1:], min(len(anc) - 1, 1 if rich else 0)) if anc else []):
            pb = self.ptr('base', o, S)
            bases.append(pb)
            made.append(pb)
        if rich:
            pc = self.ptr(rng.choice(['copy', 'ccopy']), o, C, src=pe)
            made.append(self.ptr('move', o, C, src=pc))
            self.use(pc)                                   # a plain moved-from virtual_ptr is unchanged
            if anc:
                S = rng.choice(anc)
                made.append(self.ptr(rng.choice(['up', 'upmove']), o, S, src=rng.choice([pe, made[1]])))
            for pb in bases[:2]:
                S = self.ptrs[pb]['stat']
                mids = [D for D in descendants(H, S) if D != S and is_base(H, D, C)]
                if mids:
                    made.append(self.ptr('cast', o, rng.choice(mids), src=pb))
        return made

    def routes_on_smart(self, o, rich=True):
        rng, H = self.rng, self.H
        C = self.objs[o]['cls']
        anc = sorted(ancestors(H, C), key=lambda x: (-depth(H, x), x))
        made = []
        kinds = ['s_const', 's_lvalue', 's_rvalue', 's_xvalue']
        rng.shuffle(kinds)
        pe = self.ptr(kinds[0], o, C)
        made.append(pe)
        pb = None
        if anc:
            pb = self.ptr(kinds[1], o, rng.choice(anc))
            made.append(pb)
            if rich:
                made.append(self.ptr(kinds[2], o, rng.choice(anc)))
        if rich:
            made.append(self.ptr(kinds[3], o, C))
        fins = ['s_final_const', 's_final_lvalue', 's_final_rvalue']
        rng.shuffle(fins)
        for f in fins[:2 if rich else 1]:
            made.append(self.ptr(f, o, C))
        if rich:
            pc = self.ptr('s_copy', o, C, src=pe)
            made.append(self.ptr('s_move', o, C, src=pc))
            if anc:
                made.append(self.ptr('s_up', o, rng.choice(anc), src=pe))
                pc2 = self.ptr('s_copy', o, C, src=pe)
                made.append(self.ptr('s_upmove', o, rng.choice(anc), src=pc2))
            if pb:
                S = self.ptrs[pb]['stat']
                mids = [D for D in descendants(H, S) if D != S and is_base(H, D, C)]
                if mids:
                    made.append(self.ptr('s_cast', o, rng.choice(mids), src=pb))
        return made

    def old_pointers(self, k):
        """after an update: use pointers made before it"""
        indirect = config_of(self.scn)[2]
        # the class must still be compiled by the last update (a dynamically registered class may be gone)
        old = [n for n in self.order if self.ptrs[n]['alive'] and self.ptrs[n]['epoch'] < self.epoch
               and self.live(self.objs[self.ptrs[n]['obj']]['cls'])]
        pick = self.rng.sample(old, min(k, len(old)))
        pick.sort(key=lambda n: int(n[1:]))
        for n in pick:
            self.ops.append({'op': 'same', 'ptr': n, 'judged': 1 if indirect else 0})
            if indirect:
                self.use(n, ident=self.rng.chance(1, 3))
        if indirect:
            # conversions of OLD pointers made in the new state: nothing is looked up, still the current table
            for n in pick[:4]:
                p = self.ptrs[n]
                o, S = p['obj'], p['stat']
                anc = sorted(ancestors(self.H, S))
                pre = 's_' if p['smart'] else ''
                if anc and self.rng.chance(1, 2):
                    self.ptr(pre + 'up', o, self.rng.choice(anc), src=n)
                else:
                    self.ptr(pre + 'copy', o, S, src=n)


def make_scenario(rng, name, shape, policy, ndebug=False, sanitize=True, late_class=True, size=2, dyn_class=False):
    base = SHAPES[shape]
    scn = {'name': name, 'kind': 'c09', 'shape': shape, 'policy': policy,
           'flags': {'ndebug': bool(ndebug), 'sanitize': bool(sanitize)},
           'classes': [{'id': i, 'bases': [[b, int(v)] for b, v in bs], 'since': 1, 'registered': True} for i, bs in base],
           'methods': [], 'ops': []}
    n = len(base)
    if late_class:
        parent = rng.below(n)
        scn['classes'].append({'id': n, 'bases': [[parent, 0]], 'since': 2, 'registered': True})
    dyn_id = None
    if dyn_class:
        # registered through an object with dynamic lifetime, unregistered before the third update: pointers to
        # objects of the OTHER classes must not notice (no definition mentions this class)
        dyn_id = len(scn['classes'])
        scn['classes'].append({'id': dyn_id, 'bases': [[rng.below(n), 0]], 'since': 1, 'until': 3, 'registered': True, 'dynamic': True})
    H = hier_of(scn['classes'])
    roots = [c for c in sorted(H) if not H[c]]
    since = {c['id']: c['since'] for c in scn['classes']}
    if sum(map(ord, name)) % 3 == 0:
        # every third scenario: the classes nothing derives from are declared final
        has_derived = set(b for c in scn['classes'] for b, _ in c['bases'])
        for c in scn['classes']:
            if c['id'] not in has_derived:
                c['final'] = True

    def add_method(rs):
        m = {'id': len(scn['methods']), 'roots': list(rs), 'defs': [{'classes': list(rs), 'since': 1}]}
        seen = {tuple(rs)}

        def add_def(s):
            for _ in range(8):
                t = tuple(rng.choice([d for d in descendants(H, r) if d != dyn_id]) for r in rs)
                if t in seen:
                    continue
                seen.add(t)
                m['defs'].append({'classes': list(t), 'since': max([s] + [since[c] for c in t])})
                return
        for _ in range(rng.range(1, 3)):
            add_def(1)
        for _ in range(rng.range(1, 2)):
            add_def(2)
        if rng.chance(1, 2):
            add_def(3)
        scn['methods'].append(m)

    main_root = max(roots, key=lambda r: (len(descendants(H, r)), -r))
    add_method([main_root])
    add_method([main_root, rng.choice(roots)])
    others = [r for r in roots if r != main_root and len(descendants(H, r)) > 1]
    if others:
        add_method([rng.choice(others)])

    b = Builder(scn, rng)
    b.update(False)
    early = [c for c in sorted(H) if since[c] == 1]
    by_depth = sorted(early, key=lambda c: (-depth(H, c), c))
    plain_classes = by_depth[:size] + [c for c in rng.sample(by_depth[size:], min(1, len(by_depth[size:])))]
    for c in early:                                  # second arguments of the 2-ary methods
        if c not in plain_classes and rng.chance(1, 3):
            b.obj(c, False)
    for i, c in enumerate(plain_classes):
        b.routes_on_plain(b.obj(c, False), rich=(i < 2))
    if dyn_id is not None and dyn_id not in plain_classes:
        plain_classes.append(dyn_id)
    smart_classes = by_depth[:1] + rng.sample(by_depth[1:], min(max(size - 1, 1), len(by_depth) - 1))
    for i, c in enumerate(smart_classes):
        b.routes_on_smart(b.obj(c, True), rich=(i < 2))
    b.ptr('s_make', None, rng.choice(early))

    indirect = config_of(scn)[2]
    b.update(True if indirect else rng.chance(2, 3))
    b.old_pointers(12 if indirect else 4)
    late = [c for c in sorted(H) if since[c] == 2]
    for c in late:
        b.routes_on_plain(b.obj(c, False), rich=False)
        b.routes_on_smart(b.obj(c, True), rich=False)
    b.routes_on_plain(rng.choice([o for o in b.objs.values() if not o['smart'] and since[o['cls']] == 1])['name'], rich=False)

    b.update(True)
    b.old_pointers(10 if indirect else 3)
    fresh = [o for o in b.objs.values() if not o['smart'] and b.live(o['cls'])]
    b.routes_on_plain(rng.choice(fresh)['name'], rich=False)
    sm = [o for o in b.objs.values() if o['smart'] and 'made_by' not in o and b.live(o['cls'])]
    b.routes_on_smart(rng.choice(sm)['name'], rich=False)
    return scn


def make_c15_scenario(rng, name, shape, policy='default', sanitize=True):
    """checked policy; an unregistered class U deriving from a registered one; every route"""
    base = SHAPES[shape]
    scn = {'name': name, 'kind': 'c15', 'shape': shape, 'policy': policy,
           'flags': {'ndebug': False, 'sanitize': bool(sanitize)},
           'classes': [{'id': i, 'bases': [[b, int(v)] for b, v in bs], 'since': 1, 'registered': True} for i, bs in base],
           'methods': [], 'ops': []}
    n = len(base)
    H0 = hier_of(scn['classes'])
    parent = rng.choice([c for c in sorted(H0) if H0[c]] or sorted(H0))
    U = n
    # every other scenario: the unregistered class is declared final
    scn['classes'].append({'id': U, 'bases': [[parent, 0]], 'since': 1, 'registered': False, 'final': sum(map(ord, name)) % 2 == 0})
    T = n + 1            # registered, seen by the first update, then unregistered (dynamic registration object)
    scn['classes'].append({'id': T, 'bases': [[parent, 0]], 'since': 1, 'until': 2, 'registered': True, 'dynamic': True})
    H = hier_of(scn['classes'])
    anc = sorted(ancestors(H, U), key=lambda x: (depth(H, x), x))
    root = anc[0]
    scn['methods'].append({'id': 0, 'roots': [root], 'defs': [{'classes': [root], 'since': 1}, {'classes': [parent], 'since': 1}]})
    scn['methods'].append({'id': 1, 'roots': [root, root], 'defs': [{'classes': [root, root], 'since': 1}]})
    for r in anc:                                          # one more uni-method per further root above U
        if not H[r] and r != root:
            scn['methods'].append({'id': len(scn['methods']), 'roots': [r], 'defs': [{'classes': [r], 'since': 1}]})
    b = Builder(scn, rng)
    b.update(False)
    u, su = b.obj(U, False), b.obj(U, True)
    D = parent
    d, sd = b.obj(D, False), b.obj(D, True)
    proper = [a for a in anc if a != D] or [root]
    ops = b.ops
    k = [0]

    def case(route, obj, stat, method=None, other=None):
        k[0] += 1
        if method is None:      # a uni-method whose parameter class is a base of the pointer's class
            method = [m['id'] for m in scn['methods'] if len(m['roots']) == 1 and is_base(H, m['roots'][0], stat)][0]
        c = {'op': 'case', 'label': 'x%d' % k[0], 'route': route, 'obj': obj, 'stat': stat, 'method': method}
        if other:
            c['other'] = other
        ops.append(c)

    case('exact', d, D)                                   # control: registered, no error
    case('exact', u, U)
    case(rng.choice(['final', 'final_fn']), u, U)
    for B in anc:
        case('base', u, B)
    case('final', d, rng.choice(proper) if D != root else root)   # wrong dynamic type (registered) unless D is the root
    case('final', u, rng.choice(anc))                     # wrong dynamic type (unregistered)
    case('final', d, D)                                   # control
    for r in ('call_ref', 'call_ptr'):
        case(r, u, root, method=0)
    for r in ('call_shared', 'call_cshared'):
        case(r, su, root, method=0)
    case('call_ref', d, root, method=0)                   # control
    case('call_second', u, root, method=1, other=d)
    case('call_second', d, root, method=1, other=d)       # control
    for r in ('s_const', 's_lvalue', 's_rvalue', 's_xvalue'):
        case(r, su, U)
        case(r, su, rng.choice(anc))
    case('s_const', sd, D)                                # control
    case('s_make', None, U)
    for r in ('s_final_const', 's_final_lvalue', 's_final_rvalue'):
        case(r, su, U)
    if D != root:
        case(rng.choice(['s_final_const', 's_final_lvalue', 's_final_rvalue']), sd, rng.choice(proper))
    case('s_final_const', su, rng.choice(anc))
    # T while it is registered: every route works
    t, stt = b.obj(T, False), b.obj(T, True)
    case('exact', t, T)
    case('final', t, T)
    case('base', t, rng.choice(anc))
    case('s_lvalue', stt, T)
    case('s_final_lvalue', stt, T)
    case('call_ref', t, root, method=0)
    # unregister T, update again: static_vptr<T> still holds the table of the first update; T must be diagnosed like U
    b.update(True)
    case('exact', d, D)                                   # control
    case('exact', t, T)
    case('final', t, T)
    case('final_fn', t, T)
    for B in anc:
        case('base', t, B)
    case('final', t, rng.choice(anc))                     # wrong dynamic type
    for r in ('call_ref', 'call_ptr'):
        case(r, t, root, method=0)
    for r in ('call_shared', 'call_cshared'):
        case(r, stt, root, method=0)
    case('call_second', t, root, method=1, other=d)
    for r in ('s_const', 's_lvalue', 's_rvalue', 's_xvalue'):
        case(r, stt, T)
    case(rng.choice(['s_const', 's_lvalue', 's_rvalue']), stt, rng.choice(anc))
    case('s_make', None, T)
    for r in ('s_final_const', 's_final_lvalue', 's_final_rvalue'):
        case(r, stt, T)
    case('exact', u, U)                                   # never registered: still diagnosed
    case('final', u, U)
    case('s_make', None, U)
    case('final', d, D)                                   # control
    return scn


def manual_scenario(name, kind, shape_classes, policy, ndebug, methods, ops, sanitize=True):
    """hand-written scenarios (corpus)"""
    return {'name': name, 'kind': kind, 'shape': 'manual', 'policy': policy, 'flags': {'ndebug': bool(ndebug), 'sanitize': bool(sanitize)},
            'classes': shape_classes, 'methods': methods, 'ops': ops}


# --------------------------------------------------------------------------- expectations (oracle side)

def case_expectation(scn, c, objs, epoch):
    """what the property demands of a c15 case: ('error', kind, class) or ('ok', label)"""
    H = hier_of(scn['classes'])
    reg = set(registered_at(scn, epoch))
    meth = {m['id']: m for m in scn['methods']}
    m = meth[c['method']]
    route = c['route']
    dyn = objs[c['obj']]['cls'] if c.get('obj') else c['stat']
    if route == 'call_second':
        first = objs[c['other']]['cls']
        for x in (first, dyn):
            if x not in reg:
                return ('error', 'unknown_class', x)
        return ('ok', dispatch(scn, m, epoch, [first, dyn]))
    if route in FINALS and dyn != c['stat']:
        return ('error', 'method_table', dyn)
    if dyn not in reg:
        return ('error', 'unknown_class', dyn)
    return ('ok', dispatch(scn, m, epoch, [dyn]))


def expected_trace(scn):
    """-> list of (line, meta); lines starting with '#' are informational"""
    H = hier_of(scn['classes'])
    hashk, pl, ind = config_of(scn)
    meth = {m['id']: m for m in scn['methods']}
    out = [('H policy=%s hash=%s placement=%s indirect=%d ndebug=%d kind=%s' %
            (scn['policy'], hashk, pl, ind, int(bool(scn['flags'].get('ndebug'))), scn['kind']), {'t': 'H'})]
    objs, ptrs = {}, {}
    epoch = 0
    for op in scn['ops']:
        t = op['op']
        if t == 'update':
            epoch = op['epoch']
            out.append(('U %d' % epoch, {'t': 'U'}))
        elif t == 'obj':
            objs[op['name']] = op
        elif t == 'ptr':
            o = objs[op['obj']]
            smart = op['route'].startswith('s_')
            uc = '-'
            extra = ''
            if smart:
                uc = '0' if op['route'] in MOVES else '1'
            if op['route'] in MOVES:
                extra = ' srcnull=%d' % (1 if smart else 0)
            ptrs[op['name']] = {'obj': op['obj'], 'stat': op['stat'], 'smart': smart, 'epoch': epoch, 'route': op['route']}
            out.append(('P %s route=%s obj=%s stat=K%d ok uc=%s%s' % (op['name'], op['route'], op['obj'], op['stat'], uc, extra),
                        {'t': 'P', 'op': op}))
        elif t == 'ident':
            p = ptrs[op['ptr']]
            o = objs[p['obj']]
            out.append(('I %s get=1 star=1 arrow=%d own=%s' % (op['ptr'], o['id'] * 100 + p['stat'], '1' if p['smart'] else '-'),
                        {'t': 'I', 'op': op}))
        elif t == 'call':
            p = ptrs[op['ptr']]
            m = meth[op['method']]
            cs = [objs[p['obj']]['cls']] + ([objs[op['other']]['cls']] if op.get('other') else [])
            lab = dispatch(scn, m, epoch, cs)
            out.append(('C %s m%d other=%s ptr=%s ref=%s' % (op['ptr'], m['id'], op.get('other') or '-', lab, lab),
                        {'t': 'C', 'op': op, 'route': p['route'], 'age': epoch - p['epoch']}))
        elif t == 'same':
            if op['judged']:
                out.append(('S %s same=1' % op['ptr'], {'t': 'S', 'op': op}))
        elif t == 'case':
            e = case_expectation(scn, op, objs, epoch)
            kc = cls_of(scn)[objs[op['obj']]['cls'] if op.get('obj') else op['stat']]
            hist = ('registered' if kc['id'] in registered_at(scn, epoch) else
                    'unregistered-after-an-update' if kc.get('registered', True) and kc.get('until', 1 << 30) <= epoch else 'never-registered')
            if e[0] == 'error':
                out.append(('X %s route=%s error=%s:%s defs=0' % (op['label'], op['route'], e[1], cname(scn, e[2])), {'t': 'X', 'op': op, 'exp': e, 'hist': hist}))
            else:
                out.append(('X %s route=%s ok ptr=%s' % (op['label'], op['route'], e[1]), {'t': 'X', 'op': op, 'exp': e, 'hist': hist}))
    out.append(('END', {'t': 'END'}))
    return out


# --------------------------------------------------------------------------- model input

HASHN = {'none': 0, 'fast': 1, 'checked': 2}


def emit_model_input(scn):
    H = hier_of(scn['classes'])
    hashk, pl, ind = config_of(scn)
    L = ['config %d %d %d' % (HASHN[hashk], 0 if pl == 'vector' else 1, ind),
         'hdr policy=%s hash=%s placement=%s indirect=%d ndebug=%d kind=%s' %
         (scn['policy'], hashk, pl, ind, int(bool(scn['flags'].get('ndebug'))), scn['kind'])]
    for c in scn['classes']:
        L.append('class %d %s' % (c['id'], cname(scn, c['id'])))
    nupd = max([op['epoch'] for op in scn['ops'] if op['op'] == 'update'] or [0])
    for m in scn['methods']:
        for e in range(1, nupd + 1):
            reg = registered_at(scn, e)
            firsts = [c for c in reg if is_base(H, m['roots'][0], c)]
            if len(m['roots']) == 1:
                for c in firsts:
                    lab = dispatch(scn, m, e, [c])
                    if lab:
                        L.append('disp m%d %d %d - %s' % (m['id'], e, c, lab))
            else:
                for c in firsts:
                    for c2 in [x for x in reg if is_base(H, m['roots'][1], x)]:
                        lab = dispatch(scn, m, e, [c, c2])
                        if lab:
                            L.append('disp m%d %d %d %d %s' % (m['id'], e, c, c2, lab))
    meth = {m['id']: m for m in scn['methods']}
    for op in scn['ops']:
        t = op['op']
        if t == 'update':
            reg = registered_at(scn, op['epoch'])
            L.append('update %d %d %s' % (op['epoch'], len(reg), ' '.join(map(str, reg))))
        elif t == 'obj':
            L.append('obj %s %d %d %d' % (op['name'], op['id'], op['cls'], 500 + op['id'] if op['smart'] else 0))
        elif t == 'ptr':
            L.append('ptr %s %s %s %d %s' % (op['name'], op['route'], op['obj'], op['stat'], op.get('src') or '-'))
        elif t == 'ident':
            L.append('ident %s' % op['ptr'])
        elif t == 'call':
            L.append('call %s m%d %d %s' % (op['ptr'], op['method'], meth[op['method']]['roots'][0], op.get('other') or '-'))
        elif t == 'same':
            L.append('same %s %d' % (op['ptr'], op['judged']))
        elif t == 'case':
            obj = op.get('obj')
            if obj is None:          # make_virtual_shared: the object is made by the route itself
                obj = '_fresh_%s' % op['label']
                L.append('obj %s %d %d %d' % (obj, 900, op['stat'], 1400))
            L.append('case %s %s %s %d m%d %d %s' % (op['label'], op['route'], obj, op['stat'], op['method'],
                                                     meth[op['method']]['roots'][0], op.get('other') or '-'))
    return '\n'.join(L) + '\n'


# --------------------------------------------------------------------------- C++

POLICY_TEXT = {
    'default': 'using P = yorel::yomm2::default_policy;\n',
    'ind': '''#ifdef NDEBUG
#define C09_HASH pol::fast_perfect_hash<P>
#else
#define C09_HASH pol::checked_perfect_hash<P>
#endif
// the stock facets plus basic_indirect_vptr, IN the facet list
struct P : pol::basic_policy<P, pol::std_rtti, C09_HASH, pol::vptr_vector<P>, pol::basic_indirect_vptr<P>,
                             pol::basic_error_output<P>, pol::backward_compatible_error_handler<P>> {};
static_assert(boost::mp11::mp_contains<P::facets, pol::basic_indirect_vptr<P>>::value, "indirect facet is in the list");
static_assert(P::has_facet<pol::indirect_vptr>, "indirect facet is seen");
''',
    'map': '''struct P : pol::basic_policy<P, pol::std_rtti, pol::vptr_map<P>, pol::basic_error_output<P>,
                             pol::backward_compatible_error_handler<P>> {};
''',
    'vec': '''struct P : pol::basic_policy<P, int_rtti, pol::vptr_vector<P>, pol::basic_error_output<P>,
                             pol::backward_compatible_error_handler<P>> {};
''',
    'indvec': '''struct P : pol::basic_policy<P, int_rtti, pol::vptr_vector<P>, pol::basic_indirect_vptr<P>, pol::basic_error_output<P>,
                             pol::backward_compatible_error_handler<P>> {};
static_assert(boost::mp11::mp_contains<P::facets, pol::basic_indirect_vptr<P>>::value, "indirect facet is in the list");
''',
}

INT_RTTI = '''template<class T, class = void> struct has_sid : std::false_type {};
template<class T> struct has_sid<T, std::void_t<decltype(T::static_id)>> : std::true_type {};
// custom integer RTTI: small integers as type ids, no hashing needed
struct int_rtti : pol::rtti {
    template<class T> static type_id static_type() { if constexpr (has_sid<T>::value) return T::static_id; else return 0; }
    template<class T> static type_id dynamic_type(const T& obj) { if constexpr (has_sid<T>::value) return obj.dyn_id(); else return 0; }
    template<class Stream> static void type_name(type_id t, Stream& s) { s << "id#" << t; }
    static type_id type_index(type_id t) { return t; }
    template<typename D, typename B> static D dynamic_cast_ref(B&& obj) { return dynamic_cast<D>(obj); }
};
'''

PRELUDE = '''// GENERATED by /verif/harness/h2/gen_c09.py -- scenario %(name)s (%(kind)s)
#include <yorel/yomm2/keywords.hpp>
#include <cstdio>
#include <memory>
#include <optional>
#include <type_traits>
#include <utility>

using namespace yorel::yomm2;
namespace pol = yorel::yomm2::policy;
'''


def K(scn, i):
    return cname(scn, i)


def emit_cpp(scn):
    H = hier_of(scn['classes'])
    custom = POLICIES[scn['policy']][3]
    c15 = scn['kind'] == 'c15'
    # const_pointee: every pointer, reference and smart pointer in the program is to const (virtual_ptr<const T>,
    # shared_ptr<const T>, make_virtual_shared<const T>, virtual_<const T&>); objects themselves stay non-const
    Q = 'const ' if scn['flags'].get('const_pointee') else ''

    def KQ(i):
        return Q + K(scn, i)
    out = [PRELUDE % {'name': scn['name'], 'kind': scn['kind']}]
    w = out.append
    if custom:
        w(INT_RTTI)
    w(POLICY_TEXT[scn['policy']])
    w('template<class T> using VP = virtual_ptr<T, P>;')
    w('template<class T> using VSP = virtual_shared_ptr<T, P>;')
    w('static int g_defs = 0;   // definitions run since the last reset')
    w('')
    for c in scn['classes']:
        i = c['id']
        bs = ', '.join(('virtual ' if v else '') + K(scn, b) for b, v in c['bases'])
        rt = ''
        if custom:
            rt = ' static constexpr type_id static_id = %d; virtual type_id dyn_id() const { return static_id; }' % (i + 1)
        # `final`: a class declared final in C++ (no class derives from it in the scenario): an implementation may not take a
        # shortcut on std::is_final that skips the registration check or the v-table lookup
        w('struct %s%s%s {%s long f%d = %d; virtual ~%s() {} };' % (K(scn, i), ' final' if c.get('final') else '', (' : ' + bs) if bs else '', rt, i, 7000 + i, K(scn, i)))
    early = [c['id'] for c in scn['classes'] if c.get('registered', True) and c.get('since', 1) == 1 and not c.get('dynamic')]
    w('register_classes(%s, P);' % ', '.join(K(scn, i) for i in early))
    for c in scn['classes']:
        if c.get('dynamic'):     # a registration object with dynamic lifetime (plugin load / unload)
            al = sorted(ancestors(H, c['id']))
            w('static std::optional<class_declaration<%s, P>> dyn_class_%d;' % (', '.join(K(scn, x) for x in [c['id']] + al), c['id']))
    w('')

    def sig(m, ver):
        r0 = KQ(m['roots'][0])
        first = {'m': 'VP<%s>', 's': 'VSP<%s>', 'r': 'virtual_<%s&>', 'rp': 'virtual_<%s*>', 'rs': 'virtual_<std::shared_ptr<%s>>',
                 'rc': 'virtual_<const std::shared_ptr<%s>&>'}[ver] % r0
        return first + (', virtual_<%s&>' % KQ(m['roots'][1]) if len(m['roots']) == 2 else '')

    def dparams(m, d, ver):
        d0 = KQ(d['classes'][0])
        first = {'m': 'VP<%s>', 's': 'VSP<%s>', 'r': '%s&', 'rp': '%s*', 'rs': 'std::shared_ptr<%s>', 'rc': 'const std::shared_ptr<%s>&'}[ver] % d0
        return first + ' a' + (', %s& b' % KQ(d['classes'][1]) if len(d['classes']) == 2 else '')

    def versions(m):
        return ['m', 's', 'r'] + (['rp', 'rs', 'rc'] if c15 and len(m['roots']) == 1 else [])

    for m in scn['methods']:
        for ver in versions(m):
            w('declare_method(const char*, %s%d, (%s), P);' % (ver, m['id'], sig(m, ver)))
            w('using %s%d_t = method_class(const char*, %s%d, (%s), P);' % (ver, m['id'], ver, m['id'], sig(m, ver)))
        for d in m['defs']:
            lab = label_of(m, d['classes'])
            for ver in versions(m):
                if d['since'] == 1:
                    w('define_method(const char*, %s%d, (%s)) { ++g_defs; return "%s"; }' % (ver, m['id'], dparams(m, d, ver), lab))
                else:
                    w('static const char* late_%s%d_%s(%s) { ++g_defs; return "%s"; }' % (ver, m['id'], lab, dparams(m, d, ver), lab))
        w('')
    if c15:
        names = ' '.join('if (t == P::static_type<%s>()) return "%s";' % (K(scn, c['id']), K(scn, c['id'])) for c in scn['classes'])
        sps = ' '.join('if (t == P::static_type<std::shared_ptr<%s>>()) return "SP_%s";' % (K(scn, c['id']), K(scn, c['id'])) for c in scn['classes'])
        w('struct Err { const char* kind; type_id t; };')
        w('static const char* tname(type_id t) { %s %s return "?"; }' % (names, sps))
        w('static void handler(const error_type& ev) {')
        w('    if (auto e = std::get_if<unknown_class_error>(&ev)) throw Err{"unknown_class", e->type};')
        w('    if (auto e = std::get_if<method_table_error>(&ev)) throw Err{"method_table", e->type};')
        w('    throw Err{"other", 0};')
        w('}')
        w('')
    w('int main() {')
    w('    std::setvbuf(stdout, nullptr, _IOLBF, 0);')
    w('    const char* hashk = (P::has_facet<pol::runtime_checks> && P::has_facet<pol::type_hash>) ? "checked" : P::has_facet<pol::type_hash> ? "fast" : "none";')
    w('    const char* plc = std::is_base_of_v<pol::vptr_map<P>, P> ? "map" : std::is_base_of_v<pol::vptr_vector<P>, P> ? "vector" : "?";')
    ndebug_expr = '1' if scn['flags'].get('ndebug') else '0'
    w('#ifdef NDEBUG\n    const int ndebug = 1;\n#else\n    const int ndebug = 0;\n#endif')
    w('    std::printf("H policy=%s hash=%%s placement=%%s indirect=%%d ndebug=%%d kind=%s\\n", hashk, plc, (int)P::has_facet<pol::indirect_vptr>, ndebug);'
      % (scn['policy'], scn['kind']))
    objs, ptrs = {}, {}
    meth = {m['id']: m for m in scn['methods']}

    def as_ptr(o, S):
        """the S subobject of complete object o, by the language's own conversion"""
        return 'static_cast<%s*>(%s)' % (KQ(S), ('%s.get()' % o['name']) if o['smart'] else ('&%s' % o['name']))

    def as_ref(o, S):
        return 'static_cast<%s&>(%s)' % (KQ(S), ('*%s' % o['name']) if o['smart'] else o['name'])

    def set_fields(o):
        C = o['cls']
        for A in sorted(ancestors(H, C) | {C}):
            w('    const_cast<%s&>(%s).f%d = %d;' % (K(scn, A), as_ref(o, A), A, o['id'] * 100 + A))

    def make_stmts(route, name, o, S, src, label=None):
        """C++ statements creating pointer `name` by `route`; helper names derive from `name`"""
        KS = KQ(S)
        L = []
        if route == 'exact':
            L.append('VP<%s> %s(%s);' % (KS, name, o['name']))
        elif route == 'base':
            L.append('%s& r_%s = %s; VP<%s> %s(r_%s);' % (KS, name, o['name'], KS, name, name))
        elif route == 'final':
            L.append('%s& r_%s = %s; auto %s = VP<%s>::final(r_%s);' % (KS, name, o['name'], name, KS, name))
        elif route == 'final_fn':
            L.append('%s& r_%s = %s; auto %s = final_virtual_ptr<P>(r_%s);' % (KS, name, o['name'], name, name))
        elif route == 'copy':
            L.append('VP<%s> %s(%s);' % (KS, name, src))
        elif route == 'ccopy':
            L.append('const VP<%s>& c_%s = %s; VP<%s> %s(c_%s);' % (KS, name, src, KS, name, name))
        elif route in ('move', 'upmove'):
            L.append('VP<%s> %s(std::move(%s));' % (KS, name, src))
        elif route == 'up':
            L.append('VP<%s> %s(%s);' % (KS, name, src))
        elif route == 'cast':
            L.append('auto %s = %s.cast<VP<%s>>();' % (name, src, KS))
        elif route == 's_const':
            L.append('const std::shared_ptr<%s> h_%s = %s;' % (KS, name, o['name']))
            L.append('VSP<%s> %s(h_%s);' % (KS, name, name))
        elif route == 's_lvalue':
            L.append('std::shared_ptr<%s> h_%s = %s;' % (KS, name, o['name']))
            L.append('VSP<%s> %s(h_%s);' % (KS, name, name))
        elif route == 's_rvalue':
            L.append('VSP<%s> %s{std::shared_ptr<%s>(%s)};' % (KS, name, KS, o['name']))
        elif route == 's_xvalue':
            L.append('std::shared_ptr<%s> h_%s = %s;' % (KS, name, o['name']))
            L.append('VSP<%s> %s(std::move(h_%s));' % (KS, name, name))
        elif route == 's_final_const':
            L.append('const std::shared_ptr<%s> h_%s = %s;' % (KS, name, o['name']))
            L.append('auto %s = VSP<%s>::final(h_%s);' % (name, KS, name))
        elif route == 's_final_lvalue':
            L.append('std::shared_ptr<%s> h_%s = %s;' % (KS, name, o['name']))
            L.append('auto %s = VSP<%s>::final(h_%s);' % (name, KS, name))
        elif route == 's_final_rvalue':
            L.append('auto %s = VSP<%s>::final(std::shared_ptr<%s>(%s));' % (name, KS, KS, o['name']))
        elif route == 's_make':
            L.append('auto %s = make_virtual_shared<%s, P>();' % (name, KS))
        elif route == 's_copy' or route == 's_up':
            L.append('VSP<%s> %s(%s);' % (KS, name, src))
        elif route in ('s_move', 's_upmove'):
            L.append('VSP<%s> %s(std::move(%s));' % (KS, name, src))
        elif route == 's_cast':
            L.append('auto %s = %s.cast<VSP<%s>>();' % (name, src, KS))
        else:
            raise ValueError(route)
        return L

    def late_registrations(epoch):
        for c in scn['classes']:
            if c.get('dynamic'):
                if c.get('since', 1) == epoch:
                    w('    dyn_class_%d.emplace();' % c['id'])
                if c.get('until') == epoch:
                    w('    dyn_class_%d.reset();      // the class is unregistered; static_vptr<%s> keeps its old content' % (c['id'], K(scn, c['id'])))
                continue
            if c.get('registered', True) and c.get('since', 1) == epoch and epoch > 1:
                al = sorted(ancestors(H, c['id']))
                w('    static class_declaration<%s, P> late_class_%d;' % (', '.join(K(scn, x) for x in [c['id']] + al), c['id']))
        for m in scn['methods']:
            for d in m['defs']:
                if d['since'] == epoch and epoch > 1:
                    lab = label_of(m, d['classes'])
                    for ver in versions(m):
                        w('    static %s%d_t::add_function<late_%s%d_%s> reg_%s%d_%s;' % (ver, m['id'], ver, m['id'], lab, ver, m['id'], lab))

    for op in scn['ops']:
        t = op['op']
        if t == 'update':
            late_registrations(op['epoch'])
            if op['force_move'] and op['epoch'] > 1:
                w('    { auto data = P::dispatch_data.data(); while (data == P::dispatch_data.data()) P::dispatch_data.resize(2 * P::dispatch_data.size() + 16); }')
            w('    update<P>();')
            if c15 and op['epoch'] == 1:
                w('    P::error = handler;')
            w('    std::printf("U %d\\n");' % op['epoch'])
        elif t == 'obj':
            objs[op['name']] = op
            if op.get('made_by'):
                continue
            KC = K(scn, op['cls'])
            if op['smart']:
                w('    std::shared_ptr<%s%s> %s = std::make_shared<%s>();' % (Q, KC, op['name'], KC))
            else:
                w('    static %s %s;' % (KC, op['name']))
            set_fields(op)
        elif t == 'ptr':
            o = objs[op['obj']]
            name, route, S = op['name'], op['route'], op['stat']
            smart = route.startswith('s_')
            ptrs[name] = {'obj': o, 'stat': S, 'smart': smart}
            stm = make_stmts(route, name, o, S, op.get('src'))
            if route == 's_make':
                w('    ' + stm[0])
                w('    long uc_%s = %s.get().use_count() - 1;' % (name, name))
                w('    std::shared_ptr<%s> %s = %s.get();' % (KQ(o['cls']), o['name'], name))
                set_fields(o)
            elif smart:
                for s in stm[:-1]:
                    w('    ' + s)
                w('    long uc0_%s = %s.use_count();' % (name, o['name']))
                w('    ' + stm[-1])
                w('    long uc_%s = %s.use_count() - uc0_%s;' % (name, o['name'], name))
            else:
                for s in stm:
                    w('    ' + s)
            extra, extra_args = '', ''
            if route in MOVES:
                extra = ' srcnull=%d'
                extra_args = ', (int)(%s.get() == nullptr)' % op['src']
            if smart:
                w('    std::printf("P %s route=%s obj=%s stat=K%d ok uc=%%ld%s\\n", uc_%s%s);' % (name, route, o['name'], S, extra, name, extra_args))
            else:
                w('    std::printf("P %s route=%s obj=%s stat=K%d ok uc=-%s\\n"%s);' % (name, route, o['name'], S, extra, extra_args))
        elif t == 'ident':
            p = ptrs[op['ptr']]
            o, S, n = p['obj'], p['stat'], op['ptr']
            if p['smart']:
                w('    { auto g = %s.get(); std::printf("I %s get=%%d star=%%d arrow=%%ld own=%%d\\n", (int)(g.get() == %s), (int)(&*%s == %s), %s->f%d, '
                  '(int)(!g.owner_before(%s) && !%s.owner_before(g))); }' % (n, n, as_ptr(o, S), n, as_ptr(o, S), n, S, o['name'], o['name']))
            else:
                w('    std::printf("I %s get=%%d star=%%d arrow=%%ld own=-\\n", (int)(%s.get() == %s), (int)(&*%s == %s), %s->f%d);'
                  % (n, n, as_ptr(o, S), n, as_ptr(o, S), n, S))
        elif t == 'call':
            p = ptrs[op['ptr']]
            m = meth[op['method']]
            o = p['obj']
            second = ''
            if op.get('other'):
                second = ', ' + as_ref(objs[op['other']], m['roots'][1])
            ver = 's' if p['smart'] else 'm'
            w('    { const char* a = %s%d(%s%s); const char* b = r%d(%s%s); std::printf("C %s m%d other=%s ptr=%%s ref=%%s\\n", a, b); }'
              % (ver, m['id'], op['ptr'], second, m['id'], as_ref(o, m['roots'][0]), second, op['ptr'], m['id'], op.get('other') or '-'))
        elif t == 'same':
            p = ptrs[op['ptr']]
            w('    std::printf("%sS %s same=%%d\\n", (int)(%s._vptr() == P::static_vptr<%s>));'
              % ('' if op['judged'] else '# ', op['ptr'], op['ptr'], K(scn, p['obj']['cls'])))
        elif t == 'case':
            m = meth[op['method']]
            route, S, lab = op['route'], op['stat'], op['label']
            o = objs[op['obj']] if op.get('obj') else None
            w('    g_defs = 0;')
            w('    try {')
            if route in CALL_ROUTES:
                root = m['roots'][0]
                KR = K(scn, root)
                if route == 'call_ref':
                    call = 'r%d(%s)' % (m['id'], as_ref(o, root))
                elif route == 'call_ptr':
                    call = 'rp%d(%s)' % (m['id'], as_ptr(o, root))
                elif route == 'call_shared':
                    call = 'rs%d(std::shared_ptr<%s>(%s))' % (m['id'], KR, o['name'])
                elif route == 'call_cshared':
                    w('        const std::shared_ptr<%s> h = %s;' % (KR, o['name']))
                    call = 'rc%d(h)' % m['id']
                else:
                    call = 'r%d(%s, %s)' % (m['id'], as_ref(objs[op['other']], m['roots'][0]), as_ref(o, m['roots'][1]))
                w('        const char* a = %s;' % call)
            else:
                fake = o or {'name': '_none', 'smart': True, 'cls': S}
                for s in make_stmts(route, 'p', fake, S, None):
                    w('        ' + s)
                w('        const char* a = %s%d(p);' % ('s' if route.startswith('s_') else 'm', m['id']))
            w('        std::printf("X %s route=%s ok ptr=%%s\\n", a);' % (lab, route))
            w('    } catch (Err& e) { std::printf("X %s route=%s error=%%s:%%s defs=%%d\\n", e.kind, tname(e.t), g_defs); }' % (lab, route))
    w('    std::printf("END\\n");')
    w('    return 0;')
    w('}')
    return '\n'.join(out) + '\n'


if __name__ == '__main__':
    import sys
    s = json.load(open(sys.argv[1]))
    s = s.get('scenario', s)
    what = sys.argv[2] if len(sys.argv) > 2 else 'cpp'
    if what == 'cpp':
        sys.stdout.write(emit_cpp(s))
    elif what == 'model':
        sys.stdout.write(emit_model_input(s))
    else:
        sys.stdout.write('\n'.join(l for l, _ in expected_trace(s)) + '\n')
