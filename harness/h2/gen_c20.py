#!/usr/bin/env python3
"""H2 generator for property C20: scenario -> one C++17 translation unit that uses the documented
pattern of  docs.in/reference/use_definitions.cpp / docs.in/tutorials/templates_tutorial.cpp

    template<typename Method, typename...> struct definition [: not_defined] {};
    use_definitions<definition, product<types<Method...>, types<Class...>, ...>> YOMM2_GENSYM;

and prints, as canonical lines,

    product <ids>          every element of product<L0, L1, ...>, in type-list order
    apply <t> <ids>        every element of apply_product<templates<tpl0, ...>, class lists...>, in order
    static <name> <0|1>    compile-time comparisons against the expectation handed in by the caller
    shape <tokens>         pre-order walk of the bases of use_definitions<...>:  T<n> a std::tuple of n
                           leaves, S<n> a std::tuple of n sub-aggregates, X<n> anything else
    leaf <m> <ids>         the leaves of that tree in type order: method index, container arguments
    catalog <m> <ids>      one line per definition_info found in M<m>::fn.specs at run time, in catalog
                           order; ids = class of each virtual parameter (R = the root: the catch-all)
    call <m> <ids> -> <r>  result of calling method m on objects of those dynamic classes after update():
                           128-adic code of the classes of the definition that ran, -1 = catch-all
    done

Scenario (JSON object):
    name       str
    flavor     'first'  : definition<Method, Class...>, first list of the product = types<M0[, M1]>
               'member' : definition<Class...> has `using method = M0;`, every list is a class list
    methods    1 | 2 (flavor first only)
    lists      [[class id, ...], ...]   the class lists (ids are dense 0..n-1; a list has no duplicate)
    undef      [[...], ...]  combinations marked not_defined; a combination is a full element of the
               product: [method index, class ids...] for 'first', [class ids...] for 'member'
    style      'default_defined'   : primary template defines fn, explicit specializations : not_defined
               'default_undefined' : primary template : not_defined, explicit specializations define fn
    indirect   bool: the marked combinations derive from not_defined in turn directly, through an intermediate class,
               privately, and through two bases at once (a repeated base)
    templates  k >= 0: number of templates of the apply_product<> probe (0 = none)
"""
import hashlib, itertools, json

CODE_BASE = 128


def canon(sc):
    """normalised copy of a scenario (defaults filled in, lists of ints)"""
    out = {
        'name': str(sc.get('name', 'scenario')),
        'flavor': sc.get('flavor', 'first'),
        'methods': int(sc.get('methods', 1)),
        'lists': [[int(x) for x in l] for l in sc['lists']],
        'undef': sorted(set(tuple(int(x) for x in c) for c in sc.get('undef', []))),
        'style': sc.get('style', 'default_defined'),
        'indirect': bool(sc.get('indirect', False)),
        'templates': int(sc.get('templates', 0)),
    }
    out['undef'] = [list(c) for c in out['undef']]
    if out['flavor'] not in ('first', 'member'):
        raise ValueError('flavor')
    if out['flavor'] == 'member':
        out['methods'] = 1
    if out['methods'] not in (1, 2):
        raise ValueError('methods')
    if out['style'] not in ('default_defined', 'default_undefined'):
        raise ValueError('style')
    if not out['lists'] or len(out['lists']) > 4:
        raise ValueError('1..4 class lists')
    for l in out['lists']:
        if len(set(l)) != len(l):
            raise ValueError('duplicate class in a list')
    return out


def scenario_key(sc):
    c = dict(canon(sc))
    c.pop('name')
    return hashlib.sha1(json.dumps(c, sort_keys=True).encode()).hexdigest()


def full_lists(sc):
    """the lists handed to product<...>: methods first for flavor 'first'"""
    sc = canon(sc)
    if sc['flavor'] == 'first':
        return [list(range(sc['methods']))] + sc['lists']
    return sc['lists']


def nclasses(sc):
    ids = [x for l in sc['lists'] for x in l]
    return (max(ids) + 1) if ids else 0


def model_case_text(sc):
    """case file of ocaml/product_driver.ml"""
    sc = canon(sc)
    lines = ['flavor ' + sc['flavor']]
    for l in full_lists(sc):
        lines.append(('ls ' + ' '.join(map(str, l))).rstrip())
    for c in sc['undef']:
        lines.append(('undef ' + ' '.join(map(str, c))).rstrip())
    lines.append('templates %d' % sc['templates'])
    return '\n'.join(lines) + '\n'


def _tname(pos, x, first):
    if first and pos == 0:
        return 'M%d' % x
    return 'K%d' % x


def _combo_types(c, first):
    return ', '.join(_tname(i, x, first) for i, x in enumerate(c))


def generate(sc, expected_product=None, expected_apply=None):
    """C++ source text. expected_product / expected_apply: lists of id tuples (from the model) turned
    into `static product_same` / `static apply_same` compile-time comparisons (printed, not asserted,
    so that a difference is reported by the run instead of a failed build)."""
    sc = canon(sc)
    first = sc['flavor'] == 'first'
    nm = sc['methods']
    lists = sc['lists']
    arity = len(lists)
    ncls = nclasses(sc)
    o = []
    w = o.append
    w('// generated by harness/h2/gen_c20.py -- scenario %s' % json.dumps({k: v for k, v in sc.items() if k != 'undef'}, sort_keys=True))
    w('#include <yorel/yomm2/core.hpp>')
    w('#include <yorel/yomm2/symbols.hpp>')
    w('#include <yorel/yomm2/templates.hpp>')
    w('#include <cstdio>')
    w('#include <tuple>')
    w('#include <type_traits>')
    w('using namespace yorel::yomm2;')
    w('')
    w('struct Root { virtual ~Root() {} };')
    for i in range(ncls):
        w('struct K%d : Root { static constexpr int id = %d; };' % (i, i))
    w('use_classes<Root%s> YOMM2_GENSYM;' % ''.join(', K%d' % i for i in range(ncls)))
    w('')
    vparams = ', '.join(['virtual_<Root&>'] * arity)
    rparams = ', '.join(['Root&'] * arity)
    for m in range(nm):
        w('struct YOMM2_SYMBOL(m%d);' % m)
        w('using M%d = method<YOMM2_SYMBOL(m%d), long(%s)>;' % (m, m, vparams))
        w('long catch_all%d(%s) { return -1; }' % (m, rparams))
        w('YOMM2_STATIC(M%d::add_function<catch_all%d>);' % (m, m))
    w('')
    w('template<typename T> struct id_of { static constexpr int value = T::id; };')
    for m in range(nm):
        w('template<> struct id_of<M%d> { static constexpr int value = %d; };' % (m, m))
    w('template<typename... T> constexpr long code_of() { long c = 0; int d_[] = {0, (c = c * %d + T::id, 0)...}; (void)d_; return c; }' % CODE_BASE)
    w('struct nd_indirect : not_defined {};')
    w('struct nd_a : not_defined {};')
    w('struct nd_b : not_defined {};')
    w('')

    def nd_base(n):
        # the ways a container can derive from not_defined: directly, through an intermediate class, privately, and through
        # two bases at once (a repeated base: is_base_of says yes, a pointer conversion would be inaccessible resp. ambiguous)
        return ['not_defined', 'nd_indirect', 'private not_defined', 'nd_a, nd_b'][n % 4] if sc['indirect'] else 'not_defined'

    undef = [tuple(c) for c in sc['undef']]
    undef_set = set(undef)
    prod = list(itertools.product(*full_lists(sc)))     # only to enumerate the explicit specializations
    dd = sc['style'] == 'default_defined'
    if first:
        head = 'template<typename M, typename... T>'
        body = '{ static long fn(T&...) { return code_of<T...>(); } }'
    else:
        head = 'template<typename... T>'
        body = '{ using method = M0; static long fn(T&...) { return code_of<T...>(); } }'
    if dd:
        w('%s struct definition %s;' % (head, body))
        for n, c in enumerate(undef):
            base = nd_base(n)
            if n % 3 == 2:
                # marked not_defined although the specialization still HAS a fn (the mark is what counts, not the absence of fn)
                cls = c[1:] if first else c
                ps = ', '.join('K%d&' % x for x in cls)
                ks = ', '.join('K%d' % x for x in cls)
                meth = '' if first else 'using method = M0; '
                w('template<> struct definition<%s> : %s { %sstatic long fn(%s) { return 1000000 + code_of<%s>(); } };'
                  % (_combo_types(c, first), base, meth, ps, ks))
            else:
                w('template<> struct definition<%s> : %s {};' % (_combo_types(c, first), base))
    else:
        w('%s struct definition : not_defined {};' % head)
        for c in prod:
            if c in undef_set:
                continue
            cls = c[1:] if first else c
            ps = ', '.join('K%d&' % x for x in cls)
            ks = ', '.join('K%d' % x for x in cls)
            meth = '' if first else 'using method = M0; '
            w('template<> struct definition<%s> { %sstatic long fn(%s) { return code_of<%s>(); } };' % (_combo_types(c, first), meth, ps, ks))
        n = 0
        for c in undef:      # marked combinations outside the default: explicit, some through nd_indirect, some keeping a fn
            if n % 3 == 2:
                cls = c[1:] if first else c
                ps = ', '.join('K%d&' % x for x in cls)
                ks = ', '.join('K%d' % x for x in cls)
                meth = '' if first else 'using method = M0; '
                w('template<> struct definition<%s> : %s { %sstatic long fn(%s) { return 1000000 + code_of<%s>(); } };'
                  % (_combo_types(c, first), nd_base(n + 1), meth, ps, ks))
            elif sc['indirect'] and n % 4 != 0:
                w('template<> struct definition<%s> : %s {};' % (_combo_types(c, first), nd_base(n)))
            n += 1
    w('')
    fl = full_lists(sc)
    for i, l in enumerate(fl):
        w('using L%d = types<%s>;' % (i, ', '.join(_tname(i, x, first) for x in l)))
    w('using P = product<%s>;' % ', '.join('L%d' % i for i in range(len(fl))))
    w('using UD = use_definitions<definition, P>;')
    w('UD YOMM2_GENSYM;')
    w('')
    k = sc['templates']
    cl0 = 1 if first else 0
    if k:
        for t in range(k):
            if t % 2 == 0:
                w('template<%s> struct tpl%d;' % (', '.join(['typename'] * arity), t))
            else:
                w('template<typename...> struct tpl%d;' % t)
        w('using AP = apply_product<templates<%s>%s>;' % (', '.join('tpl%d' % t for t in range(k)),
                                                          ''.join(', L%d' % (i + cl0) for i in range(arity))))
    w('')
    w('template<typename T> struct tag {};')
    w('template<typename... T> void print_combo(tag<types<T...>>) { std::printf("product"); int d_[] = {0, (std::printf(" %d", id_of<T>::value), 0)...}; (void)d_; std::printf("\\n"); }')
    w('template<typename T> void print_combo(tag<T>) { std::printf("product ?\\n"); }')
    w('template<typename... C> void print_lol(tag<types<C...>>) { int d_[] = {0, (print_combo(tag<C>{}), 0)...}; (void)d_; }')
    w('template<typename T> void print_lol(tag<T>) { std::printf("product-not-a-types-list\\n"); }')
    if k:
        for t in range(k):
            if t % 2 == 0:
                tps = ', '.join('typename T%d' % i for i in range(arity))
                tas = ', '.join('T%d' % i for i in range(arity))
                pr = ' '.join('std::printf(" %%d", T%d::id);' % i for i in range(arity))
                w('template<%s> void print_ap(tag<tpl%d<%s>>) { std::printf("apply %d"); %s std::printf("\\n"); }' % (tps, t, tas, t, pr))
            else:
                w('template<typename... T> void print_ap(tag<tpl%d<T...>>) { std::printf("apply %d"); int d_[] = {0, (std::printf(" %%d", T::id), 0)...}; (void)d_; std::printf("\\n"); }' % (t, t))
        w('template<typename T> void print_ap(tag<T>) { std::printf("apply ?\\n"); }')
        w('template<typename... C> void print_aps(tag<types<C...>>) { int d_[] = {0, (print_ap(tag<C>{}), 0)...}; (void)d_; }')
        w('template<typename T> void print_aps(tag<T>) { std::printf("apply-not-a-types-list\\n"); }')
    w('')
    w('static int mode = 0; // 0: shape tokens, 1: leaves')
    w('template<typename T> struct is_agg : std::false_type {};')
    w('template<typename... V> struct is_agg<aggregate<V...>> : std::true_type {};')
    w('template<typename... T> void print_container(tag<definition<T...>>) { int d_[] = {0, (std::printf(" %d", id_of<T>::value), 0)...}; (void)d_; }')
    w('template<typename T> void print_container(tag<T>) { std::printf(" ?"); }')
    w('template<typename... U> void walk(const std::tuple<U...>*);')
    w('template<typename T> void visit(tag<T>) { if (mode == 1) std::printf("leaf ? ?\\n"); }')
    for m in range(nm):
        w('template<typename C> void visit(tag<M%d::add_definition<C>>) { if (mode == 1) { std::printf("leaf %d"); print_container(tag<C>{}); std::printf("\\n"); } }' % (m, m))
    w('template<typename... V> void visit(tag<aggregate<V...>>) { walk(static_cast<aggregate<V...>*>(nullptr)); }')
    w('template<typename... U> void walk(const std::tuple<U...>*) {')
    w('    std::size_t n = sizeof...(U), na = 0;')
    w('    int c_[] = {0, (na += is_agg<U>::value ? 1 : 0, 0)...}; (void)c_;')
    w('    if (mode == 0) std::printf(" %c%zu", na == 0 ? \'T\' : (na == n ? \'S\' : \'X\'), n);')
    w('    int d_[] = {0, (visit(tag<U>{}), 0)...}; (void)d_;')
    w('}')
    w('')
    w('struct cls_entry { type_id t; const char* name; };')
    w('static const char* class_name(type_id t) {')
    w('    static const cls_entry table[] = {')
    w('        {default_policy::static_type<Root>(), "R"},')
    for i in range(ncls):
        w('        {default_policy::static_type<K%d>(), "%d"},' % (i, i))
    w('    };')
    w('    for (auto& e : table) if (e.t == t) return e.name;')
    w('    return "?";')
    w('}')
    w('template<class M> void print_catalog(int m) {')
    w('    for (auto& d : M::fn.specs) {')
    w('        std::printf("catalog %d", m);')
    w('        for (auto p = d.vp_begin; p != d.vp_end; ++p) std::printf(" %s", class_name(*p));')
    w('        std::printf("\\n");')
    w('    }')
    w('}')
    w('')
    if expected_product is not None:
        tl = ', '.join('types<%s>' % _combo_types(c, first) for c in expected_product)
        w('constexpr bool product_same = std::is_same_v<P, types<%s>>;' % tl)
    if k and expected_apply is not None:
        tl = ', '.join('tpl%d<%s>' % (t, ', '.join('K%d' % x for x in c)) for (t, c) in expected_apply)
        w('constexpr bool apply_same = std::is_same_v<AP, types<%s>>;' % tl)
    w('')
    w('int main() {')
    w('    print_lol(tag<P>{});')
    if k:
        w('    print_aps(tag<AP>{});')
    if expected_product is not None:
        w('    std::printf("static product_same %d\\n", product_same ? 1 : 0);')
    if k and expected_apply is not None:
        w('    std::printf("static apply_same %d\\n", apply_same ? 1 : 0);')
    w('    std::printf("shape"); mode = 0; walk(static_cast<UD*>(nullptr)); std::printf("\\n");')
    w('    mode = 1; walk(static_cast<UD*>(nullptr));')
    for m in range(nm):
        w('    print_catalog<M%d>(%d);' % (m, m))
    w('    std::fflush(stdout);')
    w('    update();')
    for i in range(ncls):
        w('    K%d o%d;' % (i, i))
    w('    Root* objs[] = {%s};' % ', '.join(['nullptr'] + ['&o%d' % i for i in range(ncls)]))
    for i, l in enumerate(lists):
        w('    const int C%d[] = {%s};' % (i, ', '.join(['-1'] + [str(x) for x in l])))
    for m in range(nm):
        ind = '    '
        for i, l in enumerate(lists):
            w('%sfor (int i%d = 1; i%d <= %d; ++i%d) {' % (ind, i, i, len(l), i))
            ind += '    '
        args = ', '.join('*objs[C%d[i%d] + 1]' % (i, i) for i in range(arity))
        fmt = ' '.join(['%d'] * arity)
        vals = ', '.join('C%d[i%d]' % (i, i) for i in range(arity))
        w('%sstd::printf("call %d %s -> %%ld\\n", %s, M%d::fn(%s));' % (ind, m, fmt, vals, m, args))
        for i in range(arity):
            ind = ind[:-4]
            w('%s}' % ind)
    w('    std::printf("done\\n");')
    w('    return 0;')
    w('}')
    return '\n'.join(o) + '\n'


# ---------------------------------------------------------------------------- scenario generators

def pick_undef(rng, prod, kind):
    n = len(prod)
    if kind == 'none' or n == 0:
        return []
    if kind == 'all':
        return [list(c) for c in prod]
    if kind == 'one':
        return [list(prod[rng.below(n)])]
    if kind == 'allbutone':
        keep = rng.below(n)
        return [list(c) for i, c in enumerate(prod) if i != keep]
    if kind == 'first':
        return [list(prod[0])]
    if kind == 'last':
        return [list(prod[-1])]
    if kind == 'ends':
        return [list(prod[0]), list(prod[-1])] if n > 1 else [list(prod[0])]
    num, den = kind            # probability num/den for each combination
    return [list(c) for c in prod if rng.chance(num, den)]


def random_small(rng, name, max_product=150):
    """1-4 class lists of length 1-6 over a shared pool of classes"""
    while True:
        flavor = 'first' if rng.chance(3, 5) else 'member'
        methods = 2 if (flavor == 'first' and rng.chance(1, 3)) else 1
        nl = rng.range(1, 4 if flavor == 'member' else 3) if not rng.chance(1, 6) else (4 if flavor == 'member' else 3)
        pool = rng.range(3, 10)
        lists = []
        for _ in range(nl):
            ln = min(rng.choice([1, 2, 2, 3, 3, 4, 4, 5, 6]), pool)
            lists.append(rng.sample(range(pool), ln))
        size = methods
        for l in lists:
            size *= len(l)
        if size <= max_product:
            break
    # make ids dense
    used = sorted(set(x for l in lists for x in l))
    ren = {x: i for i, x in enumerate(used)}
    lists = [[ren[x] for x in l] for l in lists]
    sc = {'name': name, 'flavor': flavor, 'methods': methods, 'lists': lists}
    prod = list(itertools.product(*full_lists(sc)))
    kind = rng.choice(['none', 'all', 'one', 'allbutone', 'ends', 'first', 'last', (1, 2), (1, 4), (3, 4), (1, 2), (1, 8), (1, 3), (2, 3)])
    sc['undef'] = pick_undef(rng, prod, kind)
    sc['style'] = 'default_undefined' if rng.chance(1, 3) else 'default_defined'
    sc['indirect'] = rng.chance(1, 3)
    sc['templates'] = rng.choice([0, 1, 2, 2, 3]) if size <= 64 else 0
    return canon(sc)


def big_shape(target):
    """two list lengths a >= b with a*b >= target, as small as possible"""
    a = 1
    while a * a < target:
        a += 1
    b = (target + a - 1) // a
    return a, b


def big_scenario(rng, name, registered, methods=1, three_lists=False, flavor='first'):
    """a product just large enough to leave exactly `registered` defined combinations
    (per program, over all methods), the rest marked not_defined at random places"""
    per = (registered + methods - 1) // methods
    if three_lists:
        a = 2
        while a * a * a < per:
            a += 1
        dims = [a, a, a]
        while dims[0] * dims[1] * (dims[2] - 1) >= per and dims[2] > 1:
            dims[2] -= 1
        while dims[0] * (dims[1] - 1) * dims[2] >= per and dims[1] > 1:
            dims[1] -= 1
    else:
        dims = list(big_shape(per))
    pool = max(dims) + rng.range(0, 3)
    lists = [rng.sample(range(pool), d) for d in dims]
    used = sorted(set(x for l in lists for x in l))
    ren = {x: i for i, x in enumerate(used)}
    lists = [[ren[x] for x in l] for l in lists]
    sc = {'name': name, 'flavor': flavor, 'methods': methods if flavor == 'first' else 1, 'lists': lists,
          'style': 'default_defined', 'indirect': rng.chance(1, 2), 'templates': 0}
    prod = list(itertools.product(*full_lists(sc)))
    drop = max(0, len(prod) - registered)
    idx = rng.sample(range(len(prod)), drop)
    # bias: the element at the cut and the two ends are often among the marked ones
    sc['undef'] = [list(prod[i]) for i in sorted(idx)]
    return canon(sc)
