#!/usr/bin/env python3
"""/repo/include/yorel/yomm2/core.hpp + detail.hpp  ->  coq/Gen/GenErr.v      (property C02: the resolution_error record)

Source-to-Gallina translation of method::not_implemented_handler, method::ambiguous_handler (core.hpp) and detail::get_tip
(detail.hpp).  The stubs' skeleton
    if constexpr (Policy::template has_facet<policy::error_handler>) {
        resolution_error error; error.status = S; error.method_name = fn.name; error.arity = A;
        type_id types[N]; auto ti_iter = types; (..., (detail::get_tip<Policy, A>(args, ti_iter)));
        std::copy_n(types, K, &error.types[0]); Policy::error(error_type(std::move(error)));
    }
    abort();
is matched on the AST (translators/_minicpp.py) and S, A, N, K are lowered; get_tip's body is lowered statement by statement
into the language of coq/Model/MiniErr.v.  Anything else is refused (exit 3).  Proofs/ErrSource.v proves the record built
equal to Model.Errors.make_error.
"""
import os, re, sys

sys.path.insert(0, os.path.dirname(os.path.abspath(__file__)))
sys.path.insert(0, os.path.join(os.path.dirname(os.path.abspath(__file__)), '..', 'tools'))
import vlib
import _minicpp as mc

REPO = os.environ.get('VERIF_REPO', '/repo')
CORE = os.path.join(REPO, 'include/yorel/yomm2/core.hpp')
DETAIL = os.path.join(REPO, 'include/yorel/yomm2/detail.hpp')
METHOD = r'method\s*<\s*Key\s*,\s*R\s*\(\s*A\s*\.\.\.\s*\)\s*,\s*Policy\s*>\s*::\s*'


def die(msg):
    sys.stderr.write('errhandlers.py: ' + msg + '\n')
    print('errhandlers.py: ' + msg)
    sys.exit(3)


def norm(t):
    return re.sub(r'\s+', '', t)


def cnt(e, name):
    if e == ('id', 'arity'):
        return 'CArity'
    if e == ('id', 'resolution_error::max_types'):
        return 'CMaxTypes'
    if e == ('sizeofpack', 'args'):
        return 'CNumArgs'
    if e[0] == 'call' and e[1] == ('id', 'std::min') and len(e[2]) == 2:
        return '(CMin %s %s)' % (cnt(e[2][0], name), cnt(e[2][1], name))
    raise mc.Unsupported('%s: count expression not in the subset: %s' % (name, mc.show(e)))


def stub(src, name):
    params, body, line = mc.find_function(src, METHOD + name + r'\b', name)
    if norm(params) != 'detail::remove_virtual<A>...args':
        raise mc.Unsupported('%s: parameter list changed: %s' % (name, params))
    ast = mc.parse_function_body(body, ('has_facet', 'get_tip'))
    st = [x for x in ast[1] if x != ('using',)]
    # a stub that delegates to a helper  `helper(<status>, args...)`  shared by the two stubs: the helper's body is inlined,
    # its first parameter standing for the status passed
    if st and st[0][0] == 'expr' and st[0][1][0] == 'call' and st[0][1][1][0] == 'id' and len(st[0][1][2]) == 2 \
            and st[0][1][2][1] == ('pack', ('id', 'args')) and st[0][1][1][1] not in ('abort', 'Policy::error'):
        hname = st[0][1][1][1]
        hparams, hbody, _ = mc.find_function(src, METHOD + re.escape(hname) + r'\b', hname)
        pm = re.fullmatch(r'resolution_error::status_type(\w+),constArgType&\.\.\.args', norm(hparams))
        if not pm:
            raise mc.Unsupported('%s: helper %s has an unexpected parameter list: %s' % (name, hname, hparams))
        hast = mc.parse_function_body(hbody, ('has_facet', 'get_tip'))

        def subst(e):
            if e == ('id', pm.group(1)):
                return st[0][1][2][0]
            if isinstance(e, tuple):
                return tuple(subst(x) for x in e)
            if isinstance(e, list):
                return [subst(x) for x in e]
            return e
        inl = [subst(x) for x in hast[1] if x != ('using',) and not (x[0] == 'expr' and x[1][0] == 'call' and x[1][1] == ('id', 'static_assert'))]
        st = inl + st[1:]
    if not (len(st) == 2 and st[0][0] == 'if' and st[0][1] and st[0][4] is None and st[1] == ('expr', ('call', ('id', 'abort'), []))
            and st[0][2] == ('tmpl', 'Policy::has_facet', ['policy :: error_handler'])):
        raise mc.Unsupported('%s: no longer `if constexpr (has_facet<error_handler>) {...} abort();`: %s' % (name, mc.show(st)))
    b = [x for x in st[0][3][1] if x != ('using',)]
    f = {}
    want_kinds = ['decl error', 'status', 'method_name', 'arity', 'buffer', 'iter', 'fold', 'copy', 'report']
    if len(b) != 9:
        raise mc.Unsupported('%s: the guarded block has %d statements, expected %d (%s)' % (name, len(b), len(want_kinds), ', '.join(want_kinds)))
    if b[0] != ('decl', 'resolution_error', [('error', None)]):
        raise mc.Unsupported('%s: the record is no longer a local `resolution_error error;` (a shared record would be visible to other calls): %s' % (name, mc.show(b[0])))

    def field(s, fld):
        if s[0] == 'expr' and s[1][0] == 'assign' and s[1][1] == '=' and s[1][2] == ('member', ('id', 'error'), fld, False):
            return s[1][3]
        raise mc.Unsupported('%s: expected `error.%s = ...;`: %s' % (name, fld, mc.show(s)))
    stat = field(b[1], 'status')
    if stat not in (('id', 'resolution_error::no_definition'), ('id', 'resolution_error::ambiguous')):
        raise mc.Unsupported('%s: status is not one of the two resolution_error codes: %s' % (name, mc.show(stat)))
    if field(b[2], 'method_name') != ('member', ('id', 'fn'), 'name', False):
        raise mc.Unsupported('%s: method_name is no longer fn.name' % name)
    arity = cnt(field(b[3], 'arity'), name)
    if not (b[4][0] == 'decl' and b[4][1] == 'type_id' and len(b[4][2]) == 1 and b[4][2][0][0] == 'types' and b[4][2][0][1] and b[4][2][0][1][0] == 'array'):
        raise mc.Unsupported('%s: the ids are no longer collected in a local array `type_id types[...]`: %s' % (name, mc.show(b[4])))
    size = b[4][2][0][1][1]
    buf = {'sizeof...(args)': 'CNumArgs', 'arity': 'CArity', 'resolution_error::max_types': 'CMaxTypes'}.get(size)
    if buf is None:
        raise mc.Unsupported('%s: size of the local array not understood: %s' % (name, size))
    if b[5] != ('decl', 'auto', [('ti_iter', ('id', 'types'))]):
        raise mc.Unsupported('%s: `auto ti_iter = types;` expected: %s' % (name, mc.show(b[5])))
    want_fold = ('expr', ('fold', ',', ('call', ('tmpl', 'detail::get_tip', ['Policy', 'A']), [('id', 'args'), ('id', 'ti_iter')])))
    if b[6] != want_fold:
        raise mc.Unsupported('%s: the fold of detail::get_tip<Policy, A>(args, ti_iter) over the arguments changed: %s' % (name, mc.show(b[6])))
    c = b[7]
    if not (c[0] == 'expr' and c[1][0] == 'call' and c[1][1] == ('id', 'std::copy_n') and len(c[1][2]) == 3 and c[1][2][0] == ('id', 'types')
            and c[1][2][2] == ('un', '&', ('index', ('member', ('id', 'error'), 'types', False), ('num', 0)))):
        raise mc.Unsupported('%s: the ids are no longer copied with std::copy_n(types, k, &error.types[0]): %s' % (name, mc.show(c)))
    copied = cnt(c[1][2][1], name)
    if b[8] != ('expr', ('call', ('id', 'Policy::error'), [('call', ('id', 'error_type'), [('call', ('id', 'std::move'), [('id', 'error')])])])):
        raise mc.Unsupported('%s: the record is no longer handed to Policy::error(error_type(std::move(error))): %s' % (name, mc.show(b[8])))
    return '{| sb_status := %s; sb_arity := %s; sb_buffer := %s; sb_copied := %s |}' % (
        'SNoDefinition' if stat[1].endswith('no_definition') else 'SAmbiguous', arity, buf, copied)


def tip(dsrc):
    params, body, line = mc.find_function(dsrc, r'\binline\s+void\s+get_tip\b', 'get_tip')
    if norm(params) != 'constT&arg,type_id*&ti_iter':
        raise mc.Unsupported('get_tip: parameter list changed: ' + params)
    ast = mc.parse_function_body(body, ('is_virtual_ptr', 'is_virtual', 'virtual_traits'))
    push = ('un', '*', ('post', '++', ('id', 'ti_iter')))

    def s(st):
        k = st[0]
        if k == 'block':
            out = [s(x) for x in st[1] if x != ('using',)]
            out = [x for x in out if x != 'TSkip']
            if not out:
                return 'TSkip'
            r = out[-1]
            for x in reversed(out[:-1]):
                r = '(TSeq %s %s)' % (x, r)
            return r
        if k == 'if' and st[1]:
            c = st[2]
            if c == ('tmpl', 'is_virtual_ptr', ['ArgType']):
                cc = 'TCIsVirtualPtr'
            elif c == ('scoped', ('tmpl', 'is_virtual', ['ArgType']), 'value'):
                cc = 'TCIsVirtual'
            else:
                raise mc.Unsupported('get_tip: condition not in the subset: ' + mc.show(c))
            return '(TIfc %s %s %s)' % (cc, s(st[3]), s(st[4]) if st[4] else 'TSkip')
        if k == 'expr' and st[1][0] == 'assign' and st[1][1] == '=' and st[1][2] == push:
            r = st[1][3]
            if r == ('call', ('id', 'Policy::dynamic_type'), [('un', '*', ('id', 'arg'))]):
                return 'TPushDeref'
            if r == ('call', ('id', 'Policy::dynamic_type'), [('call', ('scoped', ('tmpl', 'virtual_traits', ['Policy', 'ArgType']), 'rarg'), [('id', 'arg')])]):
                return 'TPushRarg'
        raise mc.Unsupported('get_tip: statement not in the subset: ' + mc.show(st))
    return s(ast)


def main():
    try:
        core = mc.strip_comments(open(CORE).read())
        det = mc.strip_comments(open(DETAIL).read())
    except OSError as e:
        die('cannot read the headers: %s' % e)
    # sizeof...(args) inside expressions: make it one token the parser returns as ('sizeofpack', 'args')
    try:
        ni = stub(core, 'not_implemented_handler')
        am = stub(core, 'ambiguous_handler')
        tp = tip(det)
    except mc.Unsupported as e:
        die(str(e))
    text = ('(* GENERATED by translators/errhandlers.py from %s and %s - do not edit.\n'
            '   method::not_implemented_handler, method::ambiguous_handler and detail::get_tip, in the language of Model/MiniErr.v. *)\n'
            'From Y2 Require Import Model.MiniErr.\n\n'
            'Definition gen_not_implemented : stub := %s.\n\nDefinition gen_ambiguous : stub := %s.\n\nDefinition gen_get_tip : tipstmt :=\n  %s.\n'
            % (CORE, DETAIL, ni, am, tp))
    vlib.write_if_changed(os.path.join(vlib.COQ, 'Gen', 'GenErr.v'), text)


if __name__ == '__main__':
    main()
