#!/usr/bin/env python3
"""/repo/include/yorel/yomm2/core.hpp + detail.hpp  ->  coq/Gen/GenErr.v      (property C02: the resolution_error record)

Source-to-Gallina translation of method::not_implemented_handler, method::ambiguous_handler (core.hpp) and detail::get_tip
(detail.hpp).  The stubs' skeleton
    if constexpr (Policy::template has_facet<policy::error_handler>) {
        resolution_error error; error.status = S; error.method_name = fn.name; error.arity = A;
        type_id types[N]; auto ti_iter = types; (..., (detail::get_tip<Policy, A>(args, ti_iter)));
        std::copy_n(types, K, &error.types[0]); Policy::error(error_type(std::move(error)));
    }
    abort();
is matched on the AST (translators/_minicpp.py) and S, A, N, K are lowered; get_tip's body is lowered statement by statement
into the language of coq/Model/MiniErr.v.  Anything else is refused (exit 3).  Proofs/ErrSource.v proves the record built
equal to Model.Errors.make_error.
"""
import os, re, sys

sys.path.insert(0, os.path.dirname(os.path.abspath(__file__)))
sys.path.insert(0, os.path.join(os.path.dirname(os.path.abspath(__file__)), '..', 'tools'))
import vlib
import _minicpp as mc

REPO = os.environ.get('VERIF_REPO', '/repo')
CORE = os.path.join(REPO, 'include/yorel/yomm2/core.hpp')
DETAIL = os.path.join(REPO, 'include/yorel/yomm2/detail.hpp')
METHOD = r'method\s*<\s*Key\s*,\s*R\s*\(\s*A\s*\.\.\.\s*\)\s*,\s*Policy\s*>\s*::\s*'


def die(msg):
    sys.stderr.write('errhandlers.py: ' + msg + '\n')
    print('errhandlers.py: ' + msg)
    sys.exit(3)


def norm(t):
    return re.sub(r'\s+', '', t)


def cnt(e, name):
    if e == ('id', 'arity'):
        return 'CArity'
    if e == ('id', 'resolution_error::max_types'):
        return 'CMaxTypes'
    if e == ('sizeofpack', 'args'):
        return 'CNumArgs'
    if e[0] == 'call' and e[1] == ('id', 'std::min') and len(e[2]) == 2:
        return '(CMin %s %s)' % (cnt(e[2][0], name), cnt(e[2][1], name))
    raise mc.Unsupported('%s: count expression not in the subset: %s' % (name, mc.show(e)))


def stub(src, name):
    params, body, line = mc.find_function(src, METHOD + name + r'\b', name)
    if norm(params) != 'detail::remove_virtual<A>...args':
        raise mc.Unsupported('%s: parameter list changed: %s' % (name, params))
    ast = mc.parse_function_body(body, ('has_facet', 'get_tip'))
    st = [x for x in ast[1] if x != ('using',)]
    # a stub that delegates to a helper  `helper(<status>, args...)`  shared by the two stubs: the helper's body is inlined,
    # its first parameter standing for the status passed
    if st and st[0][0] == 'expr' and st[0][1][0] == 'call' and st[0][1][1][0] == 'id' and len(st[0][1][2]) == 2 \
            and st[0][1][2][1] == ('pack', ('id', 'args')) and st[0][1][1][1] not in ('abort', 'Policy::error'):
        hname = st[0][1][1][1]
        hparams, hbody, _ = mc.find_function(src, METHOD + re.escape(hname) + r'\b', hname)
        pm = re.fullmatch(r'resolution_error::status_type(\w+),constArgType&\.\.\.args', norm(hparams))
        if not pm:
            raise mc.Unsupported('%s: helper %s has an unexpected parameter list: %s' % (name, hname, hparams))
        hast = mc.parse_function_body(hbody, ('has_facet', 'get_tip'))

        def subst(e):
            if e == ('id', pm.group(1)):
                return st[0][1][2][0]
            if isinstance(e, tuple):
                return tuple(subst(x) for x in e)
            if isinstance(e, list):
                return [subst(x) for x in e]
            return e
        inl = [subst(x) for x in hast[1] if x != ('using',) and not (x[0] == 'expr' and x[1][0] == 'call' and x[1][1] == ('id', 'static_assert'))]
        st = inl + st[1:]
    if not (len(st) == 2 and st[0][0] == 'if' and st[0][1] and st[0][4] is None and st[1] == ('expr', ('call', ('id', 'abort'), []))
            and st[0][2] == ('tmpl', 'Policy::has_facet', ['policy :: error_handler'])):
        raise mc.Unsupported('%s: no longer `if constexpr (has_facet<error_handler>) {...} abort();`: %s' % (name, mc.show(st)))
    b = [x for x in st[0][3][1] if x != ('using',)]
    # const / constexpr locals that name a count are substituted
    consts = {}

    def sub(e):
        if isinstance(e, tuple):
            if len(e) == 2 and e[0] == 'id' and e[1] in consts:
                return consts[e[1]]
            return tuple(sub(x) for x in e)
        if isinstance(e, list):
            return [sub(x) for x in e]
        return e
    # statement by statement, in any order that respects the data flow
    facts = {}
    order = []
    itv = None
    for x in b:
        x = sub(x)
        if x == ('decl', 'resolution_error', [('error', None)]):
            kind = 'decl error'
        elif x[0] == 'expr' and x[1][0] == 'assign' and x[1][1] == '=' and x[1][2][0] == 'member' and x[1][2][1] == ('id', 'error') and x[1][2][2] in ('status', 'method_name', 'arity'):
            kind = x[1][2][2]
            facts[kind] = x[1][3]
        elif x[0] == 'decl' and x[1] == 'type_id' and len(x[2]) == 1 and x[2][0][0] == 'types' and x[2][0][1] and x[2][0][1][0] == 'array':
            kind = 'buffer'
            facts['buffer'] = x[2][0][1][1]
        elif x[0] == 'decl' and len(x[2]) == 1 and x[2][0][1] == ('id', 'types') and re.sub(r'\s', '', x[1]) in ('auto', 'type_id*'):
            kind = 'iter'
            itv = x[2][0][0]
        elif itv and x == ('expr', ('fold', ',', ('call', ('tmpl', 'detail::get_tip', ['Policy', 'A']), [('id', 'args'), ('id', itv)]))):
            kind = 'fold'
        elif (x[0] == 'expr' and x[1][0] == 'call' and x[1][1] == ('id', 'std::copy_n') and len(x[1][2]) == 3 and x[1][2][0] == ('id', 'types')
              and x[1][2][2] == ('un', '&', ('index', ('member', ('id', 'error'), 'types', False), ('num', 0)))):
            kind = 'copy'
            facts['copied'] = x[1][2][1]
        elif (x[0] == 'for' and x[1] and x[1][0] == 'decl' and len(x[1][2]) == 1 and x[1][2][0][1] == ('num', 0) and x[2] and x[2][0] == 'bin'
              and x[2][1] in ('!=', '<') and x[2][2] == ('id', x[1][2][0][0]) and x[3] == ('un', '++', ('id', x[1][2][0][0]))
              and [t for t in (x[4][1] if x[4][0] == 'block' else [x[4]]) if t != ('using',)]
              == [('expr', ('assign', '=', ('index', ('member', ('id', 'error'), 'types', False), ('id', x[1][2][0][0])), ('index', ('id', 'types'), ('id', x[1][2][0][0]))))]):
            # for (i = 0; i != K; ++i) error.types[i] = types[i];   copies the same K elements as std::copy_n(types, K, &error.types[0])
            kind = 'copy'
            facts['copied'] = x[2][3]
        elif x == ('expr', ('call', ('id', 'Policy::error'), [('call', ('id', 'error_type'), [('call', ('id', 'std::move'), [('id', 'error')])])])):
            kind = 'report'
        elif (x[0] == 'decl' and len(x[2]) == 1 and x[2][0][1] is not None and x[1].split()[0] in ('const', 'constexpr') and x[2][0][1][0] != 'lambda'):
            consts[x[2][0][0]] = x[2][0][1]
            continue
        else:
            if x[0] == 'decl' and 'resolution_error' in x[1]:
                raise mc.Unsupported('%s: the record is no longer a local `resolution_error error;` (a shared record would be visible to other calls): %s' % (name, mc.show(x)))
            raise mc.Unsupported('%s: statement of the guarded block not in the subset: %s' % (name, mc.show(x)))
        if kind in order:
            raise mc.Unsupported('%s: `%s` done twice' % (name, kind))
        order.append(kind)
    need = ['decl error', 'status', 'method_name', 'arity', 'buffer', 'iter', 'fold', 'copy', 'report']
    if sorted(order) != sorted(need):
        raise mc.Unsupported('%s: the guarded block no longer does exactly: %s (found: %s)' % (name, ', '.join(need), ', '.join(order)))
    pos = {k: i for i, k in enumerate(order)}
    for before, after in (('decl error', 'status'), ('decl error', 'method_name'), ('decl error', 'arity'), ('decl error', 'copy'), ('buffer', 'iter'), ('iter', 'fold'),
                          ('fold', 'copy'), ('copy', 'report'), ('status', 'report'), ('method_name', 'report'), ('arity', 'report')):
        if pos[before] > pos[after]:
            raise mc.Unsupported('%s: `%s` now comes after `%s`' % (name, before, after))
    stat = facts['status']
    if stat not in (('id', 'resolution_error::no_definition'), ('id', 'resolution_error::ambiguous')):
        raise mc.Unsupported('%s: status is not one of the two resolution_error codes: %s' % (name, mc.show(stat)))
    if facts['method_name'] != ('member', ('id', 'fn'), 'name', False):
        raise mc.Unsupported('%s: method_name is no longer fn.name' % name)
    arity = cnt(facts['arity'], name)
    buf = {'sizeof...(args)': 'CNumArgs', 'arity': 'CArity', 'resolution_error::max_types': 'CMaxTypes'}.get(facts['buffer'])
    if buf is None:
        raise mc.Unsupported('%s: size of the local array not understood: %s' % (name, facts['buffer']))
    copied = cnt(facts['copied'], name)
    return '{| sb_status := %s; sb_arity := %s; sb_buffer := %s; sb_copied := %s |}' % (
        'SNoDefinition' if stat[1].endswith('no_definition') else 'SAmbiguous', arity, buf, copied)


def tip(dsrc):
    params, body, line = mc.find_function(dsrc, r'\binline\s+void\s+get_tip\b', 'get_tip')
    if norm(params) != 'constT&arg,type_id*&ti_iter':
        raise mc.Unsupported('get_tip: parameter list changed: ' + params)
    ast = mc.parse_function_body(body, ('is_virtual_ptr', 'is_virtual', 'virtual_traits'))
    push = ('un', '*', ('post', '++', ('id', 'ti_iter')))

    def s(st):
        k = st[0]
        if k == 'block':
            sts = [x for x in st[1] if x != ('using',)]
            # const T v = e;  *ti_iter = v;  ++ti_iter;      is      *ti_iter++ = e;
            env = {}
            norm_sts = []
            for x in sts:
                if x[0] == 'decl' and len(x[2]) == 1 and x[2][0][1] is not None and x[1].split()[0] == 'const':
                    env[x[2][0][0]] = x[2][0][1]
                    continue
                norm_sts.append(x)

            def sub(e):
                if isinstance(e, tuple):
                    if len(e) == 2 and e[0] == 'id' and e[1] in env:
                        return env[e[1]]
                    return tuple(sub(y) for y in e)
                if isinstance(e, list):
                    return [sub(y) for y in e]
                return e
            norm_sts = [sub(x) for x in norm_sts]
            merged = []
            i = 0
            while i < len(norm_sts):
                x = norm_sts[i]
                if (x[0] == 'expr' and x[1][0] == 'assign' and x[1][1] == '=' and x[1][2] == ('un', '*', ('id', 'ti_iter')) and i + 1 < len(norm_sts)
                        and norm_sts[i + 1] in (('expr', ('un', '++', ('id', 'ti_iter'))), ('expr', ('post', '++', ('id', 'ti_iter'))))):
                    merged.append(('expr', ('assign', '=', push, x[1][3])))
                    i += 2
                    continue
                merged.append(x)
                i += 1
            out = [s(x) for x in merged]
            out = [x for x in out if x != 'TSkip']
            if not out:
                return 'TSkip'
            r = out[-1]
            for x in reversed(out[:-1]):
                r = '(TSeq %s %s)' % (x, r)
            return r
        if k == 'if' and st[1]:
            c = st[2]
            if c == ('tmpl', 'is_virtual_ptr', ['ArgType']):
                cc = 'TCIsVirtualPtr'
            elif c == ('scoped', ('tmpl', 'is_virtual', ['ArgType']), 'value'):
                cc = 'TCIsVirtual'
            else:
                raise mc.Unsupported('get_tip: condition not in the subset: ' + mc.show(c))
            return '(TIfc %s %s %s)' % (cc, s(st[3]), s(st[4]) if st[4] else 'TSkip')
        if k == 'expr' and st[1][0] == 'assign' and st[1][1] == '=' and st[1][2] == push:
            r = st[1][3]
            if r == ('call', ('id', 'Policy::dynamic_type'), [('un', '*', ('id', 'arg'))]):
                return 'TPushDeref'
            if r == ('call', ('id', 'Policy::dynamic_type'), [('call', ('scoped', ('tmpl', 'virtual_traits', ['Policy', 'ArgType']), 'rarg'), [('id', 'arg')])]):
                return 'TPushRarg'
        raise mc.Unsupported('get_tip: statement not in the subset: ' + mc.show(st))
    return s(ast)


def main():
    try:
        core = mc.strip_comments(open(CORE).read())
        det = mc.strip_comments(open(DETAIL).read())
    except OSError as e:
        die('cannot read the headers: %s' % e)
    # sizeof...(args) inside expressions: make it one token the parser returns as ('sizeofpack', 'args')
    try:
        ni = stub(core, 'not_implemented_handler')
        am = stub(core, 'ambiguous_handler')
        tp = tip(det)
    except mc.Unsupported as e:
        die(str(e))
    text = ('(* GENERATED by translators/errhandlers.py from %s and %s - do not edit.\n'
            '   method::not_implemented_handler, method::ambiguous_handler and detail::get_tip, in the language of Model/MiniErr.v. *)\n'
            'From Y2 Require Import Model.MiniErr.\n\n'
            'Definition gen_not_implemented : stub := %s.\n\nDefinition gen_ambiguous : stub := %s.\n\nDefinition gen_get_tip : tipstmt :=\n  %s.\n'
            % (CORE, DETAIL, ni, am, tp))
    vlib.write_if_changed(os.path.join(vlib.COQ, 'Gen', 'GenErr.v'), text)


if __name__ == '__main__':
    main()
