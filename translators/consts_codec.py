#!/usr/bin/env python3
"""/repo source text -> coq/Gen/GenCodecConsts.v

Constants of the dispatch-data codec and of the static-offset generator (properties C12, C13), read from the
CURRENT text of
  include/yorel/yomm2/decode.hpp      stop_bit / index_bit, the decoded cell type
  include/yorel/yomm2/generator.hpp   decode_size / encode_size, the layout of the emitted struct, the index
                                      expressions of write_static_offsets and of the headroom computation
  include/yorel/yomm2/core.hpp        the index expressions of the debug cross-check (check_static_offset)
with anchored regular expressions.  The numeric definitions are what the theorems are stated over; the shape
anchors make the check fail (exit status != 0, naming the pattern) when a loop or an index expression the
Gallina model mirrors has been rewritten: the model then has to be re-read against the source.
"""
import os, re, struct, sys

sys.path.insert(0, os.path.join(os.path.dirname(os.path.abspath(__file__)), '..', 'tools'))
import vlib

REPO = os.environ.get('VERIF_REPO', '/repo')
DEC = os.path.join(REPO, 'include/yorel/yomm2/decode.hpp')
GEN = os.path.join(REPO, 'include/yorel/yomm2/generator.hpp')
CORE = os.path.join(REPO, 'include/yorel/yomm2/core.hpp')

SIZEOF = {'uint16_t': 2, 'std::uint16_t': 2, 'uintptr_t': struct.calcsize('P'), 'std::uintptr_t': struct.calcsize('P')}


def die(msg):
    sys.stderr.write('consts_codec.py: ' + msg + '\n')
    sys.exit(3)


def read(path):
    try:
        return open(path).read()
    except OSError as e:
        die('cannot read %s: %s' % (path, e))


def strip_comments(s):
    s = re.sub(r'/\*.*?\*/', ' ', s, flags=re.S)
    return re.sub(r'//[^\n]*', '', s)


def one(name, pattern, text, path, count=1):
    ms = list(re.finditer(pattern, text, re.M))
    if len(ms) != count:
        die('pattern %s matches %d time(s), expected %d, in %s; regex: %s' % (name, len(ms), count, path, pattern))
    gs = set(m.groups() for m in ms)
    if len(gs) != 1:
        die('pattern %s matches with different values %s in %s' % (name, sorted(gs), path))
    return ms[0].groups()


def main():
    d = strip_comments(read(DEC))
    g = strip_comments(read(GEN))
    c = strip_comments(read(CORE))

    # ---- decode.hpp: the two marker bits
    ty, bits_per_byte, minus = one('stop_bit',
                                   r'^constexpr std::uint16_t stop_bit = 1 << \(sizeof\((\w+)\) \* (\d+) - (\d+)\);', d, DEC)
    if ty not in SIZEOF:
        die('pattern stop_bit: unknown type %s' % ty)
    stop_shift = SIZEOF[ty] * int(bits_per_byte) - int(minus)
    (ishift,) = one('index_bit', r'^constexpr std::uint16_t index_bit = stop_bit >> (\d+);', d, DEC)
    # the decoder's loop shapes (the model mirrors them)
    one('decode_while', r'^\s*\*cls\.static_vptr = decode_iter - first_slot;\s*\n\s*while \(!last\) \{', d, DEC)
    one('decode_fetch', r'auto code = \*encode_iter\+\+;\s*\n\s*last = code & stop_bit;\s*\n\s*return code & ~stop_bit;', d, DEC)
    one('decode_fetch_assert', r'BOOST_ASSERT\(\(char\*\)\(encode_iter \+ 1\) >= \(char\*\)decode_iter\);', d, DEC)
    one('decode_index_test', r'if \(code & index_bit\) \{\s*\n\s*auto index = code & ~index_bit;', d, DEC)
    one('decode_skip_done', r'if \(\*cls\.static_vptr != nullptr\) \{\s*\n\s*continue;', d, DEC)
    one('decode_specs_tail', r'\*specs\+\+ = \(uintptr_t\)method\.ambiguous;\s*\n\s*\*specs\+\+ = \(uintptr_t\)method\.not_implemented;', d, DEC)
    one('decode_dtbl_loop', r'while \(more\) \{\s*\n\s*more = !\(\*dtbl_iter & stop_bit\);\s*\n\s*auto spec_index = \*dtbl_iter & ~stop_bit;', d, DEC)
    one('decode_publish_once', r'return r\.info->type == cls\.type;', d, DEC)
    one('decode_publish_records', r'Policy::publish_vptrs\(records\.begin\(\), records\.end\(\)\);', d, DEC)
    one('decode_ss_count', r'auto slots_strides_count = 2 \* method\.arity\(\) - 1;', d, DEC)

    # ---- generator.hpp: cell sizes and the emitted struct
    (dty,) = one('decode_size', r'^\s*const auto decode_size = sizeof\((\w+)\);', g, GEN)
    (ety,) = one('encode_size', r'^\s*const auto encode_size = sizeof\((\w+)\);', g, GEN)
    if dty not in SIZEOF or ety not in SIZEOF:
        die('pattern decode_size/encode_size: unknown type %s / %s' % (dty, ety))
    one('struct_layout',
        r'static struct \{\s*\n\s*union \{\s*\n\s*struct \{\s*\n\s*uint16_t headroom\[%d\];\s*\n\s*uint16_t slots\[%d\];\s*\n\s*uint16_t vtbls\[%d\];\s*\n'
        r'\s*\} encoded;\s*\n\s*std::uintptr_t vtbls\[%d\];\s*\n\s*\};\s*\n\s*std::uintptr_t dtbls\[%d\];\s*\n\s*\} yomm2_dispatch_data = \{ \{ \{ \{\}, \{', g, GEN)
    one('headroom_expr',
        r'const auto headroom = decode_lead > slots_and_strides_size\s*\n\s*\? decode_lead - slots_and_strides_size\s*\n\s*: 1;', g, GEN)
    one('lead_expr',
        r'const auto decoded_cells =\s*\n\s*decode_vtbl_size \* decode_size / encode_size;\s*\n\s*if \(decoded_cells > encode_vtbl_size\) \{\s*\n'
        r'\s*decode_lead =\s*\n\s*\(std::max\)\(decode_lead, decoded_cells - encode_vtbl_size\);', g, GEN)
    one('sizes_printed',
        r'int\(headroom\),\s*\n\s*int\(slots_and_strides_size\), int\(encode_vtbl_size\),\s*\n\s*int\(\(std::max\)\(decode_vtbl_size, std::size_t\(1\)\)\),\s*\n'
        r'\s*int\(\(std::max\)\(dispatch_tables_size, std::size_t\(1\)\)\)\);', g, GEN)
    one('first_slot_cell', r'<< uint16_t\(cls\.first_slot \| \(cls\.vtbl\.empty\(\) \? stop_bit : 0\)\)', g, GEN)
    one('entry_stop', r'auto stop = &entry == &cls\.vtbl\.back\(\) \? stop_bit : 0;', g, GEN)
    one('entry_index_cell', r'os << uint16_t\(entry\.group_index \| index_bit \| stop\);', g, GEN)
    one('entry_spec_cell', r'os << uint16_t\(spec->spec_index \| stop\);', g, GEN)
    one('entry_group_cell', r'os << uint16_t\(entry\.group_index \| stop\);', g, GEN)
    one('dtbl_last_cell', r'\*dt_iter = \(uint16_t\)last->spec_index \| stop_bit;', g, GEN)
    # ---- generator.hpp: write_static_offsets index expressions
    one('offsets_slot0', r'os << method\.slots_strides_ptr\[0\];', g, GEN)
    (slot_ix,) = one('offsets_slots',
                     r'for \(std::size_t i = 1; i < method\.arity\(\); i\+\+\) \{\s*\n\s*os << ", " << method\.slots_strides_ptr\[([^\]]+)\];', g, GEN)
    (stride_ix,) = one('offsets_strides',
                       r'for \(std::size_t i = 1; i < method\.arity\(\); i\+\+\) \{\s*\n\s*os << comma << method\.slots_strides_ptr\[([^\]]+)\];', g, GEN)
    # ---- core.hpp: the debug cross-check
    (chk_slot_ix, chk_stride_ix) = one(
        'check_next',
        r'check_static_offset<static_slot_error>\(\s*\n\s*this->slots_strides\[([^\]]+)\], slot\);\s*\n\s*check_static_offset<static_stride_error>\(\s*\n'
        r'\s*this->slots_strides\[([^\]]+)\], stride\);', c, CORE)
    one('check_first',
        r'check_static_offset<static_slot_error>\(\s*\n\s*static_offsets<method>::slots\[0\], this->slots_strides\[0\]\);', c, CORE, count=2)
    one('check_cmp', r'if \(actual != expected\) \{', c, CORE)
    one('static_reads',
        r'slot = static_offsets<method>::slots\[VirtualArg\];\s*\n\s*stride = static_offsets<method>::strides\[VirtualArg - 1\];', c, CORE)

    # index expressions -> (coefficient of arity, coefficient of i, constant), for the forms the model knows
    def linear(name, expr, var):
        e = expr.replace(' ', '').replace('method.arity()', 'a').replace('arity', 'a').replace(var, 'i')
        forms = {'i': (0, 1, 0), 'a+i-1': (1, 1, -1), 'i*2-1': (0, 2, -1), 'i*2': (0, 2, 0), '2*i': (0, 2, 0), '2*i-1': (0, 2, -1)}
        if e not in forms:
            die('pattern %s: index expression %r is not one the model knows (%s)' % (name, expr, ', '.join(sorted(forms))))
        return forms[e]

    sa, si, sc = linear('offsets_slots', slot_ix, 'i')
    ta, ti, tc = linear('offsets_strides', stride_ix, 'i')
    ca, ci, cc = linear('check_next(slot)', chk_slot_ix, 'VirtualArg')
    da, di, dc = linear('check_next(stride)', chk_stride_ix, 'VirtualArg')

    def z(x):
        return '(%d)%%Z' % x

    out = '''(* GENERATED by translators/consts_codec.py from
     %s
     %s
     %s
   on every run of a check. Never edit, never commit. *)
From Coq Require Import NArith ZArith.
Open Scope N_scope.

(* `constexpr std::uint16_t stop_bit = 1 << (sizeof(%s) * %s - %s);` *)
Definition stop_bit : N := N.shiftl 1 %d.
(* `constexpr std::uint16_t index_bit = stop_bit >> %s;` *)
Definition index_bit : N := N.shiftr stop_bit %s.
(* cells of the emitted struct: `uint16_t` *)
Definition cell_bits : N := %d.
(* `const auto decode_size = sizeof(%s);` *)
Definition decode_size : nat := %d.
(* `const auto encode_size = sizeof(%s);` *)
Definition encode_size : nat := %d.

(* index expressions into slots_strides, as (coefficient of arity, coefficient of the loop variable, constant):
   write_static_offsets, slots loop:   slots_strides_ptr[%s]
   write_static_offsets, strides loop: slots_strides_ptr[%s]
   resolve_multi_next, slot check:     slots_strides[%s]
   resolve_multi_next, stride check:   slots_strides[%s] *)
Definition gen_slot_ix : Z * Z * Z := (%s, %s, %s).
Definition gen_stride_ix : Z * Z * Z := (%s, %s, %s).
Definition chk_slot_ix : Z * Z * Z := (%s, %s, %s).
Definition chk_stride_ix : Z * Z * Z := (%s, %s, %s).
''' % (os.path.relpath(DEC, REPO), os.path.relpath(GEN, REPO), os.path.relpath(CORE, REPO),
       ty, bits_per_byte, minus, stop_shift, ishift, ishift, SIZEOF[ty] * int(bits_per_byte),
       dty, SIZEOF[dty], ety, SIZEOF[ety],
       slot_ix, stride_ix, chk_slot_ix, chk_stride_ix,
       z(sa), z(si), z(sc), z(ta), z(ti), z(tc), z(ca), z(ci), z(cc), z(da), z(di), z(dc))
    vlib.write_if_changed(os.path.join(vlib.COQ, 'Gen', 'GenCodecConsts.v'), out)


if __name__ == '__main__':
    main()
