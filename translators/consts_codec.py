#!/usr/bin/env python3
"""/repo source text -> coq/Gen/GenCodecConsts.v

Constants of the dispatch-data codec and of the static-offset generator (properties C12, C13), read from the
CURRENT text of
  include/yorel/yomm2/decode.hpp      stop_bit / index_bit, the decoded cell type
  include/yorel/yomm2/generator.hpp   decode_size / encode_size, the layout of the emitted struct, the index
                                      expressions of write_static_offsets and of the headroom computation
  include/yorel/yomm2/core.hpp        the index expressions of the debug cross-check (check_static_offset)
with anchored regular expressions.  The numeric definitions are what the theorems are stated over; the shape
anchors make the check fail (exit status != 0, naming the pattern) when a loop or an index expression the
Gallina model mirrors has been rewritten: the model then has to be re-read against the source.
"""
import os, re, struct, sys

sys.path.insert(0, os.path.join(os.path.dirname(os.path.abspath(__file__)), '..', 'tools'))
import vlib

REPO = os.environ.get('VERIF_REPO', '/repo')
DEC = os.path.join(REPO, 'include/yorel/yomm2/decode.hpp')
GEN = os.path.join(REPO, 'include/yorel/yomm2/generator.hpp')
CORE = os.path.join(REPO, 'include/yorel/yomm2/core.hpp')

SIZEOF = {'uint16_t': 2, 'std::uint16_t': 2, 'uintptr_t': struct.calcsize('P'), 'std::uintptr_t': struct.calcsize('P')}


def die(msg):
    sys.stderr.write('consts_codec.py: ' + msg + '\n')
    sys.exit(3)


def read(path):
    try:
        return open(path).read()
    except OSError as e:
        die('cannot read %s: %s' % (path, e))


def strip_comments(s):
    s = re.sub(r'/\*.*?\*/', ' ', s, flags=re.S)
    return re.sub(r'//[^\n]*', '', s)


def one(name, pattern, text, path, count=1):
    ms = list(re.finditer(pattern, text, re.M))
    if len(ms) != count:
        die('pattern %s matches %d time(s), expected %d, in %s; regex: %s' % (name, len(ms), count, path, pattern))
    gs = set(m.groups() for m in ms)
    if len(gs) != 1:
        die('pattern %s matches with different values %s in %s' % (name, sorted(gs), path))
    return ms[0].groups()


def offsets_loops(gen_text):
    sys.path.insert(0, os.path.dirname(os.path.abspath(__file__)))
    import _minicpp as mc
    try:
        params, body, line = mc.find_function(gen_text, r'\bvoid\s+generator\s*::\s*write_static_offsets\b', 'write_static_offsets')
        if re.sub(r'\s+', '', params) != 'constdetail::method_info&method,std::ostream&os':
            raise mc.Unsupported('write_static_offsets: parameter list changed: ' + params)
        ast = mc.parse_function_body(body)
    except mc.Unsupported as e:
        die('pattern offsets (AST): ' + str(e))
    arity_names = set()
    ptr_names = set()          # locals holding method.slots_strides_ptr
    ptr_off = {}               # locals holding method.slots_strides_ptr + <offset>:  name -> offset expression

    def lin(e, var):
        """linear form {a: coefficient of arity, i: of the loop variable, c: constant} of an index expression, or die"""
        k = e[0]
        if k == 'num':
            return {'a': 0, 'i': 0, 'c': e[1]}
        if k == 'id' and e[1] == var:
            return {'a': 0, 'i': 1, 'c': 0}
        if (k == 'id' and e[1] in arity_names) or e == ('call', ('member', ('id', 'method'), 'arity', False), []):
            return {'a': 1, 'i': 0, 'c': 0}
        if k == 'bin' and e[1] in ('+', '-'):
            l, r = lin(e[2], var), lin(e[3], var)
            sg = 1 if e[1] == '+' else -1
            return {x: l[x] + sg * r[x] for x in 'aic'}
        if k == 'bin' and e[1] == '*':
            l, r = lin(e[2], var), lin(e[3], var)
            for u, v in ((l, r), (r, l)):
                if u['a'] == 0 and u['i'] == 0:
                    return {x: u['c'] * v[x] for x in 'aic'}
        die('pattern offsets (AST): index expression not linear in (arity, %s): %s' % (var, mc.show(e)))

    def find_index(node):
        """the index expressions of every method.slots_strides_ptr[...] inside node"""
        out = []
        if isinstance(node, tuple):
            if node and node[0] == 'index' and (node[1] == ('member', ('id', 'method'), 'slots_strides_ptr', False)
                                                or (node[1][0] == 'id' and node[1][1] in ptr_names)):
                out.append(node[2])
            elif node and node[0] == 'index' and node[1][0] == 'id' and node[1][1] in ptr_off:
                out.append(('bin', '+', ptr_off[node[1][1]], node[2]))          # (p + k)[e] is p[k + e]
            for x in node:
                out += find_index(x)
        elif isinstance(node, list):
            for x in node:
                out += find_index(x)
        return out

    top = [x for x in ast[1] if x != ('using',)]
    loops = []
    first_reads = []

    def walk(stmts, in_if):
        for st in stmts:
            if st[0] == 'decl' and len(st[2]) == 1 and st[2][0][1] == ('call', ('member', ('id', 'method'), 'arity', False), []):
                arity_names.add(st[2][0][0])
                continue
            if st[0] == 'decl' and len(st[2]) == 1 and st[2][0][1] == ('member', ('id', 'method'), 'slots_strides_ptr', False):
                ptr_names.add(st[2][0][0])
                continue
            PTR = ('member', ('id', 'method'), 'slots_strides_ptr', False)
            if (st[0] == 'decl' and len(st[2]) == 1 and st[2][0][1] is not None and st[2][0][1][0] == 'bin' and st[2][0][1][1] == '+'
                    and (st[2][0][1][2] == PTR or (st[2][0][1][2][0] == 'id' and st[2][0][1][2][1] in ptr_names)) and st[1].replace(' ', '').startswith('const')):
                ptr_off[st[2][0][0]] = st[2][0][1][3]
                continue
            if st[0] == 'for':
                loops.append((st, in_if))
            elif st[0] == 'if' and not st[1]:
                c = st[2]
                ok = c[0] == 'bin' and c[1] == '>' and lin(c[2], '?') == {'a': 1, 'i': 0, 'c': 0} and c[3] == ('num', 1)
                if not ok or st[4] is not None:
                    die('pattern offsets (AST): the guard of the multi-method part is no longer `if (arity > 1)` without else: ' + mc.show(c))
                walk(st[3][1] if st[3][0] == 'block' else [st[3]], True)
            elif st[0] == 'block':
                walk(st[1], in_if)
            else:
                if not in_if:
                    first_reads.extend(find_index(st))
    walk(top, False)
    if first_reads != [('num', 0)]:
        die('pattern offsets (AST): outside the loops exactly slots_strides_ptr[0] must be printed, found %s' % mc.show(first_reads))
    if len(loops) != 2 or not all(inif for _, inif in loops):
        die('pattern offsets (AST): expected two loops under `if (arity > 1)`, found %d' % len(loops))
    forms, texts = [], []
    for st, _ in loops:
        init, cond, step, bodyst = st[1], st[2], st[3], st[4]
        if not (init and init[0] == 'decl' and len(init[2]) == 1 and init[2][0][1] is not None):
            die('pattern offsets (AST): loop without `T i = <start>`: ' + mc.show(init))
        var = init[2][0][0]
        if not (cond and cond[0] == 'bin' and cond[1] == '<' and cond[2] == ('id', var)):
            die('pattern offsets (AST): loop condition is not `%s < <end>`: %s' % (var, mc.show(cond)))
        if step not in (('post', '++', ('id', var)), ('un', '++', ('id', var))):
            die('pattern offsets (AST): loop step is not ++%s: %s' % (var, mc.show(step)))
        A, B = lin(init[2][0][1], var), lin(cond[3], var)
        if A['i'] or B['i']:
            die('pattern offsets (AST): loop bounds mention the loop variable')
        if (B['a'] - A['a'], B['c'] - A['c']) != (1, -1):
            die('pattern offsets (AST): the loop does not make arity - 1 iterations (from %r to %r)' % (A, B))
        idx = find_index(bodyst)
        if len(idx) != 1:
            die('pattern offsets (AST): a loop body must print exactly one slots_strides_ptr element, found %d' % len(idx))
        E = lin(idx[0], var)
        # i = i' + (A - 1):  E'(i') = E.a * arity + E.i * (i' + A.a * arity + A.c - 1) + E.c
        forms.append((E['a'] + E['i'] * A['a'], E['i'], E['c'] + E['i'] * (A['c'] - 1)))
        texts.append('%s for %s in [%s, %s)' % (mc.show(idx[0]), var, mc.show(init[2][0][1]), mc.show(cond[3])))
    return forms[0], forms[1], texts[0], texts[1]


def main():
    d = strip_comments(read(DEC))
    g = strip_comments(read(GEN))
    c = strip_comments(read(CORE))

    # ---- decode.hpp: the two marker bits
    ty, bits_per_byte, minus = one('stop_bit',
                                   r'^constexpr std::uint16_t stop_bit = 1 << \(sizeof\((\w+)\) \* (\d+) - (\d+)\);', d, DEC)
    if ty not in SIZEOF:
        die('pattern stop_bit: unknown type %s' % ty)
    stop_shift = SIZEOF[ty] * int(bits_per_byte) - int(minus)
    (ishift,) = one('index_bit', r'^constexpr std::uint16_t index_bit = stop_bit >> (\d+);', d, DEC)
    # the decoder's control flow is translated (translators/decoder.py -> Gen/GenDec.v), not anchored here

    # ---- generator.hpp: cell sizes and the emitted struct
    (dty,) = one('decode_size', r'^\s*const auto decode_size = sizeof\((\w+)\);', g, GEN)
    (ety,) = one('encode_size', r'^\s*const auto encode_size = sizeof\((\w+)\);', g, GEN)
    if dty not in SIZEOF or ety not in SIZEOF:
        die('pattern decode_size/encode_size: unknown type %s / %s' % (dty, ety))
    one('struct_layout',
        r'static struct \{\s*\n\s*union \{\s*\n\s*struct \{\s*\n\s*uint16_t headroom\[%d\];\s*\n\s*uint16_t slots\[%d\];\s*\n\s*uint16_t vtbls\[%d\];\s*\n'
        r'\s*\} encoded;\s*\n\s*std::uintptr_t vtbls\[%d\];\s*\n\s*\};\s*\n\s*std::uintptr_t dtbls\[%d\];\s*\n\s*\} yomm2_dispatch_data = \{ \{ \{ \{\}, \{', g, GEN)
    # the size computation and the five printed bounds are translated (translators/encsizes.py -> Gen/GenEnc.v), not anchored here
    # the loops that write the cells (first slot | stop, entry cells, the last cell of a table) are translated
    # (translators/encwrite.py -> Gen/GenWr.v, Proofs/WrSource.v), not anchored here
    # ---- generator.hpp: write_static_offsets, read from its AST (translators/_minicpp.py): the first slot, then two loops
    # under `if (arity > 1)`.  Each loop `for (i = A; i < B; i++) os << ... << slots_strides_ptr[E(i)]` is normalised to the
    # canonical one the model knows, `for (i' = 1; i' < arity; i'++) ... [E'(i')]`, by the substitution i = i' + (A - 1),
    # which is only done when B - A = arity - 1 (all linear forms in arity); what is emitted is E'.
    slot_form, stride_form, slot_ix, stride_ix = offsets_loops(g)
    # ---- core.hpp: the debug cross-check
    (chk_slot_ix, chk_stride_ix) = one(
        'check_next',
        r'check_static_offset<static_slot_error>\(\s*\n\s*this->slots_strides\[([^\]]+)\], slot\);\s*\n\s*check_static_offset<static_stride_error>\(\s*\n'
        r'\s*this->slots_strides\[([^\]]+)\], stride\);', c, CORE)
    # the first-parameter check and the reads of static_offsets<method>::slots / strides are translated with the walk
    # (translators/walk.py -> Gen/GenWalk.v: WCheck, RStaticSlot, RStaticStride), not anchored here
    one('check_cmp', r'if \(actual != expected\) \{', c, CORE)

    # index expressions -> (coefficient of arity, coefficient of i, constant), for the forms the model knows
    def linear(name, expr, var):
        e = expr.replace(' ', '').replace('method.arity()', 'a').replace('arity', 'a').replace(var, 'i')
        forms = {'i': (0, 1, 0), 'a+i-1': (1, 1, -1), 'i*2-1': (0, 2, -1), 'i*2': (0, 2, 0), '2*i': (0, 2, 0), '2*i-1': (0, 2, -1)}
        if e not in forms:
            die('pattern %s: index expression %r is not one the model knows (%s)' % (name, expr, ', '.join(sorted(forms))))
        return forms[e]

    sa, si, sc = slot_form
    ta, ti, tc = stride_form
    ca, ci, cc = linear('check_next(slot)', chk_slot_ix, 'VirtualArg')
    da, di, dc = linear('check_next(stride)', chk_stride_ix, 'VirtualArg')

    def z(x):
        return '(%d)%%Z' % x

    out = '''(* GENERATED by translators/consts_codec.py from
     %s
     %s
     %s
   on every run of a check. Never edit, never commit. *)
From Coq Require Import NArith ZArith.
Open Scope N_scope.

(* `constexpr std::uint16_t stop_bit = 1 << (sizeof(%s) * %s - %s);` *)
Definition stop_bit : N := N.shiftl 1 %d.
(* `constexpr std::uint16_t index_bit = stop_bit >> %s;` *)
Definition index_bit : N := N.shiftr stop_bit %s.
(* cells of the emitted struct: `uint16_t` *)
Definition cell_bits : N := %d.
(* `const auto decode_size = sizeof(%s);` *)
Definition decode_size : nat := %d.
(* `const auto encode_size = sizeof(%s);` *)
Definition encode_size : nat := %d.

(* index expressions into slots_strides, as (coefficient of arity, coefficient of the loop variable, constant):
   write_static_offsets, slots loop:   slots_strides_ptr[%s]
   write_static_offsets, strides loop: slots_strides_ptr[%s]
   resolve_multi_next, slot check:     slots_strides[%s]
   resolve_multi_next, stride check:   slots_strides[%s] *)
Definition gen_slot_ix : Z * Z * Z := (%s, %s, %s).
Definition gen_stride_ix : Z * Z * Z := (%s, %s, %s).
Definition chk_slot_ix : Z * Z * Z := (%s, %s, %s).
Definition chk_stride_ix : Z * Z * Z := (%s, %s, %s).
''' % (os.path.relpath(DEC, REPO), os.path.relpath(GEN, REPO), os.path.relpath(CORE, REPO),
       ty, bits_per_byte, minus, stop_shift, ishift, ishift, SIZEOF[ty] * int(bits_per_byte),
       dty, SIZEOF[dty], ety, SIZEOF[ety],
       slot_ix, stride_ix, chk_slot_ix, chk_stride_ix,
       z(sa), z(si), z(sc), z(ta), z(ti), z(tc), z(ca), z(ci), z(cc), z(da), z(di), z(dc))
    vlib.write_if_changed(os.path.join(vlib.COQ, 'Gen', 'GenCodecConsts.v'), out)


if __name__ == '__main__':
    main()
