#!/usr/bin/env python3
"""/repo/include/yorel/yomm2/policies/vptr_vector.hpp, vptr_map.hpp  ->  coq/Gen/GenPub.v      (properties C01, C05, C09)

Source-to-Gallina translation of how v-table pointers are published and looked up by type id:
    vptr_vector<Policy>::publish_vptrs(first, last), ::dynamic_vptr(arg)
    vptr_map<Policy, Map>::publish_vptrs(first, last), ::dynamic_vptr(arg)
The bodies are parsed (translators/_minicpp.py) and lowered statement by statement into the language of coq/Model/MiniPub.v.
The pair of nested loops over [first, last) and over each record's type ids is matched as one construct; conditions are
`if constexpr (has_facet<Policy, type_hash | indirect_vptr>)`.  Anything else is refused (exit 3).
Proofs/PubSource.v proves the interpreted translations equal to Model.Hash.publish_vptrs / dynamic_vptr (hashed vector),
Model.VptrPolicy.vec_publish / vec_lookup (plain vector) and map_publish / map_lookup (map).
"""
import os, re, sys

sys.path.insert(0, os.path.dirname(os.path.abspath(__file__)))
sys.path.insert(0, os.path.join(os.path.dirname(os.path.abspath(__file__)), '..', 'tools'))
import vlib
import _minicpp as mc

REPO = os.environ.get('VERIF_REPO', '/repo')
VEC = os.path.join(REPO, 'include/yorel/yomm2/policies/vptr_vector.hpp')
MAP = os.path.join(REPO, 'include/yorel/yomm2/policies/vptr_map.hpp')
FACETS = {'type_hash': 'PTypeHash', 'indirect_vptr': 'PIndirect'}


def die(msg):
    sys.stderr.write('publish.py: ' + msg + '\n')
    print('publish.py: ' + msg)
    sys.exit(3)


def norm(t):
    return re.sub(r'\s+', '', t)


def subst(node, env):
    if isinstance(node, tuple):
        if len(node) == 2 and node[0] == 'id' and isinstance(node[1], str) and node[1] in env:
            return env[node[1]]
        return tuple(subst(x, env) for x in node)
    if isinstance(node, list):
        return [subst(x, env) for x in node]
    return node


def value_helpers(region):
    """static one-parameter helpers of the struct whose body is `if constexpr (has_facet<Policy, F>) return A; else return B;`"""
    out = {}
    for m in re.finditer(r'\bstatic\s+[\w:<>]+\s+(\w+)\s*\(\s*[\w:<>&\s]+?\s(\w+)\s*\)\s*\{', region):
        name, param = m.group(1), m.group(2)
        if name in ('publish_vptrs', 'dynamic_vptr'):
            continue
        b = m.end() - 1
        try:
            ast = mc.parse_function_body(region[b:mc.balanced(region, b, '{', '}')], ('has_facet',))
        except mc.Unsupported:
            continue
        st = [x for x in ast[1] if x != ('using',)]
        # if constexpr (F) { p = E; } return p;    is    if constexpr (F) return E; else return p;
        if (len(st) == 2 and st[0][0] == 'if' and st[0][1] and st[0][4] is None and st[1] == ('return', ('id', param))):
            th = [x for x in (st[0][3][1] if st[0][3][0] == 'block' else [st[0][3]]) if x != ('using',)]
            if len(th) == 1 and th[0][0] == 'expr' and th[0][1][0] == 'assign' and th[0][1][1] == '=' and th[0][1][2] == ('id', param):
                st = [('if', True, st[0][2], ('block', [('return', th[0][1][3])]), ('block', [('return', ('id', param))]))]
        if (len(st) == 1 and st[0][0] == 'if' and st[0][1] and st[0][2][0] == 'tmpl' and st[0][2][1] == 'has_facet' and len(st[0][2][2]) == 2
                and norm(st[0][2][2][0]) == 'Policy' and norm(st[0][2][2][1]) in FACETS and st[0][4] is not None):
            t = [x for x in (st[0][3][1] if st[0][3][0] == 'block' else [st[0][3]]) if x != ('using',)]
            e = [x for x in (st[0][4][1] if st[0][4][0] == 'block' else [st[0][4]]) if x != ('using',)]
            if len(t) == 1 and len(e) == 1 and t[0][0] == 'return' and e[0][0] == 'return' and t[0][1] is not None and e[0][1] is not None:
                out[name] = (param, FACETS[norm(st[0][2][2][1])], t[0][1], e[0][1])
    return out


class Lower:
    helpers = {}

    def __init__(self, fname):
        self.fname = fname
        self.locals = set()

    def bad(self, what, node):
        raise mc.Unsupported('%s: %s: %s' % (self.fname, what, mc.show(node)))

    def e(self, x):
        k = x[0]
        if k == 'num':
            return '(XConst %d)' % x[1]
        if k == 'id' and x[1] == 'size' and 'size' in self.locals:
            return 'XSize'
        if k == 'id' and x[1] == 'index' and 'index' in self.locals:
            return 'XIndex'
        if k == 'id' and x[1] == 'Policy::hash_length':
            return 'XHashLength'
        if k == 'un' and x[1] == '*' and x[2] == ('id', 'type_iter'):
            return 'XCurId'
        if k == 'call' and x[1] == ('id', 'Policy::dynamic_type') and x[2] == [('id', 'arg')]:
            return 'XDynId'
        if k == 'call' and x[1] == ('id', 'Policy::hash_type_id') and len(x[2]) == 1:
            return '(XHash %s)' % self.e(x[2][0])
        if k == 'call' and x[1] == ('id', 'std::max') and len(x[2]) == 2:
            return '(XMax %s %s)' % (self.e(x[2][0]), self.e(x[2][1]))
        if k == 'bin' and x[1] == '+':
            return '(XAdd %s %s)' % (self.e(x[2]), self.e(x[3]))
        if k == 'call' and x[1][0] == 'id' and x[1][1] in Lower.helpers and len(x[2]) == 1:
            param, facet, a, b = Lower.helpers[x[1][1]]
            # the parameter is bound once; the argument expressions of the subset have no side effect
            env = {param: x[2][0]}
            return '(XIfFacet %s %s %s)' % (facet, self.e(subst(a, env)), self.e(subst(b, env)))
        self.bad('expression not in the subset', x)

    def accumulate_in_size(self, stmts):
        """std::size_t m = 0; LOOP over m (size not mentioned); size = m + c;    is    size = 0; LOOP over size; size = size + c;
           and, inside,  if (m < E) m = E;   is   m = std::max(m, E);"""
        stmts = [x for x in stmts if x != ('using',)]
        for i in range(len(stmts) - 2):
            d, lp, fin = stmts[i], stmts[i + 1], stmts[i + 2]
            if not (d[0] == 'decl' and len(d[2]) == 1 and d[2][0][1] == ('num', 0) and d[2][0][0] not in ('size', 'index') and lp[0] == 'for'
                    and fin[0] == 'expr' and fin[1][0] == 'assign' and fin[1][1] == '=' and fin[1][2] == ('id', 'size')):
                continue
            m = d[2][0][0]
            if mc._mentions(lp, 'size') or mc._mentions(stmts[i + 3:], m) or not mc._mentions(fin[1][3], m):
                continue
            env = {m: ('id', 'size')}
            return (stmts[:i] + [('expr', ('assign', '=', ('id', 'size'), ('num', 0))), self.max_form(subst(lp, env)), subst(fin, env)] + stmts[i + 3:])
        return stmts

    def max_form(self, n):
        if isinstance(n, list):
            return [self.max_form(x) for x in n]
        if isinstance(n, tuple):
            if (len(n) == 5 and n[0] == 'if' and not n[1] and n[4] is None and n[2][0] == 'bin' and n[2][1] == '<' and n[2][2][0] == 'id'):
                th = [x for x in (n[3][1] if n[3][0] == 'block' else [n[3]]) if x != ('using',)]
                if th == [('expr', ('assign', '=', n[2][2], n[2][3]))]:
                    return ('expr', ('assign', '=', n[2][2], ('call', ('id', 'std::max'), [n[2][2], n[2][3]])))
            return tuple(self.max_form(x) for x in n)
        return n

    def seq(self, stmts):
        stmts = self.max_form([x for x in stmts if x != ('using',)])       # if (x < E) x = E;   is   x = std::max(x, E);
        out = [self.s(t) for t in self.accumulate_in_size(stmts)]
        out = [t for t in out if t != 'QSkip']
        if not out:
            return 'QSkip'
        r = out[-1]
        for t in reversed(out[:-1]):
            r = '(QSeq %s\n  %s)' % (t, r)
        return r

    def ids_loops(self, st):
        """for (auto iter = first; iter != last; ++iter) { for (auto type_iter = iter->type_id_begin(); type_iter != iter->type_id_end(); ++type_iter) BODY }"""
        # the names of the two loop variables are free
        if (st[1] and st[1][0] == 'decl' and len(st[1][2]) == 1 and st[1][2][0][1] == ('id', 'first') and st[1][2][0][0] != 'iter'
                and "('id', 'iter')" not in repr(st)):
            x = st[1][2][0][0]
            st = (st[0], ('decl', st[1][1], [('iter', ('id', 'first'))])) + tuple(subst(y, {x: ('id', 'iter')}) for y in st[2:])
        want_outer = (('decl', 'auto', [('iter', ('id', 'first'))]), ('bin', '!=', ('id', 'iter'), ('id', 'last')), ('un', '++', ('id', 'iter')))
        if (st[1], st[2], st[3]) != want_outer:
            self.bad('outer loop header is not `for (auto iter = first; iter != last; ++iter)`', st[:4])
        ob = [x for x in (st[4][1] if st[4][0] == 'block' else [st[4]]) if x != ('using',)]
        # const auto type_last = iter->type_id_end();  hoisted out of the inner loop header (the range of ids of a record is fixed)
        if (len(ob) == 2 and ob[0][0] == 'decl' and ob[0][1] in ('const auto', 'auto') and len(ob[0][2]) == 1
                and ob[0][2][0][1] == ('call', ('member', ('id', 'iter'), 'type_id_end', True), []) and ob[1][0] == 'for'):
            ob = [subst(ob[1], {ob[0][2][0][0]: ob[0][2][0][1]})]
        if len(ob) != 1 or ob[0][0] != 'for':
            self.bad('the outer loop body is not exactly the loop over the type ids', st[4])
        inner = ob[0]
        if (inner[1] and inner[1][0] == 'decl' and len(inner[1][2]) == 1 and inner[1][2][0][0] != 'type_iter'
                and inner[1][2][0][1] == ('call', ('member', ('id', 'iter'), 'type_id_begin', True), []) and "('id', 'type_iter')" not in repr(inner)):
            y = inner[1][2][0][0]
            inner = (inner[0], ('decl', inner[1][1], [('type_iter', inner[1][2][0][1])])) + tuple(subst(z, {y: ('id', 'type_iter')}) for z in inner[2:])
        tb = ('call', ('member', ('id', 'iter'), 'type_id_begin', True), [])
        te = ('call', ('member', ('id', 'iter'), 'type_id_end', True), [])
        want_inner = (('decl', 'auto', [('type_iter', tb)]), ('bin', '!=', ('id', 'type_iter'), te), ('un', '++', ('id', 'type_iter')))
        if (inner[1], inner[2], inner[3]) != want_inner:
            self.bad('inner loop header changed', inner[:4])
        saved = set(self.locals)
        body = self.s(inner[4])
        self.locals = saved
        return '(QForIds %s)' % body

    def s(self, st):
        k = st[0]
        if k == 'block':
            return self.seq(st[1])
        if k == 'using':
            return 'QSkip'
        if k == 'if':
            c = st[2]
            if not (st[1] and c[0] == 'tmpl' and c[1] == 'has_facet' and len(c[2]) == 2 and norm(c[2][0]) == 'Policy' and norm(c[2][1]) in FACETS):
                self.bad('only `if constexpr (has_facet<Policy, type_hash | indirect_vptr>)` is in the subset', c)
            saved = set(self.locals)
            t = self.s(st[3]); self.locals = set(saved)
            e = self.s(st[4]) if st[4] else 'QSkip'; self.locals = set(saved)
            # a local assigned in both branches (size) stays declared
            return '(QIfFacet %s\n  %s\n  %s)' % (FACETS[norm(c[2][1])], t, e)
        if k == 'for':
            return self.ids_loops(st)
        if k == 'decl':
            out = []
            for name, init in st[2]:
                if name not in ('size', 'index'):
                    self.bad('unknown local (known: size, index)', st)
                self.locals.add(name)
                if init is not None:
                    out.append('(%s %s)' % ('QSetSize' if name == 'size' else 'QSetIndex', self.e(init)))
            r = 'QSkip'
            for t in reversed(out):
                r = t if r == 'QSkip' else '(QSeq %s %s)' % (t, r)
            return r
        if k == 'expr':
            e = st[1]
            if e == ('call', ('id', 'Policy::hash_initialize'), [('id', 'first'), ('id', 'last')]):
                return 'QHashInit'
            if e[0] == 'un' and e[1] == '++' and e[2] == ('id', 'size') and 'size' in self.locals:
                return '(QSetSize (XAdd XSize (XConst 1)))'
            if e[0] == 'assign' and e[1] == '=':
                l, r = e[2], e[3]
                if l == ('id', 'size') and 'size' in self.locals:
                    return '(QSetSize %s)' % self.e(r)
                if l == ('id', 'index') and 'index' in self.locals:
                    return '(QSetIndex %s)' % self.e(r)
                vp = ('call', ('member', ('id', 'iter'), 'vptr', True), [])
                ivp = ('call', ('member', ('id', 'iter'), 'indirect_vptr', True), [])
                if l[0] == 'index' and l[1] == ('id', 'vptrs') and r == vp:
                    if self.fname.startswith('vptr_map'):
                        if l[2] != ('un', '*', ('id', 'type_iter')):
                            self.bad('map key is not *type_iter', st)
                        return 'QMapStore'
                    return '(QStoreVptr %s)' % self.e(l[2])
                if l[0] == 'index' and l[1] == ('id', 'Policy::indirect_vptrs') and r == ivp:
                    return '(QStoreIndirect %s)' % self.e(l[2])
            if e[0] == 'call' and e[1] == ('member', ('id', 'vptrs'), 'resize', False) and len(e[2]) == 1:
                return '(QResizeVptrs %s)' % self.e(e[2][0])
            if e[0] == 'call' and e[1] == ('member', ('id', 'Policy::indirect_vptrs'), 'resize', False) and len(e[2]) == 1:
                return '(QResizeIndirect %s)' % self.e(e[2][0])
            self.bad('expression statement not in the subset', st)
        self.bad('statement not in the subset', st)


def struct_region(src, name):
    m = re.search(r'\bstruct\s+(?:yOMM2_API_gcc\s+)?%s\b[^{;]*\{' % name, src)
    if not m:
        raise mc.Unsupported('struct %s not found' % name)
    b = m.end() - 1
    return src[b:mc.balanced(src, b, '{', '}')]


def main():
    try:
        vec = mc.strip_comments(open(VEC).read())
        mp = mc.strip_comments(open(MAP).read())
    except OSError as e:
        die('cannot read the headers: %s' % e)
    out = {}
    try:
        for fname, text, sname in (('vptr_vector', vec, 'vptr_vector'), ('vptr_map', mp, 'vptr_map')):
            reg = struct_region(text, sname)
            Lower.helpers = value_helpers(reg)
            params, body, _ = mc.find_function(reg, r'\bstatic\s+void\s+publish_vptrs\b', fname + '::publish_vptrs')
            if norm(params) != 'ForwardIteratorfirst,ForwardIteratorlast':
                raise mc.Unsupported('%s::publish_vptrs: parameter list changed: %s' % (fname, params))
            ast = mc.parse_function_body(body, ('has_facet',))
            out[fname + '_publish'] = Lower(fname + '::publish_vptrs').s(ast)
            params, body, _ = mc.find_function(reg, r'\bdynamic_vptr\b', fname + '::dynamic_vptr')
            if norm(params) != 'constClass&arg':
                raise mc.Unsupported('%s::dynamic_vptr: parameter list changed: %s' % (fname, params))
            ast = mc.parse_function_body(body, ('has_facet',))
            st = [x for x in ast[1] if x != ('using',)]
            # T x = E; if constexpr (c) return vptrs[A]; else return vptrs[B];
            #    is    auto index = E; if constexpr (c) index = A[x := index]; else index = B[x := index]; return vptrs[index];
            #    (an assignment index = index dropped)
            if (fname == 'vptr_vector' and len(st) == 2 and st[0][0] == 'decl' and len(st[0][2]) == 1 and st[0][2][0][1] is not None
                    and st[1][0] == 'if' and st[1][1] and st[1][4] is not None):
                x = st[0][2][0][0]

                def ret_index(b):
                    b = [y for y in (b[1] if b[0] == 'block' else [b]) if y != ('using',)]
                    if len(b) == 1 and b[0][0] == 'return' and b[0][1] is not None and b[0][1][0] == 'index' and b[0][1][1] == ('id', 'vptrs'):
                        return mc._subst_ids(b[0][1][2], {x: ('id', 'index')})
                    return None
                A, B = ret_index(st[1][3]), ret_index(st[1][4])
                if A is not None and B is not None and (x == 'index' or "('id', 'index')" not in repr(st)):
                    def asg(e):
                        return ('block', [] if e == ('id', 'index') else [('expr', ('assign', '=', ('id', 'index'), e))])
                    th, el = asg(A), asg(B)
                    st = [('decl', 'auto', [('index', st[0][2][0][1])]),
                          ('if', True, st[1][2], th, el if el[1] else None),
                          ('return', ('index', ('id', 'vptrs'), ('id', 'index')))]
            if not st or st[-1][0] != 'return' or st[-1][1] is None:
                raise mc.Unsupported('%s::dynamic_vptr: does not end with a return' % fname)
            lw = Lower(fname + '::dynamic_vptr')
            r = st[-1][1]
            if (fname == 'vptr_map' and len(st) == 2 and st[0][0] == 'decl' and len(st[0][2]) == 1 and st[0][2][0][1] is not None
                    and r == ('member', ('id', st[0][2][0][0]), 'second', True)):
                # const auto entry = vptrs.find(k); return entry->second;
                r = ('member', st[0][2][0][1], 'second', True)
                st = [st[-1]]
            pre = lw.seq(st[:-1])
            if fname == 'vptr_vector':
                if not (r[0] == 'index' and r[1] == ('id', 'vptrs')):
                    raise mc.Unsupported('vptr_vector::dynamic_vptr: no longer returns vptrs[<index>]: ' + mc.show(r))
                out['vptr_vector_lookup'] = '(LVectorAt %s %s)' % (pre, lw.e(r[2]))
            else:
                want = ('member', ('call', ('member', ('id', 'vptrs'), 'find', False), None), 'second', True)
                ok = (r[0] == 'member' and r[2] == 'second' and r[3] and r[1][0] == 'call' and r[1][1] == ('member', ('id', 'vptrs'), 'find', False)
                      and len(r[1][2]) == 1 and pre == 'QSkip')
                if not ok:
                    raise mc.Unsupported('vptr_map::dynamic_vptr: no longer `return vptrs.find(<id>)->second;` (operator[] would insert): ' + mc.show(r))
                out['vptr_map_lookup'] = '(LMapFind %s)' % lw.e(r[1][2][0])
    except mc.Unsupported as e:
        die(str(e))
    text = ('(* GENERATED by translators/publish.py from %s and %s - do not edit.\n'
            '   publish_vptrs and dynamic_vptr of vptr_vector and vptr_map, in the language of Model/MiniPub.v. *)\n'
            'From Coq Require Import NArith.\nFrom Y2 Require Import Model.MiniPub.\nOpen Scope N_scope.\n\n'
            'Definition gen_vector_publish : pstmt :=\n %s.\n\nDefinition gen_vector_lookup : plookup :=\n %s.\n\n'
            'Definition gen_map_publish : pstmt :=\n %s.\n\nDefinition gen_map_lookup : plookup :=\n %s.\n'
            % (VEC, MAP, out['vptr_vector_publish'], out['vptr_vector_lookup'], out['vptr_map_publish'], out['vptr_map_lookup']))
    vlib.write_if_changed(os.path.join(vlib.COQ, 'Gen', 'GenPub.v'), text)


if __name__ == '__main__':
    main()
