#!/usr/bin/env python3
"""/repo source text -> coq/Gen/GenProductConsts.v

Literal constants and (as far as a regular expression can see it) the shape of the
divide-and-conquer in  include/yorel/yomm2/templates.hpp  (property C20):

    template<typename... T> struct aggregate : mp_if_c< sizeof...(T) <= THRESHOLD,
        mp_defer<std::tuple, T...>, mp_defer<detail::large_aggregate, T...> >::type {};
    template<typename... T> struct large_aggregate : std::tuple<
        mp_apply<aggregate, mp_take_c<types<T...>, sizeof...(T) / DEN>>,
        mp_apply<aggregate, mp_drop_c<types<T...>, sizeof...(T) / DEN>> > {};

and the shape of product / apply_product / is_defined / use_definitions (mp_product with `types`,
templates first, mp_copy_if_q before mp_transform_q before mp_apply<aggregate>).

Exit status != 0 with the name of the pattern when one of them no longer matches exactly once
(the meta-functions were restructured: Model/Product.v has to be re-read against the source).
"""
import os, re, sys

sys.path.insert(0, os.path.join(os.path.dirname(os.path.abspath(__file__)), '..', 'tools'))
import vlib

REPO = os.environ.get('VERIF_REPO', '/repo')
TPL = os.path.join(REPO, 'include/yorel/yomm2/templates.hpp')


def die(msg):
    sys.stderr.write('consts_product.py: ' + msg + '\n')
    sys.exit(3)


def strip_comments(s):
    s = re.sub(r'/\*.*?\*/', ' ', s, flags=re.S)
    return re.sub(r'//[^\n]*', '', s)


def squeeze(s):
    """comments out, every run of white space -> nothing around punctuation, one blank between words"""
    s = strip_comments(s)
    s = re.sub(r'\s+', ' ', s)
    s = re.sub(r'\s*([<>,;:{}()=!/&*.])\s*', r'\1', s)
    return s


def one(name, pattern, text, count=1):
    ms = list(re.finditer(pattern, text))
    if len(ms) != count:
        die('pattern %s matches %d time(s), expected %d, in %s\n    regex: %s' % (name, len(ms), count, TPL, pattern))
    return ms[0].groups()


MP = r'(?:boost::)?mp11::'


def main():
    try:
        raw = open(TPL).read()
    except OSError as e:
        die('cannot read %s: %s' % (TPL, e))
    t = squeeze(raw)

    # aggregate: the threshold test, tuple below, large_aggregate above
    op, thr = one('aggregate_threshold',
                  r'template<typename\.\.\.T>struct aggregate:' + MP + r'mp_if_c<sizeof\.\.\.\(T\)(<=|<)(\d+),'
                  + MP + r'mp_defer<std::tuple,T\.\.\.>,' + MP + r'mp_defer<detail::large_aggregate,T\.\.\.>>::type\{\};', t)
    # large_aggregate: a tuple of exactly two aggregates, take_c then drop_c of the same list
    d1, d2 = one('large_aggregate_split',
                 r'template<typename\.\.\.T>struct large_aggregate:std::tuple<'
                 + MP + r'mp_apply<aggregate,' + MP + r'mp_take_c<types<T\.\.\.>,sizeof\.\.\.\(T\)/(\d+)>>,'
                 + MP + r'mp_apply<aggregate,' + MP + r'mp_drop_c<types<T\.\.\.>,sizeof\.\.\.\(T\)/(\d+)>>>\{\};', t)
    # aggregate<types<T...>> forwards to aggregate<T...>
    one('aggregate_of_types', r'template<typename\.\.\.T>struct aggregate<types<T\.\.\.>>:aggregate<T\.\.\.>\{\};', t)
    # product = mp_product<types, lists...>
    one('product', r'template<typename\.\.\.TypeLists>using product=' + MP + r'mp_product<types,TypeLists\.\.\.>;', t)
    # apply_product = mp_product<mp_invoke_q, types<mp_quote<Templates>...>, lists...>  (templates vary slowest)
    one('apply_product',
        r'struct apply_product_impl<templates<Templates\.\.\.>,TypeLists\.\.\.>\{using type=' + MP + r'mp_product<'
        + MP + r'mp_invoke_q,types<' + MP + r'mp_quote<Templates>\.\.\.>,TypeLists\.\.\.>;\};', t)
    # is_defined = !is_base_of<not_defined, Definition<TypeList...>>
    one('is_defined',
        r'struct is_defined\{template<typename TypeList>using fn=' + MP + r'mp_bool<!std::is_base_of_v<not_defined,'
        + MP + r'mp_apply<Definition,TypeList>>>;\};', t)
    # use_definitions = aggregate( transform use_definition ( copy_if is_defined LoL ) )
    one('use_definitions',
        r'template<template<typename\.\.\.>typename Definition,typename LoL>using use_definitions=' + MP
        + r'mp_apply<aggregate,' + MP + r'mp_transform_q<detail::use_definition<Definition>,' + MP
        + r'mp_copy_if_q<LoL,detail::is_defined<Definition>>>>;', t)
    # use_definition: method named by T::method, else by the first template argument
    one('use_definition_member', r'struct impl<true,T>\{using type=typename T::method::template add_definition<T>;\};', t)
    one('use_definition_first',
        r'struct impl<false,Definition<First,Rest\.\.\.>>\{using type=typename First::self_type::template add_definition<Definition<First,Rest\.\.\.>>;\};', t)

    thr, d1, d2 = int(thr), int(d1), int(d2)
    if d1 != d2:
        die('pattern large_aggregate_split: take count n/%d and drop count n/%d differ (elements would be lost or duplicated)' % (d1, d2))
    if d1 == 0:
        die('pattern large_aggregate_split: division by 0')
    if op == '<':          # sizeof...(T) < k  is  sizeof...(T) <= k-1
        if thr == 0:
            die('pattern aggregate_threshold: `sizeof...(T) < 0` is never true')
        thr -= 1
    if thr > 100000:
        die('pattern aggregate_threshold: literal %d too large for a nat numeral' % thr)

    out = '''(* GENERATED by translators/consts_product.py from
     %s
   on every run of a check. Never edit, never commit. *)

(* `struct aggregate : mp_if_c< sizeof...(T) %s %s, mp_defer<std::tuple, T...>, mp_defer<detail::large_aggregate, T...> >`
   : a pack of at most this many types becomes one std::tuple *)
Definition aggregate_threshold : nat := %d.
(* `large_aggregate : std::tuple< aggregate<mp_take_c<types<T...>, sizeof...(T) / %d>>, aggregate<mp_drop_c<types<T...>, sizeof...(T) / %d>> >`
   : a larger pack is cut in two at n / this *)
Definition aggregate_split_den : nat := %d.
(* number of sub-aggregates of a large_aggregate (the tuple has exactly a take and a drop) *)
Definition aggregate_split_parts : nat := 2.
''' % (os.path.relpath(TPL, REPO), op, (thr + 1) if op == '<' else thr, thr, d1, d2, d1)
    vlib.write_if_changed(os.path.join(vlib.COQ, 'Gen', 'GenProductConsts.v'), out)


if __name__ == '__main__':
    main()
