#!/usr/bin/env python3
"""/repo/include/yorel/yomm2/detail/compiler.hpp  ->  coq/Gen/GenMeth.v      (properties C01, C15)

Source-to-Gallina translation of compiler<Policy>::augment_methods(): the loop over Policy::methods (meth_iter advancing in
lockstep), the lookup of the class of every virtual parameter of the method and of every definition by type id, the
unknown_class_error reported (and the abort) when no registered class has that id, the indexes given to the two
pseudo-definitions, the position index of every definition, and the final loop that fills used_by_vp.  Parsed with
translators/_minicpp.py and lowered into the language of coq/Model/MiniMeth.v.  Statements that only copy a pointer or a size
are dropped from an explicit list (below); anything else is refused (exit 3).  Proofs/MethSource.v proves that the translation
computes Model.Compile.augment_methods and used_by_vp.
"""
import os, re, sys

sys.path.insert(0, os.path.dirname(os.path.abspath(__file__)))
sys.path.insert(0, os.path.join(os.path.dirname(os.path.abspath(__file__)), '..', 'tools'))
import vlib
import _minicpp as mc

REPO = os.environ.get('VERIF_REPO', '/repo')
SRC = os.path.join(REPO, 'include/yorel/yomm2/detail/compiler.hpp')


def die(msg):
    sys.stderr.write('augmeth.py: ' + msg + '\n')
    print('augmeth.py: ' + msg)
    sys.exit(3)


def nonempty(stmts):
    return [s for s in stmts if s != ('block', []) and s != ('using',)]


def call0(obj, name, arrow=False):
    return ('call', ('member', obj, name, arrow), [])


MI = ('id', 'meth_iter')
SI = ('id', 'spec_iter')
ARITY = call0(('id', 'meth_info'), 'arity')
MINDEX = ('bin', '-', MI, call0(('id', 'methods'), 'begin'))


def is_error_block(stmts, ti):
    """unknown_class_error error; error.type = ti; if constexpr (has_facet<Policy, error_handler>) Policy::error(error_type(error)); abort();"""
    want = [('decl', 'unknown_class_error', [('error', None)]),
            ('expr', ('assign', '=', ('member', ('id', 'error'), 'type', False), ('id', ti))),
            ('if', True, ('tmpl', 'has_facet', ['Policy', 'error_handler']),
             ('block', [('expr', ('call', ('id', 'Policy::error'), [('call', ('id', 'error_type'), [('id', 'error')])]))]), None),
            ('expr', ('call', ('id', 'abort'), []))]
    return nonempty(stmts) == want


class Lower:
    def __init__(self, helpers):
        self.helpers = helpers          # name -> parameter of a local lambda whose body is the error block
        self.arity_aliases = set()
        self.who = 'WMethod'
        self.ti = None
        self.have_class = False
        self.locals = {}                # param_index, method_index, spec_size

    def bad(self, msg, node):
        raise mc.Unsupported('augment_methods: %s: %s' % (msg, mc.show(node)))

    def unalias(self, n):
        """a const local holding meth_info.arity() reads as meth_info.arity()"""
        if isinstance(n, list):
            return [self.unalias(x) for x in n]
        if isinstance(n, tuple):
            if n[0] == 'id' and len(n) == 2 and n[1] in self.arity_aliases:
                return ARITY
            return tuple(self.unalias(x) for x in n)
        return n

    def noop(self, st):
        """statements that copy a pointer / a size or keep a counter nobody reads"""
        if (st[0] == 'decl' and st[1] in ('const auto', 'auto', 'const std::size_t', 'std::size_t') and len(st[2]) == 1 and st[2][0][1] == ARITY):
            self.arity_aliases.add(st[2][0][0])
            return True
        st = self.unalias(st)
        spec_pf = ('expr', ('assign', '=', ('member', SI, 'pf', True), ('cast', 'reinterpret_cast', 'uintptr_t', ('member', ('member', SI, 'info', True), 'pf', True))))
        fixed = [
            ('expr', ('assign', '=', ('member', MI, 'info', True), ('un', '&', ('id', 'meth_info')))),
            ('expr', ('call', ('member', ('member', MI, 'vp', True), 'reserve', False), [ARITY])),
            ('expr', ('call', ('member', ('member', MI, 'slots', True), 'resize', False), [ARITY])),
            ('decl', 'std::size_t', [('param_index', ('num', 0))]),
            ('decl', 'parameter', [('param', ('initlist', [('un', '&', ('un', '*', MI)), ('post', '++', ('id', 'param_index'))]))]),
            ('expr', ('un', '++', ('id', 'param_index'))), ('expr', ('post', '++', ('id', 'param_index'))),
            ('decl', 'const auto', [('method_index', MINDEX)]),
            ('decl', 'auto', [('spec_size', call0(('member', ('id', 'meth_info'), 'specs', False), 'size'))]),
            ('expr', ('call', ('member', ('member', MI, 'specs', True), 'resize', False), [('id', 'spec_size')])),
            ('decl', 'auto', [('spec_iter', call0(('member', MI, 'specs', True), 'begin'))]),
            ('expr', ('assign', '=', ('member', SI, 'method_index', True), MINDEX)),
            ('expr', ('assign', '=', ('member', SI, 'method_index', True), ('id', 'method_index'))),
            ('expr', ('assign', '=', ('member', SI, 'info', True), ('un', '&', ('id', 'definition_info')))),
            ('expr', ('call', ('member', ('member', SI, 'vp', True), 'reserve', False), [ARITY])),
            spec_pf,
        ]
        for d, f in (('ambiguous', 'ambiguous'), ('not_implemented', 'not_implemented')):
            fixed.append(('expr', ('assign', '=', ('member', ('member', MI, d, True), 'pf', False),
                                   ('cast', 'reinterpret_cast', 'uintptr_t', ('member', ('member', MI, 'info', True), f, True)))))
            fixed.append(('expr', ('assign', '=', ('member', ('member', MI, d, True), 'method_index', False), ('id', 'method_index'))))
            fixed.append(('expr', ('assign', '=', ('member', ('member', MI, d, True), 'method_index', False), MINDEX)))
        return st in fixed

    def seq(self, stmts):
        out = [self.s(t) for t in nonempty(stmts)]
        out = [t for t in out if t != 'MSkip']
        if not out:
            return 'MSkip'
        r = out[-1]
        for t in reversed(out[:-1]):
            r = '(MSeq %s\n  %s)' % (t, r)
        return r

    def s(self, st):
        if self.noop(st):
            return 'MSkip'
        k = st[0]
        if k == 'block':
            return self.seq(st[1])
        if k == 'rangefor' and isinstance(st[1], str) and st[2][0] == 'construct' and st[2][1] == 'range' and self.ti is None:
            a, b = st[2][2]
            for owner, who in ((('id', 'meth_info'), 'WMethod'), (('id', 'definition_info'), 'WDefinition')):
                if (a, b) == (('member', owner, 'vp_begin', False), ('member', owner, 'vp_end', False)) and who == self.who:
                    self.ti = st[1]
                    body = self.s(st[3])
                    self.ti = None; self.have_class = False
                    return '(MForParams %s %s)' % (who, body)
            self.bad('loop over ids not in the subset', st)
        if self.ti and st == ('decl', 'auto', [('class_', ('index', ('id', 'class_map'), ('call', ('id', 'Policy::type_index'), [('id', self.ti)])))]):
            self.have_class = True
            return 'MLookup'
        if k == 'if' and not st[1] and st[4] is None and self.have_class and st[2] in (('un', '!', ('id', 'class_')), ('bin', '==', ('id', 'class_'), ('null',))):
            inner = nonempty(st[3][1] if st[3][0] == 'block' else [st[3]])
            if is_error_block(inner, self.ti):
                return '(MIfUnknown MReportUnknownAndAbort)'
            if len(inner) == 1 and inner[0][0] == 'expr' and inner[0][1][0] == 'call' and inner[0][1][1][0] == 'id' and inner[0][1][1][1] in self.helpers and inner[0][1][2] == [('id', self.ti)]:
                return '(MIfUnknown MReportUnknownAndAbort)'
            self.bad('an unknown class is no longer reported as unknown_class_error followed by abort()', st)
        if k == 'expr':
            e = st[1]
            if self.have_class and e == ('call', ('member', ('member', MI if self.who == 'WMethod' else SI, 'vp', True), 'push_back', False), [('id', 'class_')]):
                return '(MPushVp %s)' % self.who
            for d, c in (('ambiguous', 'DAmbiguous'), ('not_implemented', 'DNotImplemented')):
                if e[0] == 'assign' and e[1] == '=' and e[2] == ('member', ('member', MI, d, True), 'spec_index', False):
                    if e[3] == ('id', 'spec_size'):
                        return '(MSetDummyIndex %s MSpecSize)' % c
                    if e[3][0] == 'bin' and e[3][1] == '+' and e[3][2] == ('id', 'spec_size') and e[3][3][0] == 'num':
                        return '(MSetDummyIndex %s (MSpecSizePlus %d))' % (c, e[3][3][1])
            if self.who == 'WDefinition' and e == ('assign', '=', ('member', SI, 'spec_index', True), ('bin', '-', SI, call0(('member', MI, 'specs', True), 'begin'))):
                return 'MSetSpecIndexByPosition'
        if k == 'rangefor' and st[1] == 'definition_info' and st[2] == ('member', ('id', 'meth_info'), 'specs', False) and self.who == 'WMethod':
            body = nonempty(st[3][1])
            if not body or body[-1] not in (('expr', ('un', '++', SI)), ('expr', ('post', '++', SI))):
                self.bad('the loop over the definitions no longer ends with ++spec_iter', st)
            self.who = 'WDefinition'
            b = self.seq(body[:-1])
            self.who = 'WMethod'
            return '(MForDefinitions %s)' % b
        self.bad('statement not in the subset', st)


def main():
    try:
        src = mc.strip_comments(open(SRC).read())
    except OSError as e:
        die('cannot read %s: %s' % (SRC, e))
    try:
        params, body, _ = mc.find_function(src, r'\bvoid\s+compiler<Policy>::augment_methods\b', 'augment_methods')
        if params.strip():
            raise mc.Unsupported('augment_methods takes parameters now')
        top = nonempty(mc.parse_function_body(mc.drop_trace(body), ('has_facet',))[1])
        helpers = {}
        rest = []
        for st in top:
            if (st[0] == 'decl' and len(st[2]) == 1 and st[2][0][1] is not None and st[2][0][1][0] == 'lambda' and len(st[2][0][1][2]) == 1
                    and is_error_block(st[2][0][1][3][1], st[2][0][1][2][0])):
                helpers[st[2][0][0]] = st[2][0][1][2][0]
            else:
                rest.append(st)
        want0 = ('expr', ('call', ('member', ('id', 'methods'), 'resize', False), [call0(('id', 'Policy::methods'), 'size')]))
        want1 = ('decl', 'auto', [('meth_iter', call0(('id', 'methods'), 'begin'))])
        if len(rest) != 4 or rest[0] != want0 or rest[1] != want1:
            raise mc.Unsupported('augment_methods is no longer <methods.resize(Policy::methods.size()); meth_iter = methods.begin(); the loop over Policy::methods; the loop that fills used_by_vp>')
        loop = rest[2]
        if loop[0] != 'rangefor' or loop[1] != 'meth_info' or loop[2] != ('id', 'Policy::methods'):
            raise mc.Unsupported('the main loop is no longer `for (auto& meth_info : Policy::methods)`')
        lb = nonempty(loop[3][1])
        if not lb or lb[-1] not in (('expr', ('un', '++', MI)), ('expr', ('post', '++', MI))):
            raise mc.Unsupported('the loop over the methods no longer ends with ++meth_iter')
        text = Lower(helpers).seq(lb[:-1])
        used = ('rangefor', 'method', ('id', 'methods'),
                ('block', [('decl', 'std::size_t', [('param_index', ('num', 0))]),
                           ('rangefor', 'vp', ('member', ('id', 'method'), 'vp', False),
                            ('block', [('expr', ('call', ('member', ('member', ('id', 'vp'), 'used_by_vp', True), 'push_back', False),
                                                 [('initlist', [('un', '&', ('id', 'method')), ('post', '++', ('id', 'param_index'))])]))]))]))
        # the same with an index loop: for (size_t i = 0; i < method.vp.size(); ++i) method.vp[i]->used_by_vp.push_back({&method, i});
        def used_indexed(st):
            if st[0] != 'rangefor' or st[1] != 'method' or st[2] != ('id', 'methods'):
                return False
            b = nonempty(st[3][1])
            if len(b) != 1 or b[0][0] != 'for':
                return False
            f = b[0]
            if not (f[1] and f[1][0] == 'decl' and len(f[1][2]) == 1 and f[1][2][0][1] == ('num', 0)):
                return False
            i = f[1][2][0][0]
            fb = nonempty(f[4][1] if f[4][0] == 'block' else [f[4]])
            return (f[2] == ('bin', '<', ('id', i), call0(('member', ('id', 'method'), 'vp', False), 'size'))
                    and f[3] in (('un', '++', ('id', i)), ('post', '++', ('id', i)))
                    and fb == [('expr', ('call', ('member', ('member', ('index', ('member', ('id', 'method'), 'vp', False), ('id', i)), 'used_by_vp', True), 'push_back', False),
                                         [('initlist', [('un', '&', ('id', 'method')), ('id', i)])]))])
        if rest[3] != used and not used_indexed(rest[3]):
            raise mc.Unsupported('used_by_vp is no longer filled by `for (method : methods) { i = 0; for (vp : method.vp) vp->used_by_vp.push_back({&method, i++}); }`')
    except mc.Unsupported as e:
        die(str(e))
    out = ('(* GENERATED by translators/augmeth.py from %s - do not edit.\n'
           '   compiler<Policy>::augment_methods, in the language of Model/MiniMeth.v. *)\n'
           'From Y2 Require Import Model.MiniMeth.\n\nDefinition gen_augment_methods : meth_src :=\n  mk_meth_src\n  %s\n  UAppendInMethodAndParameterOrder.\n' % (SRC, text))
    vlib.write_if_changed(os.path.join(vlib.COQ, 'Gen', 'GenMeth.v'), out)


if __name__ == '__main__':
    main()
