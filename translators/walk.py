#!/usr/bin/env python3
"""/repo/include/yorel/yomm2/core.hpp  ->  coq/Gen/GenWalk.v      (properties C01 C04 C12: the call-time table walk)

Source-to-Gallina translation of the function templates that walk the dispatch tables when a method is called:
    method<Key, R(A...), Policy>::resolve_uni / resolve_multi_first / resolve_multi_next<VirtualArg>
and of the entry `resolve` (which of them starts the walk).  The bodies are parsed (translators/_minicpp.py) and
lowered statement by statement into the language of coq/Model/MiniWalk.v: `if constexpr` conditions become named
static conditions, the locals vtbl / slot / stride / dispatch become frame slots, array accesses become reads, and
`return resolve_X<...>(...more_args...)` becomes a tail call that records the VirtualArg passed on and whether the
dispatch pointer is passed.  Anything outside the subset is refused (exit 3, naming the construct).
Proofs/WalkSource.v proves the interpreted translation equal to Model.Compile.resolve.
"""
import os, re, sys

sys.path.insert(0, os.path.dirname(os.path.abspath(__file__)))
sys.path.insert(0, os.path.join(os.path.dirname(os.path.abspath(__file__)), '..', 'tools'))
import vlib
import _minicpp as mc

REPO = os.environ.get('VERIF_REPO', '/repo')
SRC = os.path.join(REPO, 'include/yorel/yomm2/core.hpp')

TEMPLATES = ('is_virtual', 'mp_first', 'mp_rest', 'is_virtual_ptr', 'vptr', 'has_static_offsets', 'static_offsets', 'has_facet',
             'check_static_offset', 'resolve_uni', 'resolve_multi_first', 'resolve_multi_next', 'types')
LOCALS = {'vtbl': 'LVtbl', 'slot': 'LSlot', 'stride': 'LStride', 'dispatch': 'LDispatch'}
FNAME = {'resolve_uni': 'FUni', 'resolve_multi_first': 'FMultiFirst', 'resolve_multi_next': 'FMultiNext'}
METHOD = r'method\s*<\s*Key\s*,\s*R\s*\(\s*A\s*\.\.\.\s*\)\s*,\s*Policy\s*>\s*::\s*'


def die(msg):
    sys.stderr.write('walk.py: ' + msg + '\n')
    print('walk.py: ' + msg)
    sys.exit(3)


def norm(t):
    return re.sub(r'\s+', '', t)


class Lower:
    def __init__(self, fname, has_dispatch_param):
        self.fname = fname
        self.locals = set(['dispatch']) if has_dispatch_param else set()

    def bad(self, what, node):
        raise mc.Unsupported('%s: %s: %s' % (self.fname, what, mc.show(node)))

    def i(self, e):
        k = e[0]
        if k == 'num':
            return '(IConst %d)' % e[1]
        if k == 'id' and e[1] == 'VirtualArg':
            return 'IVirtualArg'
        if k == 'id' and e[1] == 'arity':
            return 'IArity'
        if k == 'bin' and e[1] in ('+', '-'):
            return '(%s %s %s)' % ('IAdd' if e[1] == '+' else 'ISub', self.i(e[2]), self.i(e[3]))
        self.bad('index expression not in the subset', e)

    def c(self, e):
        if e[0] == 'scoped' and e[2] == 'value' and e[1][0] == 'tmpl':
            name, targs = e[1][1], [norm(t) for t in e[1][2]]
            if name == 'is_virtual' and targs == ['mp_first<MethodArgList>']:
                return 'CFirstIsVirtual'
            if name == 'has_static_offsets' and targs == ['method']:
                return 'CStaticOffsets'
        if e[0] == 'tmpl' and e[1] == 'is_virtual_ptr' and [norm(t) for t in e[2]] == ['ArgType']:
            return 'CArgIsVirtualPtr'
        if e[0] == 'tmpl' and e[1] == 'Policy::has_facet' and [norm(t) for t in e[2]] == ['policy::runtime_checks']:
            return 'CRuntimeChecks'
        if e[0] == 'bin' and e[1] == '==':
            return '(CIdxEq %s %s)' % (self.i(e[2]), self.i(e[3]))
        self.bad('if constexpr condition not in the subset', e)

    def r(self, e):
        k = e[0]
        if k == 'id' and e[1] in LOCALS:
            if e[1] not in self.locals:
                self.bad('local used before its declaration', e)
            return '(RLocal %s)' % LOCALS[e[1]]
        if k == 'call' and e[1] == ('member', ('id', 'arg'), '_vptr', False) and e[2] == []:
            return 'RVptrEmbedded'
        if k == 'call' and e[1][0] == 'tmpl' and e[1][1] == 'vptr' and [norm(t) for t in e[1][2]] == ['ArgType'] and e[2] == [('id', 'arg')]:
            return 'RVptrCall'
        if k == 'call' and e[1] == ('id', 'Policy::dynamic_vptr') and e[2] == [('id', 'arg')]:
            return 'RDynamicVptr'
        if k == 'index':
            base, idx = e[1], e[2]
            if base == ('member', ('this',), 'slots_strides', True):
                return '(RSS %s)' % self.i(idx)
            if base[0] == 'scoped' and base[1][0] == 'tmpl' and base[1][1] == 'static_offsets' and [norm(t) for t in base[1][2]] == ['method']:
                if base[2] == 'slots':
                    return '(RStaticSlot %s)' % self.i(idx)
                if base[2] == 'strides':
                    return '(RStaticStride %s)' % self.i(idx)
                self.bad('unknown member of static_offsets<method>', e)
            return '(RAt %s %s)' % (self.r(base), self.r(idx))
        if k == 'un' and e[1] == '*':
            return '(RDeref %s)' % self.r(e[2])
        if k == 'bin' and e[1] == '+':
            return '(RAdd %s %s)' % (self.r(e[2]), self.r(e[3]))
        if k == 'bin' and e[1] == '*':
            return '(RMul %s %s)' % (self.r(e[2]), self.r(e[3]))
        if k == 'cast' and e[1] == 'reinterpret_cast' and norm(e[2]) == 'conststd::uintptr_t*':
            return '(RAsPtr %s)' % self.r(e[3])
        self.bad('run-time expression not in the subset', e)

    def reuse_dead_local(self, stmts, outer=()):
        """T const x = E;  REST      with x a name the frame does not have, E mentioning a frame local V that REST never mentions,
           (nor does anything that runs after this block), and REST never assigning x
           is      V = E;  REST[x := V]      (V is dead after E: its storage can hold x)"""
        stmts = list(stmts)
        for i, st in enumerate(stmts):
            if st[0] == 'decl' and len(st[2]) == 1 and st[2][0][0] not in LOCALS and st[2][0][1] is not None and (norm(st[1]).endswith('const') or ('*' not in st[1] and norm(st[1]).startswith('const'))):
                x, init = st[2][0]           # declared const: the compiler guarantees REST does not assign it
                rest = stmts[i + 1:]
                if not any(mc._mentions(init, v) for v in LOCALS) and not mc._mentions(init, 'arg'):
                    # a name for an expression no assignment of this function can change (a compile-time table, slots_strides)
                    stmts = stmts[:i] + mc._subst_ids(rest, {x: init})
                    return self.reuse_dead_local(stmts, outer)
                for v in ('dispatch', 'vtbl', 'slot', 'stride'):
                    if mc._mentions(init, v) and not mc._mentions(rest, v) and not mc._mentions(list(outer), v) and v in self.locals:
                        stmts = stmts[:i] + [('expr', ('assign', '=', ('id', v), init))] + mc._subst_ids(rest, {x: ('id', v)})
                        break
        return stmts

    def seq(self, stmts):
        outer = list(getattr(self, 'cont', []))       # what runs after this block, in the enclosing blocks
        stmts = self.reuse_dead_local(stmts, outer)
        out = []
        for j, t in enumerate(stmts):
            self.cont = list(stmts[j + 1:]) + outer
            out.append(self.s(t))
        self.cont = outer
        out = [t for t in out if t != 'WSkip']
        if not out:
            return 'WSkip'
        r = out[-1]
        for t in reversed(out[:-1]):
            r = '(WSeq %s\n  %s)' % (t, r)
        return r

    def branch(self, st):
        """a branch of an if constexpr: locals declared inside stay inside"""
        saved = set(self.locals)
        r = self.s(st)
        self.locals = saved
        return r

    def s(self, st):
        k = st[0]
        if k == 'block':
            return self.seq(st[1])
        if k == 'using':
            return 'WSkip'
        if k == 'if':
            if not st[1]:
                self.bad('a run-time if (only if constexpr is in the subset)', st[2])
            if st[2][0] == 'bin' and st[2][1] == '!=':
                # if constexpr (a != b) A else B   is   if constexpr (a == b) B else A
                st = (st[0], st[1], ('bin', '==', st[2][2], st[2][3]), st[4] if st[4] else ('block', []), st[3])
            return '(WIfc %s\n  %s\n  %s)' % (self.c(st[2]), self.branch(st[3]), self.branch(st[4]) if st[4] else 'WSkip')
        if k == 'decl':
            out = []
            for name, init in st[2]:
                if name not in LOCALS:
                    self.bad('unknown local (known: vtbl, slot, stride, dispatch)', st)
                if name in self.locals:
                    self.bad('local declared twice', st)
                if init is not None:
                    out.append('(WSet %s %s)' % (LOCALS[name], self.r(init)))
                self.locals.add(name)
            return self.seq_text(out)
        if k == 'expr':
            e = st[1]
            if e[0] == 'assign' and e[1] == '=' and e[2][0] == 'id' and e[2][1] in LOCALS:
                if e[2][1] not in self.locals:
                    self.bad('assignment to an undeclared local', st)
                return '(WSet %s %s)' % (LOCALS[e[2][1]], self.r(e[3]))
            if e[0] == 'assign' and e[1] == '+=' and e[2][0] == 'id' and e[2][1] in LOCALS:
                # x += e   is   x = x + e
                if e[2][1] not in self.locals:
                    self.bad('assignment to an undeclared local', st)
                return '(WSet %s (RAdd %s %s))' % (LOCALS[e[2][1]], self.r(e[2]), self.r(e[3]))
            if e[0] == 'call' and e[1][0] == 'tmpl' and e[1][1] == 'check_static_offset' and len(e[2]) == 2:
                return '(WCheck %s %s)' % (self.r(e[2][0]), self.r(e[2][1]))
            self.bad('expression statement not in the subset', st)
        if k == 'return':
            e = st[1]
            if e is None:
                self.bad('return without a value', st)
            if e[0] == 'call' and e[1][0] == 'tmpl' and e[1][1] in FNAME:
                return self.tail(e)
            return '(WReturn %s)' % self.r(e)
        self.bad('statement not in the subset', st)

    def seq_text(self, out):
        if not out:
            return 'WSkip'
        r = out[-1]
        for t in reversed(out[:-1]):
            r = '(WSeq %s\n  %s)' % (t, r)
        return r

    def tail(self, e):
        name = e[1][1]
        targs = [norm(t) for t in e[1][2]]
        args = e[2]
        va = 'None'
        if name == 'resolve_multi_next':
            if len(targs) != 3 or targs[1:] != ['mp_rest<MethodArgList>', 'MoreArgTypes...']:
                self.bad('template arguments of the tail call', e)
            vae = mc.Parser(mc.tokenize(e[1][2][0])).parse_assign()
            va = '(Some %s)' % self.i(vae)
            if len(args) != 2 or args[1] != ('pack', ('id', 'more_args')):
                self.bad('arguments of the tail call (expected: dispatch pointer, more_args...)', e)
            return '(WTail %s %s (Some %s))' % (FNAME[name], va, self.r(args[0]))
        if targs not in (['mp_rest<MethodArgList>', 'MoreArgTypes...'], ['mp_rest<MethodArgList>']):
            self.bad('template arguments of the tail call', e)
        if args != [('pack', ('id', 'more_args'))]:
            self.bad('arguments of the tail call (expected: more_args...)', e)
        return '(WTail %s None None)' % FNAME[name]


def unqualify(e):
    """detail::is_virtual_ptr<ArgType> -> is_virtual_ptr<ArgType> (the functions say `using namespace detail`)"""
    if isinstance(e, tuple):
        if e and e[0] == 'tmpl' and isinstance(e[1], str) and e[1].startswith('detail::'):
            return ('tmpl', e[1][len('detail::'):]) + tuple(unqualify(x) for x in e[2:])
        return tuple(unqualify(x) for x in e)
    if isinstance(e, list):
        return [unqualify(x) for x in e]
    return e


def main():
    try:
        src = mc.strip_comments(open(SRC).read())
    except OSError as e:
        die('cannot read %s: %s' % (SRC, e))
    defs = {}
    try:
        for name in ('resolve_uni', 'resolve_multi_first', 'resolve_multi_next'):
            params, body, line = mc.find_function(src, METHOD + name + r'\b', name)
            p = norm(params)
            want = 'constArgType&arg,constMoreArgTypes&...more_args'
            if name == 'resolve_multi_next':
                want = 'conststd::uintptr_t*dispatch,' + want
            if p != want:
                raise mc.Unsupported('%s: parameter list changed: %s' % (name, params))
            ast = mc.parse_function_body(body, TEMPLATES)
            defs[name] = Lower(name, name == 'resolve_multi_next').s(ast)
        # method::vptr<ArgType>(arg), which the three functions may call
        params, body, line = mc.find_function(src, METHOD + r'vptr\b', 'vptr')
        if norm(params) != 'constArgType&arg':
            raise mc.Unsupported('vptr: parameter list changed: ' + params)
        ast = mc.parse_function_body(body, TEMPLATES + ('detail::is_virtual_ptr',))
        defs['vptr'] = Lower('vptr', False).s(unqualify(ast))
        # the entry: method::resolve
        params, body, line = mc.find_function(src, METHOD + r'resolve\b', 'resolve')
        ast = mc.parse_function_body(body, TEMPLATES)
        st = [x for x in ast[1] if x != ('using',)]
        ok = (len(st) == 3 and st[0] == ('decl', 'std::uintptr_t', [('pf', None)])
              and st[1][0] == 'if' and st[1][1] and st[1][2][0] == 'bin' and st[1][2][1] == '==' and st[1][2][2] == ('id', 'arity')
              and st[1][2][3][0] == 'num'
              and st[2][0] == 'return' and st[2][1][0] == 'cast' and st[2][1][3] == ('id', 'pf'))
        entry = None
        if ok:
            def start(b):
                if b[0] == 'block' and len(b[1]) == 1:
                    b = b[1][0]
                if b[0] == 'expr' and b[1][0] == 'assign' and b[1][2] == ('id', 'pf') and b[1][3][0] == 'call' \
                        and b[1][3][1][0] == 'tmpl' and b[1][3][1][1] in FNAME \
                        and [norm(t) for t in b[1][3][1][2]] == ['types<A...>', 'ArgType...'] \
                        and b[1][3][2] == [('pack', ('id', 'args'))]:
                    return FNAME[b[1][3][1][1]]
                return None
            a, b = start(st[1][3]), start(st[1][4]) if st[1][4] else None
            if a and b:
                entry = '(%d, %s, %s)' % (st[1][2][3][1], a, b)
        if not entry:
            raise mc.Unsupported('resolve: body is no longer <pf; if constexpr (arity == N) pf = f<types<A...>, ArgType...>(args...); '
                                 'else pf = g<...>(args...); return reinterpret_cast<...>(pf);>: ' + mc.show(st))
    except mc.Unsupported as e:
        die(str(e))
    text = ('(* GENERATED by translators/walk.py from %s - do not edit.\n'
            '   method::resolve_uni / resolve_multi_first / resolve_multi_next and the entry of method::resolve, translated\n'
            '   into the language of Model/MiniWalk.v. *)\n'
            'From Coq Require Import List.\nFrom Y2 Require Import Model.MiniWalk.\n\n'
            'Definition gen_resolve_uni : wstmt :=\n %s.\n\n'
            'Definition gen_resolve_multi_first : wstmt :=\n %s.\n\n'
            'Definition gen_resolve_multi_next : wstmt :=\n %s.\n\n'
            'Definition gen_vptr : wstmt :=\n %s.\n\n'
            'Definition gen_walkfns : walkfns :=\n  {| wf_uni := gen_resolve_uni; wf_first := gen_resolve_multi_first; wf_next := gen_resolve_multi_next; wf_vptr := gen_vptr |}.\n\n'
            'Definition gen_entry : nat * fname * fname := %s.\n'
            % (SRC, defs['resolve_uni'], defs['resolve_multi_first'], defs['resolve_multi_next'], defs['vptr'], entry))
    vlib.write_if_changed(os.path.join(vlib.COQ, 'Gen', 'GenWalk.v'), text)


if __name__ == '__main__':
    main()
