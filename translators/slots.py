#!/usr/bin/env python3
"""/repo/include/yorel/yomm2/detail/compiler.hpp  ->  coq/Gen/GenSlot.v      (properties C04, C01)

Source-to-Gallina translation of slot allocation:
  - compiler<Policy>::assign_lattice_slots: the body of its loop over cls.used_by_vp (how the slot of one (method, parameter)
    is chosen and where it is marked used / reserved) is lowered statement by statement into the language of
    coq/Model/MiniSlot.v; the wrapper around it (the mark guard, `if (!cls.used_by_vp.empty())`, the recursion over
    direct_derived) is matched on the AST and, independently, lowered statement by statement (gen_lattice_slots);
  - assign_tree_slots and assign_slots are lowered statement by statement into the second language of MiniSlot.v
    (gen_tree_slots, gen_assign_slots).
Parsed with translators/_minicpp.py (trace output dropped).  Anything else is refused (exit 3).  Proofs/SlotSource.v proves that
running the translated body is Model.Compile.lattice_assign and that running the translated assign_slots over the translated
recursive functions is Model.Compile.assign_slots.
"""
import os, re, sys

sys.path.insert(0, os.path.dirname(os.path.abspath(__file__)))
sys.path.insert(0, os.path.join(os.path.dirname(os.path.abspath(__file__)), '..', 'tools'))
import vlib
import _minicpp as mc

REPO = os.environ.get('VERIF_REPO', '/repo')
SRC = os.path.join(REPO, 'include/yorel/yomm2/detail/compiler.hpp')


def die(msg):
    sys.stderr.write('slots.py: ' + msg + '\n')
    print('slots.py: ' + msg)
    sys.exit(3)


def nonempty(stmts):
    return [s for s in stmts if s != ('block', []) and s != ('using',)]


def call0(obj, name):
    return ('call', ('member', obj, name, False), [])


def subst(node, env):
    if isinstance(node, tuple):
        if len(node) == 2 and node[0] == 'id' and node[1] in env:
            return env[node[1]]
        return tuple(subst(x, env) for x in node)
    if isinstance(node, list):
        return [subst(x, env) for x in node]
    return node


def rename_loop(st, canon):
    """a range-for with its variable renamed to `canon`"""
    if st[0] == 'rangefor' and isinstance(st[1], str) and st[1] != canon:
        return ('rangefor', canon, st[2], subst(st[3], {st[1]: ('id', canon)}))
    return st


def inline_consts(stmts):
    """`const T v = e;` (never assigned afterwards) removed and its uses replaced by e; applies inside nested blocks too"""
    out = []
    env = {}
    for st in stmts:
        st = subst(st, env) if env else st
        if st[0] == 'decl' and len(st[2]) == 1 and st[2][0][1] is not None and st[1].split()[0] == 'const' and st[2][0][1][0] != 'lambda':
            env[st[2][0][0]] = st[2][0][1]
            continue
        out.append(st)
    return out


def positive_guard(body):
    """[if (C) continue; REST]  ->  [if (!C) { REST }]   (the last form is what the original code has)"""
    body = nonempty(body)
    if body and body[0][0] == 'if' and not body[0][1] and body[0][4] is None and nonempty(body[0][3][1] if body[0][3][0] == 'block' else [body[0][3]]) == [('continue',)]:
        c = body[0][2]
        neg = c[2] if (c[0] == 'un' and c[1] == '!') else ('un', '!', c)
        return [('if', False, neg, ('block', body[1:]), None)]
    return body


class Lower:
    def __init__(self):
        self.local = None     # name of the local bitset
        self.slot = None      # name of the slot variable
        self.cov = None       # loop variable over covariant classes
        self.base = None      # loop variable over transitive bases
        self.base_of_cov = False
        self.uses_helper = False

    def bad(self, msg, node):
        raise mc.Unsupported('assign_lattice_slots: %s: %s' % (msg, mc.show(node)))

    def ref(self, x):
        if x == ('member', ('id', 'cls'), 'used_slots', False):
            return 'BClsUsed'
        if x == ('member', ('id', 'cls'), 'reserved_slots', False):
            return 'BClsResv'
        if self.local and x == ('id', self.local):
            return 'BLocal'
        if self.base and x == ('member', ('id', self.base), 'reserved_slots', True):
            return 'BBaseResv'
        if self.cov and x == ('member', ('id', self.cov), 'used_slots', True):
            return 'BCovUsed'
        self.bad('not one of the bitsets the model knows', x)

    def seq(self, stmts):
        out = []
        stmts = nonempty(stmts)
        i = 0
        while i < len(stmts):
            st = stmts[i]
            # std::size_t slot = 0; for (; slot < local.size(); ++slot) { if (!local[slot]) break; }
            if (st[0] == 'decl' and len(st[2]) == 1 and st[2][0][1] == ('num', 0) and i + 1 < len(stmts) and stmts[i + 1][0] == 'for' and self.local):
                v = st[2][0][0]
                f = stmts[i + 1]
                brk = ('if', False, ('un', '!', ('index', ('id', self.local), ('id', v))), ('block', [('break',)]), None)
                brk2 = ('if', False, ('un', '!', ('index', ('id', self.local), ('id', v))), ('break',), None)
                body = nonempty(f[4][1] if f[4][0] == 'block' else [f[4]])
                if (f[1] is None and f[2] == ('bin', '<', ('id', v), call0(('id', self.local), 'size')) and f[3] in (('un', '++', ('id', v)), ('post', '++', ('id', v)))
                        and body in ([brk], [brk2])):
                    self.slot = v
                    out.append('LFirstFree')
                    i += 2
                    continue
                self.bad('the search for the first available slot is no longer `for (; slot < unavailable.size(); ++slot) if (!unavailable[slot]) break;`', f)
            # std::size_t slot = 0; while (slot < local.size() && local[slot]) ++slot;
            if (st[0] == 'decl' and len(st[2]) == 1 and st[2][0][1] == ('num', 0) and i + 1 < len(stmts) and stmts[i + 1][0] == 'while' and self.local):
                v = st[2][0][0]
                w = stmts[i + 1]
                wb = nonempty(w[2][1] if w[2][0] == 'block' else [w[2]])
                if (w[1] == ('bin', '&&', ('bin', '<', ('id', v), call0(('id', self.local), 'size')), ('index', ('id', self.local), ('id', v)))
                        and wb in ([('expr', ('un', '++', ('id', v)))], [('expr', ('post', '++', ('id', v)))])):
                    self.slot = v
                    out.append('LFirstFree')
                    i += 2
                    continue
            out.append(self.s(st))
            i += 1
        out = [t for t in out if t != 'LSkip']
        if not out:
            return 'LSkip'
        r = out[-1]
        for t in reversed(out[:-1]):
            r = '(LSeq %s\n  %s)' % (t, r)
        return r

    def s(self, st):
        k = st[0]
        if k == 'block':
            return self.seq(st[1])
        if (k == 'decl' and len(st[2]) == 1 and self.local and st[2][0][1] in (('call', ('id', 'detail::first_clear_bit'), [('id', self.local)]),
                                                                                 ('call', ('id', 'first_clear_bit'), [('id', self.local)]))):
            # const auto slot = detail::first_clear_bit(unavailable);   the helper's body is checked in main()
            self.slot = st[2][0][0]
            self.uses_helper = True
            return 'LFirstFree'
        if k == 'decl' and len(st[2]) == 1 and st[2][0][1] is not None and self.local is None and st[1].strip() == 'auto':
            name, init = st[2][0]
            r = self.ref(init)
            self.local = name
            return '(LCopyLocal %s)' % r
        if k == 'expr':
            e = st[1]
            if e[0] == 'call' and e[1] in (('id', 'detail::merge_into'), ('id', 'merge_into')) and len(e[2]) == 2:
                return '(LMerge %s %s)' % (self.ref(e[2][0]), self.ref(e[2][1]))
            if e[0] == 'call' and e[1] in (('id', 'detail::set_bit'), ('id', 'set_bit')) and len(e[2]) == 2 and self.slot and e[2][1] == ('id', self.slot):
                return '(LSetBit %s)' % self.ref(e[2][0])
            want = ('assign', '=', ('index', ('member', ('member', ('id', 'mp'), 'method', False), 'slots', True), ('member', ('id', 'mp'), 'param', False)), ('id', self.slot))
            if self.slot and e == want:
                return 'LSetMethodSlot'
            self.bad('expression statement not in the subset', st)
        if k == 'rangefor' and isinstance(st[1], str):
            if st[2] == ('member', ('id', 'cls'), 'transitive_bases', False) and self.base is None:
                self.base = st[1]
                b = self.s(st[3]); self.base = None
                return '(LForBases false %s)' % b
            if self.cov and st[2] == ('member', ('id', self.cov), 'transitive_bases', True) and self.base is None:
                self.base = st[1]
                b = self.s(st[3]); self.base = None
                return '(LForBases true %s)' % b
            if st[2] == ('member', ('id', 'cls'), 'covariant_classes', False) and self.cov is None:
                self.cov = st[1]
                b = self.s(st[3]); self.cov = None
                return '(LForCovariant %s)' % b
            self.bad('loop not in the subset (accepted: cls.transitive_bases, covariant->transitive_bases, cls.covariant_classes)', st)
        if k == 'if' and not st[1] and st[4] is None and self.cov:
            if st[2] in (('bin', '!=', ('un', '&', ('id', 'cls')), ('id', self.cov)), ('bin', '!=', ('id', self.cov), ('un', '&', ('id', 'cls')))):
                return '(LIfNotSelf %s)' % self.s(st[3])
        self.bad('statement not in the subset', st)


def tree_counter_form(stmts):
    """for (T i = 0; i < U.size(); ++i) { ... U[i] ... base_slot + i ... }   REST(base_slot + U.size())      with U = cls.used_by_vp
         is   auto next_slot = base_slot; for (mp : U) { ... mp ... next_slot ...; ++next_slot; }   REST(next_slot)
       (next_slot = base_slot + i holds at the top of every iteration; the loop makes U.size() iterations)"""
    U = ('member', ('id', 'cls'), 'used_by_vp', False)
    BASE = ('id', 'base_slot')
    for k, st in enumerate(stmts):
        if not (st[0] == 'for' and st[1] and st[1][0] == 'decl' and len(st[1][2]) == 1 and st[1][2][0][1] == ('num', 0)):
            continue
        i = st[1][2][0][0]
        ok = (st[2] in (('bin', '<', ('id', i), call0(U, 'size')), ('bin', '!=', ('id', i), call0(U, 'size')))
              and st[3] in (('un', '++', ('id', i)), ('post', '++', ('id', i))))
        body = inline_consts(nonempty(st[4][1] if st[4][0] == 'block' else [st[4]]))
        rest_repr = repr(stmts[:k]) + repr(body) + repr(stmts[k + 1:])
        if not ok or "('id', 'mp')" in rest_repr or "('id', 'next_slot')" in rest_repr:
            continue
        if mc._assigns(body, i) or mc._mentions(body, 'continue') or mc._mentions(body, 'break'):
            continue

        def rw(n):
            if isinstance(n, list):
                return [rw(x) for x in n]
            if isinstance(n, tuple):
                if n == ('index', U, ('id', i)):
                    return ('id', 'mp')
                if n in (('bin', '+', BASE, ('id', i)), ('bin', '+', ('id', i), BASE)):
                    return ('id', 'next_slot')
                return tuple(rw(x) for x in n)
            return n
        body2 = rw(body)
        if "('id', %r)" % i in repr(body2):
            continue                       # the index is used in some other way

        def rw_after(n):
            if isinstance(n, list):
                return [rw_after(x) for x in n]
            if isinstance(n, tuple):
                if n in (('bin', '+', BASE, call0(U, 'size')), ('bin', '+', call0(U, 'size'), BASE)):
                    return ('id', 'next_slot')
                return tuple(rw_after(x) for x in n)
            return n
        return (stmts[:k] + [('decl', 'auto', [('next_slot', BASE)]),
                             ('rangefor', 'mp', U, ('block', body2 + [('expr', ('un', '++', ('id', 'next_slot')))]))] + rw_after(stmts[k + 1:]))
    return stmts


class ALower:
    """assign_tree_slots / the wrapper of assign_lattice_slots / assign_slots, statement by statement -> astmt (Model/MiniSlot.v)"""
    def __init__(self, fn, named=None):
        self.fn = fn
        self.next = None      # the running slot of assign_tree_slots
        self.mp = None
        self.pd = None
        self.named = named or {}
        self.conds = {}

    def bad(self, msg, node):
        raise mc.Unsupported('%s: %s: %s' % (self.fn, msg, mc.show(node)[:300]))

    def seq(self, sts):
        sts = nonempty(sts)
        out = []
        i = 0
        while i < len(sts):
            st = sts[i]
            if st[0] == 'if' and not st[1] and st[4] is None and nonempty(st[3][1] if st[3][0] == 'block' else [st[3]]) == [('continue',)] \
                    and st[2] == call0(('member', ('id', 'cls'), 'used_slots', False), 'empty'):
                out.append('(AIfUsedNonEmpty %s)' % self.seq(sts[i + 1:]))       # if (used_slots.empty()) continue; REST
                break
            if st[0] == 'if' and not st[1] and st[4] is None and nonempty(st[3][1] if st[3][0] == 'block' else [st[3]]) == [('continue',)] and i + 1 < len(sts):
                # if (c) continue; REST     is     if (!c) { REST }      (REST runs to the end of the loop body)
                c = st[2]
                neg = c[2] if c[0] == 'un' and c[1] == '!' else ('bin', {'==': '!=', '!=': '=='}[c[1]], c[2], c[3]) if c[0] == 'bin' and c[1] in ('==', '!=') else ('un', '!', c)
                out.append(self.s(('if', False, neg, ('block', sts[i + 1:]), None)))
                break
            # auto v = cls.used_slots.find_first(); if (v == npos) v = 0; cls.first_slot = v;     (v then stands for cls.first_slot)
            if (st[0] == 'decl' and len(st[2]) == 1 and st[2][0][1] == call0(('member', ('id', 'cls'), 'used_slots', False), 'find_first') and i + 2 < len(sts)):
                v = ('id', st[2][0][0])
                npos = ('scoped', ('tmpl', 'boost::dynamic_bitset', ['']), 'npos')
                zero = ('expr', ('assign', '=', v, ('num', 0)))
                a, b = sts[i + 1], sts[i + 2]
                if (a[0] == 'if' and not a[1] and a[4] is None and a[2] in (('bin', '==', v, npos), ('bin', '==', npos, v))
                        and nonempty(a[3][1] if a[3][0] == 'block' else [a[3]]) == [zero]
                        and b == ('expr', ('assign', '=', ('member', ('id', 'cls'), 'first_slot', False), v))
                        and not mc._assigns(sts[i + 3:], st[2][0][0])):
                    out.append('ASetFirstFromUsed')
                    sts = sts[:i + 3] + subst(sts[i + 3:], {st[2][0][0]: ('member', ('id', 'cls'), 'first_slot', False)})
                    i += 3
                    continue
            # auto first_slot = cls.used_slots.find_first(); cls.first_slot = first_slot == npos ? 0 : first_slot;
            if (st[0] == 'decl' and len(st[2]) == 1 and st[2][0][1] == call0(('member', ('id', 'cls'), 'used_slots', False), 'find_first') and i + 1 < len(sts)):
                v = ('id', st[2][0][0])
                nxt = sts[i + 1]
                npos = ('scoped', ('tmpl', 'boost::dynamic_bitset', ['']), 'npos')
                if nxt == ('expr', ('assign', '=', ('member', ('id', 'cls'), 'first_slot', False), ('cond', ('bin', '==', v, npos), ('num', 0), v))):
                    out.append('ASetFirstFromUsed')
                    i += 2
                    continue
            out.append(self.s(st))
            i += 1
        out = [t for t in out if t != 'ASkip']
        if not out:
            return 'ASkip'
        r = out[-1]
        for t in reversed(out[:-1]):
            r = '(ASeq %s\n   %s)' % (t, r)
        return r

    def body(self, st):
        return self.seq(st[1] if st[0] == 'block' else [st])

    def s(self, st):
        k = st[0]
        CLS = ('id', 'cls')
        if k == 'block':
            return self.seq(st[1])
        if k == 'decl' and len(st[2]) == 1 and self.fn == 'assign_tree_slots' and st[2][0][1] == ('id', 'base_slot') and self.next is None:
            self.next = st[2][0][0]
            return 'ANextFromBase'
        if k == 'decl' and len(st[2]) == 1 and st[2][0][1] is not None and st[2][0][1][0] == 'lambda':
            self.named[st[2][0][0]] = st[2][0][1]
            return 'ASkip'
        if k == 'decl' and len(st[2]) == 1 and st[1] in ('const bool', 'bool', 'const auto', 'auto') and st[2][0][1] is not None \
                and self.fn == 'assign_slots' and self.tree_cond(st[2][0][1]) is not None:
            self.conds[st[2][0][0]] = self.tree_cond(st[2][0][1])       # a name for the test (a pure expression over the lattice)
            return 'ASkip'
        if k == 'rangefor' and isinstance(st[1], str):
            if st[2] == ('member', CLS, 'used_by_vp', False) and self.mp is None:
                self.mp = st[1]
                if self.fn == 'assign_lattice_slots':
                    self.mp = None
                    return '(AForUsedBy ALatticeBody)'          # the body is lowered by Lower (gen_lattice_assign)
                b = self.body(st[3]); self.mp = None
                return '(AForUsedBy %s)' % b
            if st[2] == ('member', CLS, 'direct_derived', False) and self.pd is None:
                self.pd = st[1]
                b = self.body(st[3]); self.pd = None
                return '(AForDerived %s)' % b
            if st[2] == ('id', 'classes') and self.fn == 'assign_slots':
                b = subst(st[3], {st[1]: CLS})
                b = ('block', inline_consts(nonempty(b[1] if b[0] == 'block' else [b])))      # const locals of the loop body: names for pure expressions
                return '(AForClasses %s)' % ALower(self.fn, self.named).body(b)
        if k == 'if' and not st[1]:
            c = st[2]
            if self.fn == 'assign_lattice_slots' and st[4] is None:
                if c in (('bin', '==', ('member', CLS, 'mark', False), ('id', 'class_mark')), ('bin', '==', ('id', 'class_mark'), ('member', CLS, 'mark', False))) \
                        and nonempty(st[3][1] if st[3][0] == 'block' else [st[3]]) == [('return', None)]:
                    return 'AReturnIfMarked'
                if c == ('un', '!', call0(('member', CLS, 'used_by_vp', False), 'empty')):
                    return '(AIfUsedByNonEmpty %s)' % self.body(st[3])
            if self.fn == 'assign_slots':
                db = ('member', CLS, 'direct_bases', False)
                if st[4] is None and c in (('bin', '==', call0(db, 'size'), ('num', 0)), call0(db, 'empty')):
                    return '(AIfRoot %s)' % self.body(st[3])
                t = self.tree_cond(c)
                if t is not None and st[4] is not None:
                    a, b = self.body(st[3]), self.body(st[4])
                    return '(AIfTree %s %s)' % ((a, b) if t else (b, a))
        if k == 'expr':
            e = st[1]
            if self.mp and self.next:
                lhs = ('index', ('member', ('member', ('id', self.mp), 'method', False), 'slots', True), ('member', ('id', self.mp), 'param', False))
                if e == ('assign', '=', lhs, ('post', '++', ('id', self.next))):
                    return '(ASeq AStoreNext AIncNext)'
                if e == ('assign', '=', lhs, ('id', self.next)):
                    return 'AStoreNext'
            if self.next and e == ('un', '++', ('id', self.next)):
                return 'AIncNext'
            if e == ('assign', '=', ('member', CLS, 'first_slot', False), ('num', 0)):
                return 'AFirstSlotZero'
            if self.next and e == ('call', ('member', ('member', CLS, 'vtbl', False), 'resize', False), [('id', self.next)]):
                return 'AVtblResizeNext'
            if self.pd and self.next and e == ('call', ('id', 'assign_tree_slots'), [('un', '*', ('id', self.pd)), ('id', self.next)]):
                return 'ARecurseTree'
            if self.pd and e == ('call', ('id', 'assign_lattice_slots'), [('un', '*', ('id', self.pd))]):
                return 'ARecurseLattice'
            if e == ('assign', '=', ('member', CLS, 'mark', False), ('id', 'class_mark')):
                return 'AMark'
            if e == ('un', '++', ('id', 'class_mark')):
                return 'ANewClassMark'
            if e == ('call', ('id', 'assign_tree_slots'), [CLS, ('num', 0)]):
                return 'ACallTree0'
            if e == ('call', ('id', 'assign_lattice_slots'), [CLS]):
                return 'ACallLattice'
            us = ('member', CLS, 'used_slots', False)
            if e == ('call', ('member', ('member', CLS, 'vtbl', False), 'resize', False), [('bin', '-', call0(us, 'size'), ('member', CLS, 'first_slot', False))]):
                return 'AVtblResizeUsed'
        self.bad('statement not in the subset', st)

    def tree_cond(self, c):
        """True: the condition says no covariant class has several direct bases; False: it says one has; None: neither"""
        cov = ('member', ('id', 'cls'), 'covariant_classes', False)
        if c[0] == 'id' and c[1] in self.conds:
            return self.conds[c[1]]
        if c[0] == 'un' and c[1] == '!':
            t = self.tree_cond(c[2])
            return None if t is None else not t

        def multi(e):
            if e[0] == 'id' and e[1] in self.named:
                e = self.named[e[1]]
            return (e[0] == 'lambda' and len(e[2]) == 1
                    and e[3] == ('block', [('return', ('bin', '>', call0(('member', ('id', e[2][0]), 'direct_bases', True), 'size'), ('num', 1)))]))

        def rng(a):
            return len(a) == 3 and a[0] == call0(cov, 'begin') and a[1] == call0(cov, 'end') and multi(a[2])
        if c[0] == 'bin' and c[1] in ('==', '!=') and c[3] == call0(cov, 'end') and c[2][0] == 'call' and c[2][1] == ('id', 'std::find_if') and rng(c[2][2]):
            return c[1] == '=='
        if c[0] == 'call' and c[1] in (('id', 'std::none_of'), ('id', 'std::any_of')) and rng(c[2]):
            return c[1] == ('id', 'std::none_of')
        return None


def main():
    try:
        src = mc.strip_comments(open(SRC).read())
    except OSError as e:
        die('cannot read %s: %s' % (SRC, e))
    try:
        # ---- assign_lattice_slots
        params, body, _ = mc.find_function(src, r'\bvoid\s+compiler<Policy>::assign_lattice_slots\b', 'assign_lattice_slots')
        if re.sub(r'\s+', '', params) != 'class_&cls':
            raise mc.Unsupported('assign_lattice_slots: parameter list changed')
        top = nonempty(mc.parse_function_body(mc.drop_trace(body), ())[1])
        guard = ('if', False, ('bin', '==', ('member', ('id', 'cls'), 'mark', False), ('id', 'class_mark')), ('block', [('return', None)]), None)
        mark = ('expr', ('assign', '=', ('member', ('id', 'cls'), 'mark', False), ('id', 'class_mark')))
        rec = ('rangefor', 'pd', ('member', ('id', 'cls'), 'direct_derived', False), ('block', [('expr', ('call', ('id', 'assign_lattice_slots'), [('un', '*', ('id', 'pd'))]))]))
        if len(top) != 4 or top[0] != guard or top[1] != mark or top[3] != rec:
            raise mc.Unsupported('assign_lattice_slots is no longer <return if marked; mark; the slots of this class; recurse over direct_derived>')
        mid = top[2]
        loop = None
        if mid[0] == 'if' and not mid[1] and mid[4] is None and mid[2] == ('un', '!', call0(('member', ('id', 'cls'), 'used_by_vp', False), 'empty')):
            inner = nonempty(mid[3][1])
            if len(inner) == 1:
                loop = inner[0]
        elif mid[0] == 'rangefor':
            loop = mid
        if not loop or loop[0] != 'rangefor' or loop[1] != 'mp' or loop[2] != ('member', ('id', 'cls'), 'used_by_vp', False):
            raise mc.Unsupported('assign_lattice_slots: the slots of a class are no longer assigned in one loop `for (const auto& mp : cls.used_by_vp)`')
        lw = Lower()
        text = lw.s(loop[3])
        if lw.uses_helper:
            # inline std::size_t first_clear_bit(const boost::dynamic_bitset<>& mask) { size_t bit = 0; while (bit < mask.size() && mask[bit]) ++bit; return bit; }
            hp, hb, _ = mc.find_function(src, r'\binline\s+std::size_t\s+first_clear_bit\b', 'first_clear_bit')
            m = re.fullmatch(r'constboost::dynamic_bitset<>&(\w+)', re.sub(r'\s+', '', hp))
            if not m:
                raise mc.Unsupported('first_clear_bit: parameter list changed: ' + hp)
            mk = m.group(1)
            hbody = nonempty(mc.parse_function_body(hb, ())[1])
            ok = (len(hbody) == 3 and hbody[0][0] == 'decl' and len(hbody[0][2]) == 1 and hbody[0][2][0][1] == ('num', 0) and hbody[2] == ('return', ('id', hbody[0][2][0][0])))
            if ok:
                b = hbody[0][2][0][0]
                cond = ('bin', '&&', ('bin', '<', ('id', b), call0(('id', mk), 'size')), ('index', ('id', mk), ('id', b)))
                wb = nonempty(hbody[1][2][1] if hbody[1][0] == 'while' and hbody[1][2][0] == 'block' else [hbody[1][2]] if hbody[1][0] == 'while' else [])
                ok = hbody[1][0] == 'while' and hbody[1][1] == cond and wb in ([('expr', ('un', '++', ('id', b)))], [('expr', ('post', '++', ('id', b)))])
            if not ok:
                raise mc.Unsupported('first_clear_bit is no longer `bit = 0; while (bit < mask.size() && mask[bit]) ++bit; return bit;`')

        # assign_tree_slots and assign_slots used to be matched here as whole ASTs; they are lowered statement by statement
        # below (ALower) and what is lowered is proved to be Model.Compile.assign_slots (Proofs/SlotSource.v), which
        # decides more spellings and trusts less
    except mc.Unsupported as e:
        die(str(e))
    try:
        def fn_body(name, names=()):
            params, body, _ = mc.find_function(src, r'\bvoid\s+compiler<Policy>::%s\b' % name, name)
            return nonempty(mc.parse_function_body(mc.drop_trace(body), names)[1])
        tree_text = ALower('assign_tree_slots').seq(tree_counter_form(inline_consts(fn_body('assign_tree_slots'))))
        lat_text = ALower('assign_lattice_slots').seq(fn_body('assign_lattice_slots'))
        flatb = []
        for st in fn_body('assign_slots', ('dynamic_bitset',)):
            flatb.extend(nonempty(st[1]) if st[0] == 'block' else [st])
        main_text = ALower('assign_slots').seq(flatb)
    except mc.Unsupported as e:
        die(str(e))
    out = ('(* GENERATED by translators/slots.py from %s - do not edit.\n'
           '   The body of the loop over cls.used_by_vp in compiler<Policy>::assign_lattice_slots, in the language of Model/MiniSlot.v. *)\n'
           'From Y2 Require Import Model.MiniSlot.\n\nDefinition gen_lattice_assign : lstmt :=\n %s.\n\n'
           '(* compiler<Policy>::assign_tree_slots *)\nDefinition gen_tree_slots : astmt :=\n  %s.\n\n'
           '(* compiler<Policy>::assign_lattice_slots, around the body above *)\nDefinition gen_lattice_slots : astmt :=\n  %s.\n\n'
           '(* compiler<Policy>::assign_slots *)\nDefinition gen_assign_slots : astmt :=\n  %s.\n' % (SRC, text, tree_text, lat_text, main_text))
    vlib.write_if_changed(os.path.join(vlib.COQ, 'Gen', 'GenSlot.v'), out)


if __name__ == '__main__':
    main()
