#!/usr/bin/env python3
"""/repo/include/yorel/yomm2/generator.hpp  ->  coq/Gen/GenEnc.v      (property C13)

Source-to-Gallina translation of the part of generator::encode_dispatch_data headed "Calculate data sizes" and of the five
array bounds printed into the emitted struct.  The statements before `os << prelude;` are parsed (translators/_minicpp.py; the
raw-string format is cut out) and lowered into the language of coq/Model/MiniEnc.v: std::accumulate over the methods becomes a
loop whose accumulator is the declared variable; `++x`, `x += e`, `x = e`, declarations; loops over compiler.methods,
compiler.classes and cls.vtbl; `?:`; (std::max).  Anything else is refused (exit 3).  Proofs/EncSource.v proves that the five
printed numbers are e_H, e_S, e_E, e_D, e_T of Model.Codec.encode.
"""
import os, re, sys

sys.path.insert(0, os.path.dirname(os.path.abspath(__file__)))
sys.path.insert(0, os.path.join(os.path.dirname(os.path.abspath(__file__)), '..', 'tools'))
import vlib
import _minicpp as mc

REPO = os.environ.get('VERIF_REPO', '/repo')
SRC = os.path.join(REPO, 'include/yorel/yomm2/generator.hpp')


def die(msg):
    sys.stderr.write('encsizes.py: ' + msg + '\n')
    print('encsizes.py: ' + msg)
    sys.exit(3)


def nonempty(stmts):
    return [s for s in stmts if s != ('block', []) and s != ('using',)]


def q(s):
    return '"%s"' % s


class Lower:
    def __init__(self):
        self.vars = set()
        self.meth = None     # loop variable over the methods (or the lambda's second parameter)
        self.cls = None
        self.entry = None
        self.subst = {}      # lambda accumulator parameter -> variable
        self.bools = {}      # bool locals -> the condition they name

    def bad(self, msg, node):
        raise mc.Unsupported('encode_dispatch_data (sizes): %s: %s' % (msg, mc.show(node)))

    def e(self, x):
        k = x[0]
        if k == 'num':
            return '(ENum %d)' % x[1]
        if k == 'id' and x[1] in self.subst:
            return '(EVar %s)' % q(self.subst[x[1]])
        if k == 'id' and x[1] in self.vars:
            return '(EVar %s)' % q(x[1])
        if k == 'sizeof':
            t = re.sub(r'\s|std::', '', x[1])
            if t == 'uintptr_t':
                return 'ESizeofDecoded'
            if t == 'uint16_t':
                return 'ESizeofEncoded'
        if k == 'bin' and x[1] in ('+', '-', '*', '/'):
            return '(%s %s %s)' % ({'+': 'EAdd', '-': 'ESub', '*': 'EMul', '/': 'EDiv'}[x[1]], self.e(x[2]), self.e(x[3]))
        if k == 'call' and x[1] == ('id', 'std::max') and len(x[2]) == 2:
            return '(EMax %s %s)' % (self.e(x[2][0]), self.e(x[2][1]))
        if k == 'call' and x[1] in (('id', 'std::size_t'), ('id', 'int')) and len(x[2]) == 1:
            return self.e(x[2][0])
        if self.meth and x == ('call', ('member', ('id', self.meth), 'arity', False), []):
            return 'EArity'
        if self.meth and x == ('call', ('member', ('member', ('id', self.meth), 'dispatch_table', False), 'size', False), []):
            return 'ETableSize'
        if self.entry and x == ('member', ('id', self.entry), 'vp_index', False):
            return 'EVpIndex'
        if k == 'cond':
            return '(ECond %s %s %s)' % (self.c(x[1]), self.e(x[2]), self.e(x[3]))
        self.bad('expression not in the subset', x)

    def c(self, x):
        if x[0] == 'un' and x[1] == '!':
            return '(CNot_ %s)' % self.c(x[2])
        if x[0] == 'id' and x[1] in self.bools:
            return self.bools[x[1]]
        if x[0] == 'bin' and x[1] in ('<=', '>='):
            a, b = self.e(x[2]), self.e(x[3])
            return '(CNot_ (CGt %s %s))' % ((a, b) if x[1] == '<=' else (b, a))
        if x[0] == 'bin' and x[1] in ('>', '<', '!=', '=='):
            a, b = self.e(x[2]), self.e(x[3])
            if x[1] == '>':
                return '(CGt %s %s)' % (a, b)
            if x[1] == '<':
                return '(CGt %s %s)' % (b, a)
            return '(%s %s %s)' % ('CNe' if x[1] == '!=' else 'CEq', a, b)
        self.bad('condition not in the subset', x)

    def seq(self, stmts):
        stmts = nonempty(stmts)
        # guard form inside a loop body:  if (C) continue; REST   ==   if (!C) { REST }
        for i, t in enumerate(stmts):
            if t[0] == 'if' and not t[1] and t[4] is None and nonempty(t[3][1] if t[3][0] == 'block' else [t[3]]) == [('continue',)] and (self.meth or self.cls or self.entry):
                head = [self.s(u) for u in stmts[:i]]
                rest = self.seq(stmts[i + 1:])
                out = [u for u in head if u != 'ESkip'] + ['(EIf (CNot_ %s)\n  %s\n  ESkip)' % (self.c(t[2]), rest)]
                r = out[-1]
                for u in reversed(out[:-1]):
                    r = '(ESeq %s\n  %s)' % (u, r)
                return r
        out = [self.s(t) for t in stmts]
        out = [t for t in out if t != 'ESkip']
        if not out:
            return 'ESkip'
        r = out[-1]
        for t in reversed(out[:-1]):
            r = '(ESeq %s\n  %s)' % (t, r)
        return r

    def accumulate(self, name, call):
        """auto name = std::accumulate(compiler.methods.begin(), end(), size_t(0), [](auto sum, auto& m) { ... return ...; })"""
        a = call[2]
        meths = ('member', ('id', 'compiler'), 'methods', False)
        if not (len(a) == 4 and a[0] == ('call', ('member', meths, 'begin', False), []) and a[1] == ('call', ('member', meths, 'end', False), [])
                and a[3][0] == 'lambda' and len(a[3][2]) == 2):
            self.bad('std::accumulate not over compiler.methods with a (sum, method) lambda', call)
        init = self.e(a[2])
        self.vars.add(name)
        acc, mv = a[3][2]
        saved = (self.meth, dict(self.subst))
        self.meth = mv
        self.subst[acc] = name
        body = self.ret_body(a[3][3], name)
        self.meth, self.subst = saved
        return '(ESeq (ESet %s %s)\n  (EForMethods %s))' % (q(name), init, body)

    def ret_body(self, st, name):
        """the body of the accumulate lambda: every path ends in `return e;` which becomes `name = e`"""
        if st[0] == 'block':
            b = nonempty(st[1])
            if len(b) == 1:
                return self.ret_body(b[0], name)
            self.bad('lambda body is not a single statement', st)
        if st[0] == 'return' and st[1] is not None:
            if st[1] == ('id', [k for k, v in self.subst.items() if v == name][0]):
                return 'ESkip'
            return '(ESet %s %s)' % (q(name), self.e(st[1]))
        if st[0] == 'if' and not st[1] and st[4] is not None:
            return '(EIf %s\n  %s\n  %s)' % (self.c(st[2]), self.ret_body(st[3], name), self.ret_body(st[4], name))
        self.bad('lambda body not in the subset', st)

    def s(self, st):
        k = st[0]
        if k == 'block':
            return self.seq(st[1])
        if k == 'decl':
            out = []
            if len(st[2]) == 1 and st[2][0][1] is not None and st[1].replace('const', '').strip() == 'bool':
                self.bools[st[2][0][0]] = self.c(st[2][0][1])
                return 'ESkip'
            for name, init in st[2]:
                if init is None:
                    self.bad('declaration without initialiser', st)
                if init[0] == 'call' and init[1] == ('id', 'std::accumulate'):
                    out.append(self.accumulate(name, init))
                    continue
                v = self.e(init)
                self.vars.add(name)
                out.append('(ESet %s %s)' % (q(name), v))
            r = out[-1]
            for t in reversed(out[:-1]):
                r = '(ESeq %s\n  %s)' % (t, r)
            return r
        if k == 'expr':
            e = st[1]
            if e[0] in ('un', 'post') and e[1] == '++' and e[2][0] == 'id' and e[2][1] in self.vars:
                return '(ESet %s (EAdd (EVar %s) (ENum 1)))' % (q(e[2][1]), q(e[2][1]))
            if e[0] == 'assign' and e[2][0] == 'id' and e[2][1] in self.vars:
                x = e[2][1]
                if e[1] == '=':
                    return '(ESet %s %s)' % (q(x), self.e(e[3]))
                if e[1] == '+=':
                    return '(ESet %s (EAdd (EVar %s) %s))' % (q(x), q(x), self.e(e[3]))
            self.bad('expression statement not in the subset', st)
        if k == 'if' and not st[1]:
            return '(EIf %s\n  %s\n  %s)' % (self.c(st[2]), self.s(st[3]), self.s(st[4]) if st[4] else 'ESkip')
        if k == 'rangefor' and isinstance(st[1], str):
            if st[2] == ('member', ('id', 'compiler'), 'methods', False) and self.meth is None:
                self.meth = st[1]
                b = self.s(st[3]); self.meth = None
                return '(EForMethods %s)' % b
            if st[2] == ('member', ('id', 'compiler'), 'classes', False) and self.cls is None:
                self.cls = st[1]
                b = self.s(st[3]); self.cls = None
                return '(EForClasses %s)' % b
            if self.cls and st[2] == ('member', ('id', self.cls), 'vtbl', False) and self.entry is None:
                self.entry = st[1]
                b = self.s(st[3]); self.entry = None
                return '(EForEntries %s)' % b
        self.bad('statement not in the subset', st)


def main():
    try:
        src = mc.strip_comments(open(SRC).read())
    except OSError as e:
        die('cannot read %s: %s' % (SRC, e))
    try:
        m = re.search(r'void\s+generator::encode_dispatch_data\(\s*const\s+Compiler&\s+compiler,\s*const\s+std::string&\s+policy,\s*std::ostream&\s+os\)\s*\{', src)
        if not m:
            raise mc.Unsupported('encode_dispatch_data(compiler, policy, os) not found')
        b = m.end() - 1
        body = src[b:mc.balanced(src, b, '{', '}')]
        j = body.find('char prelude_format[]')
        k = body.find(')";', j)
        cut = body.find('os << prelude;')
        if j < 0 or k < 0 or cut < k:
            raise mc.Unsupported('the prelude (format, snprintf, `os << prelude;`) is no longer where it was')
        fmt = body[j:k]
        # the five %d of the format are, in order, headroom / slots / encoded vtbls / decoded vtbls / dtbls
        want_fmt = [r'uint16_t\s+headroom\[%d\]', r'uint16_t\s+slots\[%d\]', r'uint16_t\s+vtbls\[%d\]', r'std::uintptr_t\s+vtbls\[%d\]', r'std::uintptr_t\s+dtbls\[%d\]']
        pos = 0
        for w in want_fmt:
            mm = re.search(w, fmt[pos:])
            if not mm:
                raise mc.Unsupported('the emitted struct no longer declares, in order, headroom / slots / vtbls (encoded) / vtbls (decoded) / dtbls with %d bounds')
            pos += mm.end()
        if fmt.count('%d') != 5:
            raise mc.Unsupported('the prelude format no longer has exactly five %d')
        ast = mc.parse_function_body(body[:j] + body[k + 3:cut] + '}', ('vector',))
        top = nonempty(ast[1])
        # drop what does not take part: `indent`, the two unused vectors, the prelude buffer
        keep = []
        for st in top:
            if st[0] == 'decl' and re.sub(r'\s', '', st[1]) in ('constchar*', 'std::vector<std::size_t>', 'std::vector<std::uintptr_t>', 'char'):
                continue
            keep.append(st)
        if not keep or keep[-1][0] != 'expr' or keep[-1][1][0] != 'call' or keep[-1][1][1] != ('id', 'std::snprintf'):
            raise mc.Unsupported('the size computation no longer ends with std::snprintf(prelude, sizeof(prelude), prelude_format, ...)')
        args = keep[-1][1][2]
        if len(args) != 8 or args[0] != ('id', 'prelude') or args[2] != ('id', 'prelude_format'):
            raise mc.Unsupported('std::snprintf no longer takes the buffer, its size, the format and five numbers')
        lw = Lower()
        text = lw.seq(keep[:-1])
        printed = [lw.e(a) for a in args[3:]]
    except mc.Unsupported as e:
        die(str(e))
    out = ('(* GENERATED by translators/encsizes.py from %s - do not edit.\n'
           '   "Calculate data sizes" of generator::encode_dispatch_data and the five printed bounds, in the language of Model/MiniEnc.v. *)\n'
           'From Coq Require Import String List.\nFrom Y2 Require Import Model.MiniEnc.\nImport ListNotations.\nLocal Open Scope string_scope.\n\n'
           'Definition gen_sizes : estmt :=\n %s.\n\nDefinition gen_printed : list eexp :=\n [%s].\n' % (SRC, text, ';\n  '.join(printed)))
    vlib.write_if_changed(os.path.join(vlib.COQ, 'Gen', 'GenEnc.v'), out)


if __name__ == '__main__':
    main()
