#!/usr/bin/env python3
"""/repo/include/yorel/yomm2/detail/compiler.hpp  ->  coq/Gen/GenLat.v      (properties C06, C08, C04, C01)

Source-to-Gallina translation of the loops of compiler<Policy>::augment_classes(): the collection of one class_ per
type_index with its ids, the collection of the listed bases (unknown id -> unknown_class_error, abort), the closure loop
(`changed`), the removal of duplicates with marks and the weight, the sort by weight and the marking pass that finds the
direct bases, and the filling of direct_derived.  Parsed with translators/_minicpp.py and lowered, statement by statement,
into the language of coq/Model/MiniLat.v; the names of the locals are free, their roles are given by the nesting of the
loops.  Anything outside the subset is refused (exit 3).  Proofs/LatSource.v proves that the translation computes the stages
of Model.Compile.augment_classes.  std::sort and calculate_covariant_classes are matched, not translated.
"""
import os, re, sys

sys.path.insert(0, os.path.dirname(os.path.abspath(__file__)))
sys.path.insert(0, os.path.join(os.path.dirname(os.path.abspath(__file__)), '..', 'tools'))
import vlib
import _minicpp as mc

REPO = os.environ.get('VERIF_REPO', '/repo')
SRC = os.path.join(REPO, 'include/yorel/yomm2/detail/compiler.hpp')
ROLES = ['RRtc', 'RRtb', 'RRtbb']


def die(msg):
    sys.stderr.write('lattice.py: ' + msg + '\n')
    print('lattice.py: ' + msg)
    sys.exit(3)


def nonempty(stmts):
    return [s for s in stmts if s != ('block', []) and s != ('using',)]


def body_of(st):
    return nonempty(st[1]) if st[0] == 'block' else [st]


def call0(obj, name):
    return ('call', ('member', obj, name, False), [])


class Lower:
    def __init__(self, stage):
        self.stage = stage
        self.vars = {}          # name -> (role, 'ref' | 'ptr')
        self.snap = None        # name of the local copy of a base list
        self.cr = None          # name of the catalog record
        self.base_expr = None   # the expression that denotes the id of the base at hand (*base_iter)
        self.mark = 'mark'
        self.changed = None

    def bad(self, msg, node):
        raise mc.Unsupported('augment_classes (%s): %s: %s' % (self.stage, msg, mc.show(node)[:300]))

    # ---- expressions
    def ptr(self, e):
        """role of an expression denoting a pointer to a class_"""
        if e[0] == 'id' and e[1] in self.vars and self.vars[e[1]][1] == 'ptr':
            return self.vars[e[1]][0]
        if e[0] == 'un' and e[1] == '&' and e[2][0] == 'id' and e[2][1] in self.vars and self.vars[e[2][1]][1] == 'ref':
            return self.vars[e[2][1]][0]
        return None

    def obj(self, e, field):
        """role of X in X.field / X->field (the spelling must match the kind of X)"""
        if e[0] == 'member' and e[2] == field and e[1][0] == 'id' and e[1][1] in self.vars:
            role, kind = self.vars[e[1][1]]
            if (kind == 'ptr') == bool(e[3]):
                return role
        return None

    def lst(self, e):
        r = self.obj(e, 'transitive_bases')
        if r:
            return '(LTb %s)' % r
        r = self.obj(e, 'direct_bases')
        if r:
            return '(LDir %s)' % r
        if e == ('id', self.snap) and self.snap:
            return 'LSnap'
        return None

    def find_absent(self, e):
        """std::find(L.begin(), L.end(), x) == L.end()   (either side)  ->  (L, x)"""
        if e[0] != 'bin' or e[1] != '==':
            return None
        for a, b in ((e[2], e[3]), (e[3], e[2])):
            if a[0] == 'call' and a[1] == ('id', 'std::find') and len(a[2]) == 3:
                L = a[2][0][1][1] if a[2][0][0] == 'call' and a[2][0][1][0] == 'member' else None
                if L is not None and a[2][0] == call0(L, 'begin') and a[2][1] == call0(L, 'end') and b == call0(L, 'end'):
                    return L, a[2][2]
        return None

    def cond(self, e):
        if e[0] == 'bin' and e[1] == '&&':
            return '(KAnd %s %s)' % (self.cond(e[2]), self.cond(e[3]))
        if e[0] == 'bin' and e[1] == '!=' and self.ptr(e[2]) and self.ptr(e[3]):
            return '(KNe %s %s)' % (self.ptr(e[2]), self.ptr(e[3]))
        if e[0] == 'un' and e[1] == '!' and self.ptr(e[2]):
            return '(KNull %s)' % self.ptr(e[2])
        if e[0] == 'bin' and e[1] == '==' and ((self.ptr(e[2]) and e[3] == ('null',)) or (self.ptr(e[3]) and e[2] == ('null',))):
            return '(KNull %s)' % (self.ptr(e[2]) or self.ptr(e[3]))
        fa = self.find_absent(e)
        if fa:
            L, x = fa
            owner = self.obj(L, 'transitive_bases')
            if owner and self.ptr(x):
                return '(KNotInTb %s %s)' % (owner, self.ptr(x))
            if self.cr and self.obj(L, 'type_ids') == 'RRtc' and x == ('member', ('id', self.cr), 'type', False):
                return 'KIdAbsent'
        if e[0] == 'bin' and e[1] in ('!=', '==') :
            for a, b in ((e[2], e[3]), (e[3], e[2])):
                r = self.obj(a, 'mark')
                if r and b == ('id', self.mark):
                    return '(%s %s)' % ('KMarkNe' if e[1] == '!=' else 'KMarkEq', r)
        self.bad('condition not in the subset', e)

    def negate(self, k):
        if k.startswith('(KMarkEq '):
            return '(KMarkNe ' + k[len('(KMarkEq '):]
        if k.startswith('(KMarkNe '):
            return '(KMarkEq ' + k[len('(KMarkNe '):]
        return None

    # ---- statements
    def prefix_loop(self, stmts, i):
        """const std::size_t K = L.size(); for (std::size_t j = 0; j < K; ++j) { const auto r = L[j]; REST }
        with REST mentioning neither j nor K and using L only through push_back / begin / end:
        the elements below K are those L held when K was read (push_back only appends), so this is
            const auto SNAP = L; for (auto r : SNAP) REST"""
        d, f = stmts[i], stmts[i + 1] if i + 1 < len(stmts) else None
        if not (d[0] == 'decl' and len(d[2]) == 1 and d[2][0][1] is not None and d[2][0][1][0] == 'call' and d[2][0][1][2] == []
                and d[2][0][1][1][0] == 'member' and d[2][0][1][1][2] == 'size' and f is not None and f[0] == 'for'):
            return None
        K, L = d[2][0][0], d[2][0][1][1][1]
        if not (f[1] and f[1][0] == 'decl' and len(f[1][2]) == 1 and f[1][2][0][1] == ('num', 0)):
            return None
        j = f[1][2][0][0]
        b = body_of(f[4])
        if not (f[2] in (('bin', '<', ('id', j), ('id', K)), ('bin', '!=', ('id', j), ('id', K))) and f[3] == ('un', '++', ('id', j)) and b
                and b[0][0] == 'decl' and len(b[0][2]) == 1 and b[0][2][0][1] == ('index', L, ('id', j))):
            return None
        rest = b[1:]
        if mc._mentions(rest, j) or mc._mentions(rest, K) or mc._mentions(stmts[i + 2:], K):
            return None

        def only_appends(n):
            if isinstance(n, list):
                return all(only_appends(x) for x in n)
            if isinstance(n, tuple):
                if n == L:
                    return False
                if len(n) == 3 and n[0] == 'call' and n[1][0] == 'member' and n[1][1] == L and n[1][2] in ('push_back', 'emplace_back', 'begin', 'end', 'cbegin', 'cend'):
                    return only_appends(n[2])
                return all(only_appends(x) for x in n)
            return True
        if not only_appends(rest):
            return None
        snap = '__snapshot'
        return [('decl', 'const auto', [(snap, L)]), ('rangefor', b[0][2][0][0], ('id', snap), ('block', rest))]

    def seq(self, stmts):
        stmts = nonempty(stmts)
        k = 0
        while k < len(stmts) - 1:
            rep = self.prefix_loop(stmts, k)
            if rep is not None:
                stmts = stmts[:k] + rep + stmts[k + 2:]
            k += 1
        out = []
        i = 0
        while i < len(stmts):
            st = stmts[i]
            # if (c) continue; rest   ==   if (!c) { rest }
            if st[0] == 'if' and not st[1] and st[4] is None and body_of(st[3]) == [('continue',)]:
                k = self.negate(self.cond(st[2]))
                if k is None:
                    self.bad('`continue` under a condition that has no negation in the subset', st)
                out.append('(LIf %s %s)' % (k, self.seq(stmts[i + 1:])))
                break
            out.append(self.s(st))
            i += 1
        out = [t for t in out if t != 'LSkip']
        if not out:
            return 'LSkip'
        r = out[-1]
        for t in reversed(out[:-1]):
            r = '(LSeq %s\n   %s)' % (t, r)
        return r

    def bind(self, name, depth, kind):
        self.vars[name] = (ROLES[depth], kind)

    def depth(self):
        return len(self.vars)

    def s(self, st):
        k = st[0]
        if k == 'block':
            return self.seq(st[1])
        if k == 'if' and not st[1] and st[4] is None:
            inner = body_of(st[3])
            # if (a) if (b) X  ==  if (a && b) X
            c = self.cond(st[2])
            while len(inner) == 1 and inner[0][0] == 'if' and not inner[0][1] and inner[0][4] is None:
                c = '(KAnd %s %s)' % (c, self.cond(inner[0][2]))
                inner = body_of(inner[0][3])
            if self.base_expr and c.startswith('(KNull') and self.is_error_block(inner):
                return '(LIf %s LReportUnknownAbort)' % c
            return '(LIf %s %s)' % (c, self.seq(inner))
        if k == 'rangefor' and isinstance(st[1], str) and not (st[2][0] == 'construct' and st[2][1] == 'range'):
            name, src = st[1], st[2]
            if src == ('id', 'classes') and self.depth() == 0:
                self.bind(name, 0, 'ref')
                b = self.seq(body_of(st[3]))
                del self.vars[name]
                return '(LForClasses %s)' % b
            L = self.lst(src)
            if L and 0 < self.depth() < 3:
                d = self.depth()
                self.bind(name, d, 'ptr')
                b = self.seq(body_of(st[3]))
                del self.vars[name]
                return '(LFor %s %s %s)' % (ROLES[d], L, b)
            self.bad('loop not in the subset', st)
        if k == 'decl' and len(st[2]) == 1:
            name, init = st[2][0]
            # auto& rtc = class_map[Policy::type_index(cr.type)];   auto rtb = class_map[Policy::type_index(*base_iter)];
            if (init is not None and init[0] == 'index' and init[1] == ('id', 'class_map') and init[2][0] == 'call'
                    and init[2][1] == ('id', 'Policy::type_index') and len(init[2][2]) == 1 and self.cr and self.depth() < 2
                    and st[1] in ('auto &', 'auto', 'auto *', 'class_ *', 'class_ * &', 'const auto', 'auto * &')):
                arg = init[2][2][0]
                d = self.depth()
                if arg == ('member', ('id', self.cr), 'type', False) and d == 0:
                    self.bind(name, d, 'ptr')
                    self.slot = name if st[1].endswith('&') else None
                    return '(LLookupRecord %s)' % ROLES[d]
                if self.base_expr and arg == self.base_expr and d == 1:
                    self.bind(name, d, 'ptr')
                    return '(LLookupBase %s)' % ROLES[d]
            # const auto bases = rtc.transitive_bases;
            if init is not None and self.obj(init, 'transitive_bases') == 'RRtc' and st[1] in ('const auto', 'auto') and self.stage == 'closure':
                self.snap = name
                return 'LSnapshot'
            # const auto base_id = *base_iter;   another name for the id of the base at hand
            if self.base_expr is not None and init == self.base_expr and st[1] in ('const auto', 'auto', 'const type_id', 'type_id'):
                self.base_expr = ('id', name)
                return 'LSkip'
            # const auto mark = ++class_mark;   declared where it is drawn
            if init == ('un', '++', ('id', 'class_mark')) and st[1] in ('const auto', 'auto', 'const std::size_t', 'std::size_t') and self.stage in ('dedup', 'direct'):
                self.mark = name
                return 'LNewMark'
            # decltype(rtc.transitive_bases) bases;
            if init is None and self.stage == 'dedup' and (st[1].startswith('decltype(') or st[1].startswith('std::vector<')):
                self.snap = name
                return 'LClearLocal'
        if k == 'for' and self.cr and self.base_expr is None and st[1] and st[1][0] == 'decl' and len(st[1][2]) == 1:
            it, init = st[1][2][0]
            if (init == ('member', ('id', self.cr), 'first_base', False) and st[2] == ('bin', '!=', ('id', it), ('member', ('id', self.cr), 'last_base', False))
                    and st[3] in (('un', '++', ('id', it)), ('post', '++', ('id', it)))):
                self.base_expr = ('un', '*', ('id', it))
                saved = dict(self.vars)
                b = self.seq(body_of(st[4]))
                self.vars = saved
                self.base_expr = None
                return '(LForRecordBases %s)' % b
        if (k == 'rangefor' and isinstance(st[1], str) and self.cr and self.base_expr is None and st[2][0] == 'construct' and st[2][1] == 'range'
                and st[2][2] == [('member', ('id', self.cr), 'first_base', False), ('member', ('id', self.cr), 'last_base', False)]):
            self.base_expr = ('id', st[1])
            saved = dict(self.vars)
            b = self.seq(body_of(st[3]))
            self.vars = saved
            self.base_expr = None
            return '(LForRecordBases %s)' % b
        if k == 'expr':
            e = st[1]
            if self.stage == 'collect' and e[0] == 'assign' and e[1] == '=' and self.cr:
                if (e[2] == ('id', getattr(self, 'slot', None)) and e[3] == ('un', '&', ('call', ('member', ('id', 'classes'), 'emplace_back', False), []))):
                    return 'LEmplace'
                if self.obj(e[2], 'is_abstract') == 'RRtc' and e[3] == ('member', ('id', self.cr), 'is_abstract', False):
                    return 'LSetAbstract'
                if self.obj(e[2], 'static_vptr') == 'RRtc' and e[3] == ('member', ('id', self.cr), 'static_vptr', False):
                    return 'LSkip'      # a pointer copied from the record: no decision (explicit list of dropped statements)
            if e[0] == 'call' and e[1][0] == 'member' and e[1][2] in ('push_back', 'emplace_back') and len(e[2]) == 1:
                tgt, x = e[1][1], self.ptr(e[2][0])
                if x:
                    for field, ctor in (('transitive_bases', 'LPushTb'), ('direct_bases', 'LPushDir'), ('direct_derived', 'LPushDer')):
                        o = self.obj(tgt, field)
                        if o:
                            return '(%s %s %s)' % (ctor, o, x)
                    if tgt == ('id', self.snap) and self.snap and self.stage == 'dedup':
                        return '(LPushLocal %s)' % x
                if self.cr and self.obj(tgt, 'type_ids') == 'RRtc' and e[2][0] == ('member', ('id', self.cr), 'type', False):
                    return 'LPushId'
            if e[0] == 'assign' and e[1] == '=':
                if self.changed and e[2] == ('id', self.changed) and e[3] == ('bool', True):
                    return 'LSetChanged'
                if e[2] == ('id', self.mark) and e[3] == ('un', '++', ('id', 'class_mark')):
                    return 'LNewMark'
                r = self.obj(e[2], 'mark')
                if r and e[3] == ('id', self.mark):
                    return '(LSetMark %s)' % r
                if self.obj(e[2], 'weight') == 'RRtc' and self.snap and e[3] == call0(('id', self.snap), 'size'):
                    if getattr(self, 'snap_moved', False):
                        self.bad('the local list is read after it was moved from', st)
                    return 'LSetWeightLocal'
                if (self.stage == 'dedup' and self.snap and self.obj(e[2], 'transitive_bases') == 'RRtc'
                        and e[3] == ('call', ('id', 'std::move'), [('id', self.snap)])):
                    self.snap_moved = True        # x = std::move(local), the local not read afterwards: what swap leaves in x
                    return 'LSwapTbLocal'
                if (self.obj(e[2], 'weight') == 'RRtc' and e[3][0] == 'call' and e[3][2] == [] and e[3][1][0] == 'member' and e[3][1][2] == 'size'
                        and self.obj(e[3][1][1], 'transitive_bases') == 'RRtc'):
                    return 'LSetWeightTb'
            if e[0] == 'call' and e[1][0] == 'member' and e[1][2] == 'swap' and self.snap and self.stage == 'dedup':
                a, b = e[1][1], e[2][0] if len(e[2]) == 1 else None
                if (self.obj(a, 'transitive_bases') == 'RRtc' and b == ('id', self.snap)) or (a == ('id', self.snap) and b is not None and self.obj(b, 'transitive_bases') == 'RRtc'):
                    return 'LSwapTbLocal'
            if e[0] == 'call' and e[1] == ('id', 'std::sort') and len(e[2]) == 3 and self.stage == 'direct':
                L = e[2][0][1][1] if e[2][0][0] == 'call' and e[2][0][1][0] == 'member' else None
                if L is not None and self.obj(L, 'transitive_bases') == 'RRtc' and e[2][0] == call0(L, 'begin') and e[2][1] == call0(L, 'end'):
                    lam = e[2][2]
                    if lam[0] == 'lambda' and len(lam[2]) == 2:
                        a, b = lam[2]
                        ret = body_of(lam[3])
                        wa, wb = ('member', ('id', a), 'weight', True), ('member', ('id', b), 'weight', True)
                        if ret in ([('return', ('bin', '>', wa, wb))], [('return', ('bin', '<', wb, wa))]):
                            return 'LSortTbByWeight'
                    self.bad('the comparison of std::sort is no longer `a->weight > b->weight`', st)
        self.bad('statement not in the subset', st)

    def is_error_block(self, stmts):
        bi = self.base_expr
        want = [('decl', 'unknown_class_error', [('error', None)]),
                ('expr', ('assign', '=', ('member', ('id', 'error'), 'type', False), bi)),
                ('if', True, ('tmpl', 'Policy::has_facet', ['policy :: error_handler']),
                 ('block', [('expr', ('call', ('id', 'Policy::error'), [('call', ('id', 'error_type'), [('id', 'error')])]))]), None),
                ('expr', ('call', ('id', 'abort'), []))]
        got = nonempty(stmts)
        if len(got) == 4 and got[2][0] == 'if' and got[2][1] and got[2][2][0] == 'tmpl' and got[2][2][1] in ('Policy::has_facet', 'has_facet'):
            got = got[:2] + [want[2][:3] + got[2][3:]] + got[3:]
        return got == want


def catalog_stage(st, stage):
    """for (auto& cr : Policy::classes) BODY  ->  BODY lowered"""
    if st[0] != 'rangefor' or not isinstance(st[1], str) or st[2] != ('id', 'Policy::classes'):
        raise mc.Unsupported('augment_classes (%s): no longer a loop `for (auto& cr : Policy::classes)`: %s' % (stage, mc.show(st)[:200]))
    lo = Lower(stage)
    lo.cr = st[1]
    return lo.seq(body_of(st[3]))


def covariant_function(src):
    """compiler<Policy>::calculate_covariant_classes(class_& cls), lowered into cvstmt"""
    params, body, _ = mc.find_function(src, r'\bvoid\s+compiler<Policy>::calculate_covariant_classes\b', 'calculate_covariant_classes')
    pm = re.fullmatch(r'class_&(\w+)', re.sub(r'\s+', '', params))
    if not pm:
        raise mc.Unsupported('calculate_covariant_classes: the parameter is no longer `class_& cls`: ' + params)
    cls = pm.group(1)
    top = nonempty(mc.parse_function_body(mc.drop_trace(body), ())[1])
    COV = ('member', ('id', cls), 'covariant_classes', False)

    def bad(msg, node):
        raise mc.Unsupported('calculate_covariant_classes: %s: %s' % (msg, mc.show(node)[:300]))

    def dcov(d):
        return ('member', ('id', d), 'covariant_classes', True)

    def stmts(sts, d):
        out = [one(st, d) for st in nonempty(sts)]
        out = [t for t in out if t != 'VSkip']
        if not out:
            return 'VSkip'
        r = out[-1]
        for t in reversed(out[:-1]):
            r = '(VSeq %s\n   %s)' % (t, r)
        return r

    def one(st, d):
        k = st[0]
        if k == 'block':
            return stmts(st[1], d)
        if k == 'if' and not st[1] and st[4] is None:
            c = st[2]
            if d is None and body_of(st[3]) == [('return', None)] and c in (('un', '!', call0(COV, 'empty')), ('bin', '!=', call0(COV, 'size'), ('num', 0)),
                                                                         ('bin', '>', call0(COV, 'size'), ('num', 0))):
                return 'VReturnIfDone'
            if d is not None and c in (call0(dcov(d), 'empty'), ('bin', '==', call0(dcov(d), 'size'), ('num', 0))):
                return '(VIfDerivedFresh %s)' % stmts(body_of(st[3]), d)
        if k == 'rangefor' and isinstance(st[1], str) and d is None and st[2] == ('member', ('id', cls), 'direct_derived', False):
            return '(VForDerived %s)' % stmts(body_of(st[3]), st[1])
        if k == 'expr':
            e = st[1]
            if d is None and e == ('call', ('member', COV, 'insert', False), [('un', '&', ('id', cls))]):
                return 'VInsertSelf'
            if d is not None and e == ('call', ('id', 'calculate_covariant_classes'), [('un', '*', ('id', d))]):
                return 'VRecurse'
            if d is not None and e == ('call', ('id', 'std::copy'), [call0(dcov(d), 'begin'), call0(dcov(d), 'end'),
                                                                   ('call', ('id', 'std::inserter'), [COV, call0(COV, 'end')])]):
                return 'VCopyDerived'
            if d is not None and e in (('call', ('member', COV, 'insert', False), [call0(dcov(d), 'begin'), call0(dcov(d), 'end')]),):
                return 'VCopyDerived'
        # for (auto x : derived->covariant_classes) cls.covariant_classes.insert(x);
        if (k == 'rangefor' and isinstance(st[1], str) and d is not None and st[2] == dcov(d)
                and body_of(st[3]) == [('expr', ('call', ('member', COV, 'insert', False), [('id', st[1])]))]):
            return 'VCopyDerived'
        bad('statement not in the subset', st)
    return stmts(top, None)


def closure_stage(st):
    """for (bool changed = true; changed;) { changed = false; BODY }    |  bool changed = true; while (changed) {...}
       |  do { changed = false; BODY } while (changed);    ->  BODY lowered (the loop itself is run_closure)"""
    lo = Lower('closure')
    body = None
    if st[0] == 'for' and st[1] and st[1][0] == 'decl' and st[1][1] == 'bool' and len(st[1][2]) == 1 and st[1][2][0][1] == ('bool', True) \
            and st[2] == ('id', st[1][2][0][0]) and st[3] is None:
        lo.changed = st[1][2][0][0]
        body = body_of(st[4])
    if body is None or not body or body[0] != ('expr', ('assign', '=', ('id', lo.changed), ('bool', False))):
        raise mc.Unsupported('augment_classes (closure): the loop is no longer `for (bool changed = true; changed;) { changed = false; ... }`: ' + mc.show(st)[:200])
    return lo.seq(body[1:])


def fission_direct_derived(flat):
    """for (X : classes) { ... X.direct_bases.push_back(Y); Y->direct_derived.push_back(&X); ... }     and no other mention of
       direct_derived in the function
         is   the same loop without the second statement, followed by
              for (X : classes) for (Y : X.direct_bases) Y->direct_derived.push_back(&X);
       (loop fission: the second statement runs once per element appended to X.direct_bases, right after the append, touches
        only direct_derived, and nothing reads direct_derived before both loops are over; every direct_derived vector receives
        the same elements in the same order)"""
    if repr(flat).count("'direct_derived'") != 1:
        return flat
    for k, loop in enumerate(flat):
        if not (loop[0] == 'rangefor' and isinstance(loop[1], str) and loop[2] == ('id', 'classes')):
            continue
        X = loop[1]
        found = []

        def strip(n):
            if isinstance(n, list):
                out = []
                j = 0
                while j < len(n):
                    a = n[j]
                    b = n[j + 1] if j + 1 < len(n) else None
                    if (a[:1] == ('expr',) and b is not None and b[:1] == ('expr',) and a[1][0] == 'call' and b[1][0] == 'call'
                            and a[1][1] == ('member', ('member', ('id', X), 'direct_bases', False), 'push_back', False) and len(a[1][2]) == 1
                            and a[1][2][0][0] == 'id'
                            and b[1][1] == ('member', ('member', a[1][2][0], 'direct_derived', True), 'push_back', False)
                            and b[1][2] == [('un', '&', ('id', X))]):
                        found.append((a[1][2][0][1], b))
                        out.append(strip(a))
                        j += 2
                        continue
                    out.append(strip(a))
                    j += 1
                return out
            if isinstance(n, tuple):
                return tuple(strip(x) for x in n)
            return n
        body = strip(loop[3])
        if len(found) == 1:
            Y, S2 = found[0]
            derived = ('rangefor', X, ('id', 'classes'),
                       ('block', [('rangefor', Y, ('member', ('id', X), 'direct_bases', False), ('block', [S2]))]))
            return flat[:k] + [(loop[0], loop[1], loop[2], body), derived] + flat[k + 1:]
    return flat


def main():
    try:
        src = mc.strip_comments(open(SRC).read())
    except OSError as e:
        die('cannot read %s: %s' % (SRC, e))
    try:
        params, body, _ = mc.find_function(src, r'\bvoid\s+compiler<Policy>::augment_classes\b', 'augment_classes')
        if params.strip():
            raise mc.Unsupported('augment_classes takes parameters now')
        top = nonempty(mc.parse_function_body(mc.drop_trace(body), ('has_facet', 'Policy::has_facet'))[1])
        # a leading scope block is flattened
        flat = []
        for st in top:
            if st[0] == 'block':
                flat.extend(nonempty(st[1]))
            else:
                flat.append(st)
        # bool changed = true; while (changed) {...}  ->  the for form
        norm = []
        i = 0
        while i < len(flat):
            st = flat[i]
            if (st[0] == 'decl' and st[1] == 'bool' and len(st[2]) == 1 and st[2][0][1] == ('bool', True) and i + 1 < len(flat)
                    and flat[i + 1][0] == 'while' and flat[i + 1][1] == ('id', st[2][0][0])):
                norm.append(('for', st, ('id', st[2][0][0]), None, flat[i + 1][2]))
                i += 2
                continue
            # bool changed; do { changed = false; ... } while (changed);   runs its body at least once, like the for form
            if (st[0] == 'decl' and st[1] == 'bool' and len(st[2]) == 1 and i + 1 < len(flat)
                    and flat[i + 1][0] == 'dowhile' and flat[i + 1][2] == ('id', st[2][0][0])):
                norm.append(('for', ('decl', 'bool', [(st[2][0][0], ('bool', True))]), ('id', st[2][0][0]), None, flat[i + 1][1]))
                i += 2
                continue
            norm.append(st)
            i += 1
        flat = norm
        flat = fission_direct_derived(flat)
        if len(flat) == 7 and not (flat[3][0] == 'decl'):
            flat = flat[:3] + [('decl', 'std::size_t', [('mark', None)])] + flat[3:]      # no function-level mark: each loop declares its own
        if len(flat) == 8 and flat[3] == ('expr', ('un', '++', ('id', 'class_mark'))):
            flat[3] = ('decl', 'std::size_t', [('mark', ('un', '++', ('id', 'class_mark')))])   # a bare ++class_mark; (the value was never read)
        if len(flat) != 8:
            raise mc.Unsupported('augment_classes is no longer its eight loops (collect, bases, closure, mark, dedup, direct, derived, covariant): %d top-level statements' % len(flat))
        collect = catalog_stage(flat[0], 'collect')
        bases = catalog_stage(flat[1], 'bases')
        closure = closure_stage(flat[2])
        # std::size_t mark = ++class_mark;   (or a plain declaration: every class draws a new mark before it reads one)
        md = flat[3]
        if not (md[0] == 'decl' and md[1] in ('std::size_t', 'auto', 'size_t') and len(md[2]) == 1
                and md[2][0][1] in (None, ('num', 0), ('un', '++', ('id', 'class_mark')))):
            raise mc.Unsupported('augment_classes (dedup): the mark is no longer declared as `std::size_t mark = ++class_mark;`: ' + mc.show(md))
        markname = md[2][0][0]
        pre = 'LNewMark' if md[2][0][1] == ('un', '++', ('id', 'class_mark')) else 'LSkip'
        stages = {}
        for nm, st in (('dedup', flat[4]), ('direct', flat[5]), ('derived', flat[6])):
            lo = Lower(nm)
            lo.mark = markname
            if not (st[0] == 'rangefor' and st[2] == ('id', 'classes')):
                raise mc.Unsupported('augment_classes (%s): no longer a loop over `classes`: %s' % (nm, mc.show(st)[:200]))
            stages[nm] = lo.s(st)
        cov = flat[7]
        if not (cov[0] == 'rangefor' and isinstance(cov[1], str) and cov[2] == ('id', 'classes')
                and body_of(cov[3]) == [('expr', ('call', ('id', 'calculate_covariant_classes'), [('id', cov[1])]))]):
            raise mc.Unsupported('augment_classes: the last loop is no longer `for (auto& rtc : classes) calculate_covariant_classes(rtc);`')
        covtext = covariant_function(src)
    except mc.Unsupported as e:
        die(str(e))
    out = ('(* GENERATED by translators/lattice.py from %s - do not edit.\n'
           '   The loops of compiler<Policy>::augment_classes, in the language of Model/MiniLat.v. *)\n'
           'From Y2 Require Import Model.MiniLat.\n\n'
           '(* the body of the first `for (auto& cr : Policy::classes)` *)\n'
           'Definition gen_collect : lstmt :=\n  %s.\n\n'
           '(* the body of the second `for (auto& cr : Policy::classes)` *)\n'
           'Definition gen_bases : lstmt :=\n  %s.\n\n'
           '(* the body of `for (bool changed = true; changed;) { changed = false; ... }` *)\n'
           'Definition gen_closure : lstmt :=\n  %s.\n\n'
           '(* `std::size_t mark = ++class_mark;` and the loop that removes duplicates and records the weight *)\n'
           'Definition gen_dedup : lstmt :=\n  (LSeq %s\n  %s).\n\n'
           '(* the loop that sorts the bases by weight and finds the direct ones *)\n'
           'Definition gen_direct : lstmt :=\n  %s.\n\n'
           '(* the loop that fills direct_derived *)\n'
           'Definition gen_derived : lstmt :=\n  %s.\n\n'
           '(* the body of compiler<Policy>::calculate_covariant_classes *)\n'
           'Definition gen_covariant : cvstmt :=\n  %s.\n' % (SRC, collect, bases, closure, pre, stages['dedup'], stages['direct'], stages['derived'], covtext))
    vlib.write_if_changed(os.path.join(vlib.COQ, 'Gen', 'GenLat.v'), out)


if __name__ == '__main__':
    main()
