#!/usr/bin/env python3
"""C16 translator: harness/callpath/routes.cpp compiled from VERIF_REPO/include
-> LLVM IR text -> per route, the list of memory accesses made by the compiled
call path -> coq/Gen/GenCallPath.v (see DESIGN.md 6.5 and section 8, C16).

For every `c16_<route>__<shape>` function (and every `detail::thunk<...>::fn`,
the code the dispatch jump lands in) the IR is walked transitively through
every callee DEFINED in the module, with a small provenance analysis:

  every SSA value carries a set of tags saying where its bits may come from
    G:<g>  address of the named global g          K   loaded from a constant global
    S      loaded from shared memory (a global, or through an S pointer)
    O|A<k>|<off>   the k-th parameter of the ROUTE function (the caller's own object), byte offset off
    AG     loaded from memory reached from a route parameter (the caller's object graph)
    O|H<site>|<off> fresh heap (result of operator new / malloc at that call site)
    O|L<fn>:<v>|<off> an alloca of a frame of this thread
    U      unclassified
  Objects owned by the thread (A, H, L) have a byte-offset-sensitive content summary (GEPs with constant
  indices are turned into offsets with the x86-64 layout of the module's types), so that a pointer
  stored in one field does not taint what is loaded from another.
  loads/stores/atomics are classified by the tags of their address operand.

Blocks from which no `ret`/`resume` can be reached (they end in `unreachable`
after abort / __cxa_throw / the error handler) are collapsed to `ErrorPath`.
Anything the parser cannot classify becomes `Unknown "text"`, which the Coq
predicate rejects.  Exit status is non-zero only when clang fails.

Usage: callpath.py [--out FILE] [--json FILE] [--variants O2,O2assert,O1,O0] [--no-cache]
"""
import hashlib, json, os, re, subprocess, sys

HERE = os.path.dirname(os.path.abspath(__file__))
VERIF = os.path.dirname(HERE)
sys.path.insert(0, os.path.join(VERIF, 'tools'))
import vlib  # noqa: E402

ROUTES_CPP = os.path.join(VERIF, 'harness', 'callpath', 'routes.cpp')
ROUTES_HPP = os.path.join(VERIF, 'harness', 'callpath', 'routes.hpp')
OUT_V = os.path.join(VERIF, 'coq', 'Gen', 'GenCallPath.v')

# variant -> (clang flags, post-processing)
VARIANTS = {
    'O2': (['-O2', '-DNDEBUG'], None),
    'O2assert': (['-O2'], None),            # assertions on (BOOST_ASSERT, default_policy = debug)
    'O1': (['-O1', '-DNDEBUG'], None),
    # no optimisation, no inlining; allocas promoted so that pointer provenance survives
    'O0': (['-O0', '-DNDEBUG', '-Xclang', '-disable-O0-optnone'], ['opt', '-S', '-passes=sroa']),
}
DEFAULT_VARIANTS = ['O2', 'O2assert', 'O1', 'O0']

SHAPES = ['rel', 'dbg', 'nohash', 'vmap', 'ind']
SHAPE_OF_POLICY = [('policy7release', 'rel'), ('policy5debug', 'dbg'), ('nohash_policy', 'nohash'),
                   ('vmap_policy', 'vmap'), ('ind_policy', 'ind'), ('foreign_policy', 'foreign')]

ALLOCATORS = {'_Znwm', '_Znam', 'malloc', 'calloc', '_ZnwmSt11align_val_t', '_ZnamSt11align_val_t',
              '_ZnwmRKSt9nothrow_t', '_ZnamRKSt9nothrow_t', '__cxa_allocate_exception'}
IGNORED_INTRINSICS = ('llvm.lifetime.', 'llvm.dbg.', 'llvm.assume', 'llvm.experimental.noalias.scope.decl',
                      'llvm.invariant.', 'llvm.donothing', 'llvm.var.annotation', 'llvm.ptr.annotation',
                      'llvm.expect', 'llvm.objectsize', 'llvm.launder.invariant.group',
                      'llvm.strip.invariant.group', 'llvm.is.constant', 'llvm.sideeffect',
                      'llvm.stacksave', 'llvm.stackrestore', 'llvm.eh.typeid.for')
MEM_INTRINSICS = ('llvm.memcpy.', 'llvm.memmove.', 'llvm.memset.', 'llvm.memcpy.inline.')

PURE_OPS = {
    'add', 'sub', 'mul', 'udiv', 'sdiv', 'urem', 'srem', 'shl', 'lshr', 'ashr', 'and', 'or', 'xor',
    'fadd', 'fsub', 'fmul', 'fdiv', 'frem', 'fneg', 'icmp', 'fcmp', 'select', 'phi', 'getelementptr',
    'bitcast', 'ptrtoint', 'inttoptr', 'zext', 'sext', 'trunc', 'fptrunc', 'fpext', 'fptoui', 'fptosi',
    'uitofp', 'sitofp', 'addrspacecast', 'extractvalue', 'insertvalue', 'extractelement',
    'insertelement', 'shufflevector', 'freeze', 'landingpad',
}
TERMINATORS = {'ret', 'br', 'switch', 'indirectbr', 'invoke', 'resume', 'unreachable', 'callbr',
               'catchswitch', 'catchret', 'cleanupret'}

TOK = re.compile(r'[%@](?:"[^"]*"|[A-Za-z0-9_.$\-]+)')


# --------------------------------------------------------------------------- text helpers

def split_top(s, sep=','):
    """split on sep at nesting depth 0 of () [] {} <> and outside quotes"""
    out, depth, cur, q = [], 0, [], False
    i, n = 0, len(s)
    while i < n:
        c = s[i]
        if q:
            cur.append(c)
            if c == '"':
                q = False
        elif c == '"':
            q = True
            cur.append(c)
        elif c in '([{<':
            depth += 1
            cur.append(c)
        elif c in ')]}>':
            depth -= 1
            cur.append(c)
        elif c == sep and depth == 0:
            out.append(''.join(cur).strip())
            cur = []
        else:
            cur.append(c)
        i += 1
    if cur or out:
        out.append(''.join(cur).strip())
    return out


def strip_comment(line):
    q = False
    for i, c in enumerate(line):
        if c == '"':
            q = not q
        elif c == ';' and not q:
            return line[:i]
    return line


def strip_meta(s):
    """drop trailing ', !tbaa !5, !noalias !7' metadata attachments"""
    parts = split_top(s)
    keep = []
    for p in parts:
        if p.startswith('!'):
            break
        keep.append(p)
    return ', '.join(keep)


def match_paren(s, i):
    """s[i] == '(' -> index of the matching ')'"""
    depth, q = 0, False
    for j in range(i, len(s)):
        c = s[j]
        if q:
            if c == '"':
                q = False
        elif c == '"':
            q = True
        elif c == '(':
            depth += 1
        elif c == ')':
            depth -= 1
            if depth == 0:
                return j
    return -1


# --------------------------------------------------------------------------- module parser

class Instr:
    __slots__ = ('res', 'op', 'text', 'raw')

    def __init__(self, res, op, text, raw):
        self.res, self.op, self.text, self.raw = res, op, text, raw


class Func:
    def __init__(self, name):
        self.name = name
        self.params = []        # [(name, kind)] kind in '', 'sret', 'byval'
        self.blocks = []        # [(label, [Instr])]
        self.defs = {}          # value name -> Instr


class Module:
    def __init__(self):
        self.types = set()
        self.numbered_types = False
        self.globals = {}       # name -> is_constant
        self.declared = {}      # name -> attribute text
        self.funcs = {}
        self.attr_groups = {}


def parse_module(text):
    m = Module()
    lines = text.split('\n')
    i, n = 0, len(lines)
    while i < n:
        line = lines[i]
        if line.startswith('%') and ' = type ' in line:
            nm = line.split(' = type ', 1)[0].strip()
            m.types.add(nm)
            if re.match(r'%\d+$', nm):
                m.numbered_types = True
        elif line.startswith('@'):
            mm = re.match(r'(@(?:"[^"]*"|[\w.$\-]+)) = (.*)$', line)
            if mm:
                rest = mm.group(2)
                # linkage/visibility words precede 'global' or 'constant'
                km = re.search(r'\b(global|constant|alias|ifunc)\b', rest)
                m.globals[mm.group(1)[1:].strip('"')] = bool(km and km.group(1) == 'constant')
        elif line.startswith('attributes #'):
            mm = re.match(r'attributes (#\d+) = \{(.*)\}', line)
            if mm:
                m.attr_groups[mm.group(1)] = mm.group(2)
        elif line.startswith('declare '):
            mm = re.search(r'(@(?:"[^"]*"|[\w.$\-]+))\(', line)
            if mm:
                m.declared[mm.group(1)[1:].strip('"')] = line
        elif line.startswith('define '):
            i = parse_function(m, lines, i)
            continue
        i += 1
    return m


def parse_function(m, lines, i):
    header = lines[i]
    mm = re.search(r'(@(?:"[^"]*"|[\w.$\-]+))\(', header)
    name = mm.group(1)[1:].strip('"')
    f = Func(name)
    p0 = mm.end() - 1
    p1 = match_paren(header, p0)
    ptxt = header[p0 + 1:p1]
    idx = 0
    for p in split_top(ptxt):
        if not p or p == '...':
            continue
        toks = p.split()
        last = toks[-1]
        if TOK.fullmatch(last) and last.startswith('%') and last not in m.types and len(toks) > 1:
            pname = last
        else:
            pname = '%%%d' % idx
        kind = 'sret' if re.search(r'\bsret\b', p) else ('byval' if re.search(r'\bbyval\b', p) else '')
        f.params.append((pname, kind))
        idx += 1
    i += 1
    label = 'entry'
    cur = []
    f.blocks.append((label, cur))
    pending = None          # instruction text being continued over several lines
    bracket = 0
    while i < len(lines):
        raw = lines[i]
        if raw.startswith('}'):
            i += 1
            break
        line = strip_comment(raw).rstrip()
        i += 1
        if not line.strip():
            continue
        lm = re.match(r'^((?:"[^"]*"|[A-Za-z0-9_.$\-]+)):\s*$', line)
        if lm and not raw.startswith(' '):
            if pending is not None:
                add_instr(f, cur, pending)
                pending = None
            label = '%' + lm.group(1)
            cur = []
            f.blocks.append((label, cur))
            continue
        s = line.strip()
        cont = False
        if pending is not None:
            if bracket > 0 or s.startswith(('to label', 'catch ', 'cleanup', 'filter ', 'unwind ', ']')):
                cont = True
        if cont:
            pending += ' ' + s
        else:
            if pending is not None:
                add_instr(f, cur, pending)
            pending = s
        # a switch lists its cases over several lines, between [ and ]
        bracket = (pending.count('[') - pending.count(']')) if pending.startswith('switch ') else 0
    if pending is not None:
        add_instr(f, cur, pending)
    m.funcs[name] = f
    return i


def add_instr(f, cur, s):
    res = None
    mm = re.match(r'(%(?:"[^"]*"|[A-Za-z0-9_.$\-]+)) = (.*)$', s)
    body = s
    if mm:
        res, body = mm.group(1), mm.group(2)
    words = body.split()
    op = words[0] if words else ''
    if op in ('tail', 'musttail', 'notail') and len(words) > 1 and words[1] == 'call':
        op = 'call'
    ins = Instr(res, op, strip_meta(body), s)
    cur.append(ins)
    if res:
        f.defs[res] = ins


# --------------------------------------------------------------------------- type layout (x86-64)

class Layout:
    """sizes / alignments / field offsets of LLVM types, enough to turn a GEP with constant
    indices into a byte offset. Unknown -> None (the offset is then treated as unknown)."""

    def __init__(self, text):
        self.defs = {}
        for mm in re.finditer(r'^(%(?:"[^"]*"|[\w.$\-]+)) = type (.*)$', text, re.M):
            self.defs[mm.group(1)] = mm.group(2).strip()
        self.cache = {}

    def info(self, ty):
        """-> (size, align, kind, elems) ; kind in scalar/struct/array ; None when unknown"""
        ty = ty.strip()
        if ty in self.cache:
            return self.cache[ty]
        self.cache[ty] = None       # cycle guard
        r = self._info(ty)
        self.cache[ty] = r
        return r

    def _info(self, ty):
        if ty.endswith('*'):
            return (8, 8, 'scalar', None)
        mm = re.fullmatch(r'i(\d+)', ty)
        if mm:
            bits = int(mm.group(1))
            size = (bits + 7) // 8
            al = 1
            while al < size and al < 8:
                al *= 2
            if bits > 64:
                size, al = 16, 16
            return (max(size, 1) if size in (1, 2, 4, 8, 16) else ((size + al - 1) // al) * al, al, 'scalar', None)
        if ty in ('float',):
            return (4, 4, 'scalar', None)
        if ty in ('double',):
            return (8, 8, 'scalar', None)
        if ty in ('half', 'bfloat'):
            return (2, 2, 'scalar', None)
        if ty in ('x86_fp80', 'fp128', 'ppc_fp128'):
            return (16, 16, 'scalar', None)
        if ty.startswith('%'):
            d = self.defs.get(ty)
            if d is None or d == 'opaque':
                return None
            return self.info(d)
        if ty.startswith('[') and ty.endswith(']'):
            mm = re.match(r'\[\s*(\d+)\s+x\s+(.*)\]$', ty, re.S)
            if not mm:
                return None
            e = self.info(mm.group(2))
            if e is None:
                return None
            return (int(mm.group(1)) * e[0], e[1], 'array', (mm.group(2).strip(), e[0]))
        packed = False
        body = None
        if ty.startswith('<{') and ty.endswith('}>'):
            packed, body = True, ty[2:-2]
        elif ty.startswith('{') and ty.endswith('}'):
            body = ty[1:-1]
        elif ty.startswith('<') and ty.endswith('>'):
            mm = re.match(r'<\s*(\d+)\s+x\s+(.*)>$', ty, re.S)
            if not mm:
                return None
            e = self.info(mm.group(2))
            if e is None:
                return None
            n = int(mm.group(1)) * e[0]
            al = 1
            while al < n:
                al *= 2
            return (n, al, 'array', (mm.group(2).strip(), e[0]))
        if body is None:
            return None
        off, maxal, fields = 0, 1, []
        for ft in split_top(body):
            if not ft:
                continue
            e = self.info(ft)
            if e is None:
                return None
            al = 1 if packed else e[1]
            off = (off + al - 1) // al * al
            fields.append((ft, off))
            off += e[0]
            maxal = max(maxal, al)
        size = (off + maxal - 1) // maxal * maxal
        return (size, maxal, 'struct', fields)

    def gep_offset(self, srcty, idxs):
        """idxs: list of int or None -> byte offset or None"""
        e = self.info(srcty)
        if e is None or not idxs or idxs[0] is None:
            return None
        off = idxs[0] * e[0]
        cur = srcty
        for ix in idxs[1:]:
            e = self.info(cur)
            if e is None or ix is None:
                return None
            if e[2] == 'struct':
                if ix >= len(e[3]):
                    return None
                cur, fo = e[3][ix]
                off += fo
            elif e[2] == 'array':
                cur = e[3][0]
                off += ix * e[3][1]
            else:
                return None
        return off


# --------------------------------------------------------------------------- analysis
# tags (strings):
#   G:<global>   address of a named global        F:<fn> address of a function
#   S            loaded from shared memory        K      loaded from a constant global
#   AG           loaded from caller-owned memory  U      unclassified       N  no address
#   O|<base>|<off>  pointer into an object this thread owns, at byte offset <off> ('*' = unknown):
#       base A<k>         k-th parameter of the ROUTE function (the caller's object)
#       base L<fn>:<res>  an alloca
#       base H<fn>:<res>  fresh heap returned by operator new / malloc at that call site

def obj(base, off):
    return 'O|%s|%s' % (base, off)


def is_obj(t):
    return t.startswith('O|')


def obj_parts(t):
    _, base, off = t.split('|')
    return base, (off if off == '*' else int(off))


def blur(tags):
    """forget offsets (integer arithmetic on a pointer)"""
    out = set()
    for t in tags:
        if is_obj(t):
            out.add(obj(obj_parts(t)[0], '*'))
        else:
            out.add(t)
    return out


class RouteState:
    """memory summaries shared by the whole analysis of one route (monotone)"""

    def __init__(self):
        self.mem = {}           # base -> {off -> tags}
        self.version = 0

    def put(self, base, off, tags):
        tags = {t for t in tags if t != 'N'}
        cur = self.mem.setdefault(base, {}).setdefault(off, set())
        if not tags <= cur:
            cur |= tags
            self.version += 1

    def get(self, base, off):
        d = self.mem.get(base, {})
        out = set()
        if off == '*':
            for v in d.values():
                out |= v
        else:
            out |= d.get(off, set())
            out |= d.get('*', set())
        if base.startswith('A'):
            out.add('AG')       # whatever the caller put there
        return out


class Analyzer:
    def __init__(self, module, layout):
        self.m = module
        self.layout = layout
        self.memo = {}
        self.stack = []
        self.error_blocks_cache = {}

    # ---- values
    def tags_of_text(self, f, env, text):
        """union of the tags of every value / global mentioned in an operand text"""
        out = set()
        for t in TOK.findall(text):
            if t in self.m.types:
                continue
            if t.startswith('@'):
                nm = t[1:].strip('"')
                if nm in self.m.funcs or nm in self.m.declared:
                    out.add('F:' + nm)
                else:
                    out.add('G:' + nm)
            else:
                out |= env.get(t, set())
        return out

    def error_only(self, f):
        """labels of blocks that cannot reach ret / resume"""
        if f.name in self.error_blocks_cache:
            return self.error_blocks_cache[f.name]
        succ, exits = {}, set()
        for label, ins in f.blocks:
            term = ins[-1] if ins else None
            ss = []
            if term is not None:
                ss = re.findall(r'label (%(?:"[^"]*"|[A-Za-z0-9_.$\-]+))', term.text)
                if term.op in ('ret', 'resume'):
                    exits.add(label)
            succ[label] = ss
        pred = {}
        for a, ss in succ.items():
            for b in ss:
                pred.setdefault(b, []).append(a)
        good = set(exits)
        work = list(exits)
        while work:
            b = work.pop()
            for a in pred.get(b, []):
                if a not in good:
                    good.add(a)
                    work.append(a)
        bad = {label for label, _ in f.blocks if label not in good}
        self.error_blocks_cache[f.name] = bad
        return bad

    # ---- classification
    @staticmethod
    def classes(tags):
        cl = set()
        for t in tags:
            if t == 'N':
                continue
            if t.startswith('G:'):
                cl.add(t)
            elif is_obj(t):
                cl.add(obj_parts(t)[0][0])      # A / L / H
            elif t.startswith('F:') or t == 'K':
                cl.add('S')
            else:
                cl.add(t)
        return cl

    def addr_type(self, f, text, depth=0):
        """a readable type for the object an address points into (GEP source type)"""
        t = text.strip()
        mm = re.search(r'(%(?:"[^"]*"|[A-Za-z0-9_.$\-]+))\s*$', t)
        if mm and mm.group(1) in f.defs and depth < 6:
            d = f.defs[mm.group(1)]
            if d.op == 'getelementptr':
                body = re.sub(r'^getelementptr\s+(inbounds\s+)?', '', d.text)
                return split_top(body)[0].strip().replace('"', '').lstrip('%')
            if d.op == 'bitcast':
                src = re.sub(r'\s+to\s+.*$', '', d.text[len('bitcast'):])
                return self.addr_type(f, src, depth + 1)
        ty = re.sub(r'\s*(%\d+|@\S+)\s*$', '', t)
        return ty.replace('"', '').lstrip('%')[:80] or '?'

    def emit_access(self, acc, kind, f, tags, addr_text, raw):
        cl = self.classes(tags)
        if not cl:
            acc.append(('Unknown', '%s through a null or constant address: %s' % (kind, raw[:120])))
            return
        ty = None
        for c in sorted(cl):
            if kind == 'load':
                if c == 'U':
                    acc.append(('Unknown', 'load through an unclassified pointer: ' + raw[:120]))
                elif c.startswith('G:'):
                    acc.append(('Read', c[2:]))
                elif c == 'S':
                    acc.append(('ReadVia',))
                elif c in ('A', 'AG'):
                    acc.append(('ArgRead',))
                else:
                    acc.append(('LocalRead',))
            elif kind == 'store':
                if c == 'U':
                    acc.append(('Unknown', 'store through an unclassified pointer: ' + raw[:120]))
                elif c.startswith('G:'):
                    acc.append(('Write', c[2:]))
                elif c == 'S':
                    acc.append(('WriteVia',))
                elif c == 'AG':
                    ty = ty or self.addr_type(f, addr_text)
                    acc.append(('ArgGraphWrite', ty))
                elif c == 'A':
                    acc.append(('ArgWrite',))
                elif c == 'H':
                    acc.append(('FreshWrite',))
                else:
                    acc.append(('LocalWrite',))
            else:  # rmw
                if c == 'U':
                    acc.append(('Unknown', 'atomic through an unclassified pointer: ' + raw[:120]))
                elif c.startswith('G:'):
                    acc.append(('AtomicRMW', c[2:]))
                elif c == 'S':
                    acc.append(('AtomicRMWVia',))
                else:
                    ty = ty or self.addr_type(f, addr_text)
                    acc.append(('AtomicRMWOwned', ty))

    def load_result(self, st, tags):
        out = set()
        for t in tags:
            if t.startswith('G:'):
                if self.m.globals.get(t[2:], False):
                    out.add('K')
                else:
                    out.add('S')
            elif t == 'S':
                out.add('S')        # whatever is reachable from shared memory is shared
            elif t == 'K' or t.startswith('F:'):
                out.add('K')
            elif t == 'AG':
                out.add('AG')
            elif is_obj(t):
                base, off = obj_parts(t)
                out |= st.get(base, off)
            elif t == 'U':
                out.add('U')
        return out

    def store_effect(self, st, atags, vtags):
        for t in atags:
            if is_obj(t):
                base, off = obj_parts(t)
                st.put(base, off, vtags)
            # stores through AG / S / G pointers: what is loaded back from there is AG / S again

    def copy_effect(self, st, dtags, stags, n):
        """memcpy/memmove of n bytes (None = unknown)"""
        for d in dtags:
            for s in stags:
                if is_obj(d) and is_obj(s):
                    db, do = obj_parts(d)
                    sb, so = obj_parts(s)
                    if sb.startswith('A'):
                        st.put(db, '*', {'AG'})
                    for off, tags in list(st.mem.get(sb, {}).items()):
                        if off == '*' or do == '*' or so == '*' or n is None:
                            st.put(db, '*', tags)
                        elif so <= off < so + n:
                            st.put(db, do + off - so, tags)
                else:
                    self.store_effect(st, {d}, self.load_result(st, {s}))

    # ---- GEP
    def gep(self, f, env, t):
        body = re.sub(r'^getelementptr\s+(inbounds\s+)?', '', t)
        parts = split_top(body)
        if len(parts) < 2:
            return {'U'}
        base = self.tags_of_text(f, env, parts[1])
        if not any(is_obj(x) and obj_parts(x)[1] != '*' for x in base):
            return base
        idxs = []
        for p in parts[2:]:
            mm = re.fullmatch(r'(?:inrange\s+)?i\d+\s+(-?\d+)', p.strip())
            idxs.append(int(mm.group(1)) if mm else None)
        delta = self.layout.gep_offset(parts[0], idxs)
        out = set()
        for x in base:
            if is_obj(x):
                b, o = obj_parts(x)
                out.add(obj(b, '*' if (o == '*' or delta is None) else o + delta))
            else:
                out.add(x)
        return out

    # ---- calls
    def parse_call(self, f, ins):
        """-> (callee token or None, [arg texts])"""
        t = ins.text
        depth, q = 0, False
        j = 0
        while j < len(t):
            c = t[j]
            if q:
                if c == '"':
                    q = False
            elif c == '"':
                q = True
            elif c == '(':
                if depth == 0:
                    head = t[:j]
                    mm = re.search(r'([%@](?:"[^"]*"|[A-Za-z0-9_.$\-]+))$', head)
                    if mm and mm.group(1) not in self.m.types:
                        k = match_paren(t, j)
                        return mm.group(1), split_top(t[j + 1:k])
                depth += 1
            elif c == ')':
                depth -= 1
            j += 1
        return None, []

    def analyze(self, st, fname, argtags):
        """-> (accesses, return tags). Context-sensitive on the argument tags."""
        key = (fname, tuple(frozenset(a) for a in argtags), st.version)
        if key in self.memo:
            return self.memo[key]
        if fname in self.stack:
            return [('Unknown', 'recursion through ' + fname[:100])], {'U'}
        f = self.m.funcs[fname]
        self.stack.append(fname)
        # routes that END in a throw (errcall_*: an unresolvable call under a throwing error handler) are analysed in full:
        # for them the path to __cxa_throw is the call path
        bad = self.error_only(f) if getattr(self, 'collapse', True) else set()
        env = {}
        for k, (pn, kind) in enumerate(f.params):
            env[pn] = set(argtags[k]) if k < len(argtags) else {'U'}
        result = None
        for _ in range(40):
            snapshot = (sum(len(v) for v in env.values()), st.version)
            result = self.run_body(st, f, env, bad)
            if (sum(len(v) for v in env.values()), st.version) == snapshot:
                break
        else:
            result = ([('Unknown', 'no fixpoint in ' + fname[:100])], {'U'})
        self.stack.pop()
        key = (fname, tuple(frozenset(a) for a in argtags), st.version)
        self.memo[key] = result
        return result

    def run_body(self, st, f, env, bad):
        acc = []
        rett = set()
        saw_error = False
        for label, instrs in f.blocks:
            if label in bad:
                saw_error = True
                continue
            for ins in instrs:
                op, t = ins.op, ins.text
                val = None
                if op == 'alloca':
                    val = {obj('L%s:%s' % (f.name[-48:], ins.res), 0)}
                elif op == 'load':
                    parts = split_top(t)
                    addr = parts[1] if len(parts) > 1 else ''
                    at = self.tags_of_text(f, env, addr)
                    self.emit_access(acc, 'load', f, at, addr, ins.raw)
                    val = self.load_result(st, at)
                elif op == 'store':
                    parts = split_top(t)
                    addr = parts[1] if len(parts) > 1 else ''
                    at = self.tags_of_text(f, env, addr)
                    vt = self.tags_of_text(f, env, parts[0])
                    self.emit_access(acc, 'store', f, at, addr, ins.raw)
                    self.store_effect(st, at, vt)
                elif op in ('atomicrmw', 'cmpxchg'):
                    parts = split_top(t)
                    addr = parts[0]
                    at = self.tags_of_text(f, env, addr)
                    vt = set()
                    for p in parts[1:]:
                        vt |= self.tags_of_text(f, env, p)
                    self.emit_access(acc, 'rmw', f, at, addr, ins.raw)
                    self.store_effect(st, at, blur(vt))
                    val = self.load_result(st, at)
                elif op == 'fence':
                    acc.append(('Fence',))
                elif op in ('call', 'invoke'):
                    val = self.do_call(st, f, env, ins, acc)
                elif op == 'phi':
                    val = set()
                    body = t[len('phi'):]
                    for mm in re.finditer(r'\[\s*(.+?),\s*%(?:"[^"]*"|[A-Za-z0-9_.$\-]+)\s*\]', body):
                        val |= self.tags_of_text(f, env, mm.group(1))
                elif op == 'select':
                    parts = split_top(t)
                    val = set()
                    for p in parts[1:]:
                        val |= self.tags_of_text(f, env, p)
                elif op == 'getelementptr':
                    val = self.gep(f, env, t)
                elif op in ('icmp', 'fcmp'):
                    val = set()
                elif op in ('bitcast', 'freeze', 'addrspacecast', 'extractvalue', 'insertvalue'):
                    val = self.tags_of_text(f, env, t)
                elif op in PURE_OPS:
                    val = blur(self.tags_of_text(f, env, t))
                elif op == 'ret':
                    rett |= self.tags_of_text(f, env, t[3:])
                elif op in ('br', 'switch', 'resume', 'unreachable', 'indirectbr'):
                    pass
                else:
                    acc.append(('Unknown', 'instruction not understood: ' + ins.raw[:120]))
                    val = {'U'}
                if ins.res is not None:
                    cur = env.setdefault(ins.res, set())
                    if val:
                        cur |= val
        if saw_error:
            acc.append(('ErrorPath',))
        return acc, rett

    def do_call(self, st, f, env, ins, acc):
        t = ins.text
        if re.search(r'\basm\b', t.split('(')[0]):
            acc.append(('Unknown', 'inline asm: ' + ins.raw[:100]))
            return {'U'}
        callee, args = self.parse_call(f, ins)
        if callee is None:
            acc.append(('Unknown', 'call not understood: ' + ins.raw[:120]))
            return {'U'}
        argtags = [self.tags_of_text(f, env, a) for a in args]
        allargs = set().union(*argtags) if argtags else set()
        if callee.startswith('%'):
            acc.append(('IndirectCall',))
            return {'U'}
        name = callee[1:].strip('"')
        if name.startswith('llvm.'):
            if name.startswith(IGNORED_INTRINSICS):
                return allargs
            if name.startswith(MEM_INTRINSICS):
                dst = argtags[0] if argtags else {'U'}
                self.emit_access(acc, 'store', f, dst, args[0], ins.raw)
                if 'memset' not in name:
                    src = argtags[1] if len(argtags) > 1 else {'U'}
                    self.emit_access(acc, 'load', f, src, args[1], ins.raw)
                    mm = re.fullmatch(r'i\d+\s+(\d+)', args[2].strip()) if len(args) > 2 else None
                    self.copy_effect(st, dst, src, int(mm.group(1)) if mm else None)
                return set()
            decl = self.m.declared.get(name, '')
            groups = re.findall(r'#\d+', decl)
            attrs = decl + ' ' + ' '.join(self.m.attr_groups.get(g, '') for g in groups)
            if re.search(r'\breadnone\b', attrs):
                return blur(allargs)
            acc.append(('Call', name))
            return {'U'} | blur(allargs)
        if name in self.m.funcs:
            sub, rett = self.analyze(st, name, argtags)
            acc.extend(sub)
            return set(rett)
        acc.append(('Call', name))
        if name in ALLOCATORS:
            return {obj('H%s:%s' % (f.name[-48:], ins.res), 0)}
        if name == '__dynamic_cast':
            return blur(argtags[0]) if argtags else {'U'}
        return {'U'}

    def route(self, fname):
        f = self.m.funcs[fname]
        st = RouteState()
        res = None
        for _ in range(30):
            v = st.version
            self.memo = {}
            res = self.analyze(st, fname, [{obj('A%d' % k, 0)} for k in range(len(f.params))])
            if st.version == v:
                break
        else:
            res = ([('Unknown', 'memory summaries did not stabilise')], {'U'})
        acc = list(res[0])
        if self.m.numbered_types:
            acc.append(('Unknown', 'module has numbered types; value/type tokens are ambiguous'))
        return acc


# --------------------------------------------------------------------------- driver

def compile_ir(variant, repo, use_cache=True):
    flags, post = VARIANTS[variant]
    inc = os.path.join(repo, 'include')
    rc, ver = vlib.run(['clang++', '--version'])
    key = vlib.tree_hash([inc, ROUTES_CPP, ROUTES_HPP], extra=' '.join(flags) + str(post) + ver)[:24]
    d = vlib.cache_dir('c16ir')
    path = os.path.join(d, '%s-%s.ll' % (variant, key))
    if use_cache and os.path.exists(path):
        return open(path).read(), key, ''
    tmp = '%s.tmp%d' % (path, os.getpid())
    cmd = ['clang++', '-std=c++17', '-S', '-emit-llvm', '-fdiscard-value-names', '-D' + vlib.GUARD, '-I', inc,
           '-Wno-deprecated-declarations', ROUTES_CPP, '-o', tmp] + flags
    rc, out = vlib.run(cmd, timeout=280)
    if rc != 0:
        return None, key, out
    if post:
        rc, out2 = vlib.run(post + [tmp, '-o', tmp + 'b'], timeout=120)
        if rc != 0:
            return None, key, out2
        os.replace(tmp + 'b', tmp)
    os.replace(tmp, path)
    # keep the cache bounded
    ents = sorted((os.path.getmtime(os.path.join(d, e)), e) for e in os.listdir(d) if e.startswith(variant + '-'))
    for _, e in ents[:-3]:
        try:
            os.remove(os.path.join(d, e))
        except OSError:
            pass
    return open(path).read(), key, out


def coq_str(s):
    return '"' + s.replace('"', '""').replace('\n', ' ') + '"'


def coq_access(a, names):
    if len(a) == 1:
        return a[0]
    return '%s %s' % (a[0], names[a[1]])


def shape_of_mangled(name):
    for pat, sh in SHAPE_OF_POLICY:
        if pat in name:
            return sh
    return 'other'


def budgeted(fn, seconds):
    """run fn() under a wall-clock budget; an analysis that does not finish is reported as Unknown (which fails every predicate)"""
    import signal

    class Timeout(Exception):
        pass

    def onalarm(sig, frm):
        raise Timeout()
    old = signal.signal(signal.SIGALRM, onalarm)
    signal.alarm(seconds)
    try:
        return fn()
    except Timeout:
        return [('Unknown', 'analysis budget of %d s exceeded' % seconds)]
    finally:
        signal.alarm(0)
        signal.signal(signal.SIGALRM, old)


def translate(variants, repo, use_cache=True):
    routes = []          # dicts
    keys = []
    for v in variants:
        text, key, log = compile_ir(v, repo, use_cache)
        if text is None:
            sys.stderr.write('clang failed for variant %s:\n%s\n' % (v, log[-3000:]))
            sys.exit(2)
        keys.append(key)
        m = parse_module(text)
        an = Analyzer(m, Layout(text))
        names = sorted(n for n in m.funcs if re.match(r'c16_\w+__\w+$', n))
        for n in names:
            mm = re.match(r'c16_(\w+?)__(\w+)$', n)
            an.collapse = not mm.group(1).startswith('errcall')
            routes.append({'name': mm.group(1), 'shape': mm.group(2), 'variant': v, 'function': n,
                           'accesses': an.route(n)})
            an.collapse = True
        # what the dispatch jump lands in when a call under thr_policy cannot be resolved: the method's error stubs, analysed
        # in full (they end in a throw through the policy's error facet)
        for n in sorted(m.funcs):
            hm = re.search(r'reg_thr7(gap|amb)_key.*thr_policy.*?(?:23(not_implemented)_handler|17(ambiguous)_handler)', n)
            if hm and v in ('O2', 'O2assert', 'O1'):      # at -O0 the std::visit / std::variant machinery is not inlined
                an.collapse = False
                routes.append({'name': 'errstub_%s_%s' % (hm.group(1), hm.group(2) or hm.group(3)), 'shape': 'thr', 'variant': v,
                               'function': n, 'accesses': budgeted(lambda: an.route(n), 60)})
                an.collapse = True
        thunks = sorted(n for n in m.funcs if 'detail5thunkI' in n)
        cnt = {}
        for n in thunks:
            sh = shape_of_mangled(n)
            if sh in ('foreign', 'other'):
                continue
            # the definition the thunk wraps, e.g. ...defsIS4_E8vmeet_aaE... -> vmeet_aa
            km = re.search(r'E\d+((?:kick|meet|vkick|vmeet|skick)_[a-z]+)E', n)
            dname = km.group(1) if km else 'x'
            cnt[(sh, dname)] = cnt.get((sh, dname), 0) + 1
            suffix = '' if cnt[(sh, dname)] == 1 else '_%d' % cnt[(sh, dname)]
            routes.append({'name': 'thunk_%s%s' % (dname, suffix), 'shape': sh, 'variant': v,
                           'function': n, 'accesses': an.route(n)})
    return routes, keys


def render(routes, keys, repo):
    strings = sorted({a[1] for r in routes for a in r['accesses'] if len(a) > 1})
    names = {x: 's%d' % k for k, x in enumerate(strings)}
    out = []
    out.append('(* GENERATED by translators/callpath.py from the LLVM IR of harness/callpath/routes.cpp')
    out.append('   compiled against the include tree of the repository under verification. Never edit. *)')
    out.append('From Coq Require Import String List.')
    out.append('From Y2 Require Import Model.CallPath.')
    out.append('Import ListNotations.')
    out.append('Open Scope string_scope.')
    out.append('')
    out.append('Definition source_key : string := %s.' % coq_str('+'.join(keys)))
    out.append('')
    out.append('(* names of globals, external functions, object types and parser complaints *)')
    for x in strings:
        out.append('Definition %s : string := %s.' % (names[x], coq_str(x)))
    out.append('')
    defs = []
    for r in routes:
        dn = 'r_%s_%s_%s' % (r['variant'], r['shape'], r['name'])
        defs.append(dn)
        out.append('(* %s *)' % r['function'].replace('*)', '* )')[:300])
        out.append('Definition %s : route := mkRoute %s %s %s' % (dn, coq_str(r['name']), coq_str(r['shape']), coq_str(r['variant'])))
        body = '; '.join(coq_access(a, names) for a in r['accesses'])
        out.append('  [%s].' % body)
    out.append('')
    out.append('Definition routes : list route :=')
    out.append('  [' + ';\n   '.join(defs) + '].')
    out.append('')
    return '\n'.join(out)


def main():
    argv = sys.argv[1:]
    out_v, out_json, variants, use_cache = OUT_V, None, DEFAULT_VARIANTS, not os.environ.get('VERIF_C16_NOCACHE')
    i = 0
    while i < len(argv):
        if argv[i] == '--out':
            out_v = argv[i + 1]; i += 1
        elif argv[i] == '--json':
            out_json = argv[i + 1]; i += 1
        elif argv[i] == '--variants':
            variants = argv[i + 1].split(','); i += 1
        elif argv[i] == '--no-cache':
            use_cache = False
        i += 1
    repo = vlib.REPO
    # the final text is cached by the same key as the IR (content-addressed: same sources -> same text)
    rc, ver = vlib.run(['clang++', '--version'])
    gkey = vlib.tree_hash([os.path.join(repo, 'include'), ROUTES_CPP, ROUTES_HPP, os.path.abspath(__file__)],
                          extra=','.join(variants) + ver)[:24]
    d = vlib.cache_dir('c16ir')
    gv, gj = os.path.join(d, 'gen-%s.v' % gkey), os.path.join(d, 'gen-%s.json' % gkey)
    if use_cache and os.path.exists(gv) and os.path.exists(gj):
        text = open(gv).read()
        routes_json = open(gj).read()
    else:
        routes, keys = translate(variants, repo, use_cache)
        text = render(routes, keys, repo)
        routes_json = json.dumps({'source_key': '+'.join(keys), 'routes': routes}, indent=0)
        for dst, content in ((gv, text), (gj, routes_json)):
            tmp = '%s.tmp%d' % (dst, os.getpid())
            with open(tmp, 'w') as fh:
                fh.write(content)
            os.replace(tmp, dst)
        ents = sorted((os.path.getmtime(os.path.join(d, e)), e) for e in os.listdir(d) if e.startswith('gen-'))
        for _, e in ents[:-6]:
            try:
                os.remove(os.path.join(d, e))
            except OSError:
                pass
    vlib.write_if_changed(out_v, text)
    if out_json:
        with open(out_json, 'w') as fh:
            fh.write(routes_json)
    return 0


if __name__ == '__main__':
    sys.exit(main())
