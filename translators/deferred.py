#!/usr/bin/env python3
"""/repo/include/yorel/yomm2/detail/compiler.hpp  ->  coq/Gen/GenDef.v      (properties C10, C07)

Source-to-Gallina translation of compiler<Policy>::resolve_static_type_ids(): the lambda `resolve` (must be: read the function
pointer stored in the cell, call it, store the id it returns in the same cell), the lambda `resolve_list(first, last)` and the
body under `if constexpr (std::is_base_of_v<policy::deferred_static_rtti, Policy>)` are parsed (translators/_minicpp.py) and
lowered into the language of coq/Model/MiniDef.v.  Anything else is refused (exit 3).  Proofs/DefSource.v proves that running
the translation is Model.Deferred.resolve_static_type_ids.
"""
import os, re, sys

sys.path.insert(0, os.path.dirname(os.path.abspath(__file__)))
sys.path.insert(0, os.path.join(os.path.dirname(os.path.abspath(__file__)), '..', 'tools'))
import vlib
import _minicpp as mc
mc.INLINE_LAMBDAS = False     # `resolve` and `resolve_list` are local lambdas that this translator reads as such

REPO = os.environ.get('VERIF_REPO', '/repo')
SRC = os.path.join(REPO, 'include/yorel/yomm2/detail/compiler.hpp')


def die(msg):
    sys.stderr.write('deferred.py: ' + msg + '\n')
    print('deferred.py: ' + msg)
    sys.exit(3)


def nonempty(stmts):
    return [s for s in stmts if s != ('block', []) and s != ('using',)]


def seq(cons, skip, out):
    out = [t for t in out if t != skip]
    if not out:
        return skip
    r = out[-1]
    for t in reversed(out[:-1]):
        r = '(%s %s\n  %s)' % (cons, t, r)
    return r


def lower_list_body(st, first, last, resolve):
    def s(x):
        if x[0] == 'block':
            sts = nonempty(x[1])
            # guard form:  if (first == last || *last != 0) return;  REST      ==      if (first != last && *last == 0) { REST }
            if sts and sts[0][0] == 'if' and not sts[0][1] and sts[0][4] is None and nonempty(sts[0][3][1] if sts[0][3][0] == 'block' else [sts[0][3]]) == [('return', None)]:
                a = ('bin', '==', ('id', first), ('id', last))
                b = ('bin', '!=', ('un', '*', ('id', last)), ('num', 0))
                b2 = ('un', '*', ('id', last))
                if sts[0][2] in (('bin', '||', a, b), ('bin', '||', a, b2)):
                    return '(BIfPending %s)' % seq('BSeq', 'BSkip', [s(t) for t in sts[1:]])
            return seq('BSeq', 'BSkip', [s(t) for t in sts])
        if x[0] == 'if' and not x[1] and x[4] is None:
            a = ('bin', '!=', ('id', first), ('id', last))
            b = ('bin', '==', ('un', '*', ('id', last)), ('num', 0))
            b2 = ('un', '!', ('un', '*', ('id', last)))
            if x[2] in (('bin', '&&', a, b), ('bin', '&&', a, b2)):
                return '(BIfPending %s)' % s(x[3])
        if x[0] == 'rangefor' and isinstance(x[1], str) and x[2] == ('construct', 'range', [('id', first), ('id', last)]):
            body = nonempty(x[3][1] if x[3][0] == 'block' else [x[3]])
            if body == [('expr', ('call', ('id', resolve), [('un', '&', ('id', x[1]))]))]:
                return 'BForIdsResolve'
        if x[0] == 'for' and x[1] and x[1][0] == 'decl' and len(x[1][2]) == 1 and x[1][2][0][1] == ('id', first):
            p = x[1][2][0][0]
            body = nonempty(x[4][1] if x[4][0] == 'block' else [x[4]])
            if (x[2] == ('bin', '!=', ('id', p), ('id', last)) and x[3] in (('un', '++', ('id', p)), ('post', '++', ('id', p)))
                    and body == [('expr', ('call', ('id', resolve), [('id', p)]))]):
                return 'BForIdsResolve'
        if x == ('expr', ('assign', '=', ('un', '*', ('id', last)), ('num', 1))):
            return 'BSetFlag'
        raise mc.Unsupported('resolve_list: statement not in the subset: ' + mc.show(x))
    return s(st)


class Lower:
    def __init__(self, resolve, resolve_list):
        self.resolve, self.resolve_list = resolve, resolve_list
        self.ci = self.method = self.definition = None

    def bad(self, msg, node):
        raise mc.Unsupported('resolve_static_type_ids: %s: %s' % (msg, mc.show(node)))

    def s(self, st):
        k = st[0]
        if k == 'block':
            return seq('FSeq', 'FSkip', [self.s(t) for t in nonempty(st[1])])
        if k == 'if' and not st[1] and st[4] is None and self.ci and st[2] == ('un', '!', ('member', ('id', self.ci), 'is_type_resolved', False)):
            return '(FIfTypeUnresolved %s)' % self.s(st[3])
        if k == 'expr':
            e = st[1]
            if self.ci and e == ('call', ('id', self.resolve), [('un', '&', ('member', ('id', self.ci), 'type', False))]):
                return 'FResolveType'
            if self.ci and e == ('assign', '=', ('member', ('id', self.ci), 'is_type_resolved', False), ('bool', True)):
                return 'FSetTypeResolved'
            if e[0] == 'call' and e[1] == ('id', self.resolve_list) and len(e[2]) == 2:
                a, b = e[2]
                if self.ci and (a, b) == (('member', ('id', self.ci), 'first_base', False), ('member', ('id', self.ci), 'last_base', False)):
                    return '(FResolveList FBasesOfClass)'
                if self.definition and (a, b) == (('member', ('id', self.definition), 'vp_begin', False), ('member', ('id', self.definition), 'vp_end', False)):
                    return '(FResolveList FVpOfDefinition)'
                if self.method and (a, b) == (('member', ('id', self.method), 'vp_begin', False), ('member', ('id', self.method), 'vp_end', False)):
                    return '(FResolveList FVpOfMethod)'
            self.bad('expression statement not in the subset', st)
        if k == 'rangefor' and isinstance(st[1], str):
            if st[2] == ('id', 'Policy::classes') and self.ci is None:
                self.ci = st[1]; b = self.s(st[3]); self.ci = None
                return '(FForClasses %s)' % b
            if st[2] == ('id', 'Policy::methods') and self.method is None:
                self.method = st[1]; b = self.s(st[3]); self.method = None
                return '(FForMethods %s)' % b
            if self.method and st[2] == ('member', ('id', self.method), 'specs', False) and self.definition is None:
                self.definition = st[1]; b = self.s(st[3]); self.definition = None
                return '(FForDefinitions %s)' % b
        self.bad('statement not in the subset', st)


def main():
    try:
        src = mc.strip_comments(open(SRC).read())
    except OSError as e:
        die('cannot read %s: %s' % (SRC, e))
    try:
        params, body, _ = mc.find_function(src, r'\bvoid\s+compiler<Policy>::resolve_static_type_ids\b', 'resolve_static_type_ids')
        if params.strip():
            raise mc.Unsupported('resolve_static_type_ids takes parameters now')
        top = nonempty(mc.parse_function_body(mc.drop_trace(body), ('is_base_of_v',))[1])
        lambdas = {}
        rest = []
        for st in top:
            if st[0] == 'decl' and len(st[2]) == 1 and st[2][0][1] is not None and st[2][0][1][0] == 'lambda':
                lambdas[st[2][0][0]] = st[2][0][1]
            else:
                rest.append(st)
        # `resolve`: auto pf = reinterpret_cast<type_id (*)()>(*p); *p = pf();
        res = [n for n, l in lambdas.items() if len(l[2]) == 1 and l[3] == ('block', [
            ('decl', 'auto', [('pf', ('cast', 'reinterpret_cast', 'type_id ( * ) ( )', ('un', '*', ('id', l[2][0]))))]),
            ('expr', ('assign', '=', ('un', '*', ('id', l[2][0])), ('call', ('id', 'pf'), [])))])
            # *p = reinterpret_cast<type_id (*)()>(*p)();      the same call without the name
            or len(l[2]) == 1 and l[3] == ('block', [
            ('expr', ('assign', '=', ('un', '*', ('id', l[2][0])), ('call', ('cast', 'reinterpret_cast', 'type_id ( * ) ( )', ('un', '*', ('id', l[2][0]))), [])))])]
        if len(res) != 1:
            raise mc.Unsupported('the lambda that resolves one cell is no longer `auto pf = reinterpret_cast<type_id (*)()>(*p); *p = pf();`')
        resolve = res[0]
        lists = [n for n, l in lambdas.items() if n != resolve and len(l[2]) == 2]
        if len(lists) != 1 or len(lambdas) != 2:
            raise mc.Unsupported('expected exactly two lambdas: resolve(p) and resolve_list(first, last)')
        rl = lists[0]
        first, last = lambdas[rl][2]
        lbody = lower_list_body(lambdas[rl][3], first, last, resolve)
        if (len(rest) != 1 or rest[0][0] != 'if' or not rest[0][1] or rest[0][4] is not None or rest[0][2][0] != 'tmpl' or rest[0][2][1] != 'std::is_base_of_v'
                or [re.sub(r'\s', '', a) for a in rest[0][2][2]] != ['policy::deferred_static_rtti', 'Policy']):
            raise mc.Unsupported('the body is no longer one `if constexpr (std::is_base_of_v<policy::deferred_static_rtti, Policy>)`')
        text = Lower(resolve, rl).s(rest[0][3])
    except mc.Unsupported as e:
        die(str(e))
    out = ('(* GENERATED by translators/deferred.py from %s - do not edit.\n'
           '   compiler<Policy>::resolve_static_type_ids, in the language of Model/MiniDef.v. *)\n'
           'From Y2 Require Import Model.MiniDef.\n\nDefinition gen_resolve : def_src :=\n  mk_def_src true\n  %s\n  %s.\n' % (SRC, lbody, text))
    vlib.write_if_changed(os.path.join(vlib.COQ, 'Gen', 'GenDef.v'), out)


if __name__ == '__main__':
    main()
