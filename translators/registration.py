#!/usr/bin/env python3
"""/repo/include/yorel/yomm2/core.hpp, detail.hpp  ->  coq/Gen/GenReg.v      (properties C18, C14, C03)

Source-to-Gallina translation of the constructors and destructors of the registration objects:
    method<Key, R(A...), Policy>::add_function<Function>::add_function(next_type* next = nullptr)
    method<Key, R(A...), Policy>::method(), ::~method()
    detail::class_declaration_aux<Policy, types<Class, Bases...>>::class_declaration_aux(), ::~class_declaration_aux()
and of the two add_definition_ specialisations (which argument they pass to add_function).
The bodies are parsed (translators/_minicpp.py) and lowered statement by statement into the language of coq/Model/MiniReg.v:
field assignments whose right-hand side, with the local type aliases expanded and `detail::` dropped, is literally one of the
expressions of the vocabulary below; `if` on a field; BOOST_ASSERT; return; push_back / remove on fn.specs, Policy::classes,
Policy::methods.  Anything else is refused (exit 3, naming the construct).  Proofs/RegSource.v proves what the translated
constructors leave behind and composes object lifetimes with Model.Catalog.
"""
import os, re, sys

sys.path.insert(0, os.path.dirname(os.path.abspath(__file__)))
sys.path.insert(0, os.path.join(os.path.dirname(os.path.abspath(__file__)), '..', 'tools'))
import vlib
import _minicpp as mc

REPO = os.environ.get('VERIF_REPO', '/repo')
CORE = os.path.join(REPO, 'include/yorel/yomm2/core.hpp')
DETAIL = os.path.join(REPO, 'include/yorel/yomm2/detail.hpp')
TEMPLATES = ('collect_static_type_id', 'type_id_list', 'types', 'static_vptr', 'is_abstract_v', 'thunk', 'spec_polymorphic_types',
             'parameter_type_list_t', 'static_type', 'default_method_name', 'mp_transform_q', 'mp_bind_front')

PARAMS = 'parameter_type_list_t<decltype(Function)>'
SPEC_IDS = 'type_id_list<Policy,spec_polymorphic_types<Policy,declared_argument_types,%s>>' % PARAMS
VIRT_IDS = 'type_id_list<Policy,boost::mp11::mp_transform_q<boost::mp11::mp_bind_front<polymorphic_type,Policy>,virtual_argument_types>>'
BASE_IDS = 'type_id_list<Policy,types<Bases...>>'
VALUES = {
    '&fn': 'VThisMethod',
    'Policy::static_type<decltype(Function)>()': 'VFunctionTypeId',
    '(void**)next': 'VNextArg',
    '(void*)thunk<Policy,signature_type,Function,%s>::fn' % PARAMS: 'VThunk',
    SPEC_IDS + '::begin': 'VSpecIdsBegin',
    SPEC_IDS + '::end': 'VSpecIdsEnd',
    'collect_static_type_id<Policy,Class>()': 'VClassTypeId',
    BASE_IDS + '::begin': 'VBaseIdsBegin',
    BASE_IDS + '::end': 'VBaseIdsEnd',
    'std::is_abstract_v<Class>': 'VIsAbstract',
    '&Policy::static_vptr<Class>': 'VStaticVptrAddr',
    'slots_strides': 'VSlotsStrides',
    'default_method_name<method>()': 'VDefaultName',
    VIRT_IDS + '::begin': 'VVirtualIdsBegin',
    VIRT_IDS + '::end': 'VVirtualIdsEnd',
    '(void*)not_implemented_handler': 'VNotImplementedStub',
    '(void*)ambiguous_handler': 'VAmbiguousStub',
    'Policy::static_type<method>()': 'VMethodTypeId',
}
FIELDS = {
    'info': {'method': 'FMethod', 'type': 'FType', 'next': 'FNext', 'pf': 'FPf', 'vp_begin': 'FVpBegin', 'vp_end': 'FVpEnd'},
    'class': {'type': 'CType', 'first_base': 'CFirstBase', 'last_base': 'CLastBase', 'is_abstract': 'CIsAbstract', 'static_vptr': 'CStaticVptr'},
    'method': {'slots_strides_ptr': 'MSlotsStrides', 'name': 'MName', 'vp_begin': 'MVpBegin', 'vp_end': 'MVpEnd',
               'not_implemented': 'MNotImplemented', 'ambiguous': 'MAmbiguous', 'method_type': 'MMethodType'},
}


def die(msg):
    sys.stderr.write('registration.py: ' + msg + '\n')
    print('registration.py: ' + msg)
    sys.exit(3)


def norm(t):
    t = re.sub(r'\s+', '', t)
    t = t.replace('::template', '::')
    t = re.sub(r'(?<![A-Za-z0-9_])detail::', '', t)
    return t


class Lower:
    def __init__(self, fname, this_kind):
        self.fname = fname
        self.this_kind = this_kind     # 'class' | 'method' | None (add_function: no field of *this is touched)
        self.aliases = {}
        self.static_info = False
        self.has_info = False

    def bad(self, what, node):
        raise mc.Unsupported('%s: %s: %s' % (self.fname, what, mc.show(node)))

    def expand(self, text):
        """expand the local type aliases in a normalised text (whole identifiers only)"""
        for _ in range(8):
            new = text
            for a, ty in self.aliases.items():
                new = re.sub(r'(?<![A-Za-z0-9_:])%s(?![A-Za-z0-9_])' % re.escape(a), ty, new)
            if new == text:
                break
            text = new
        return text

    def render(self, e):
        """an expression as normalised C++ text"""
        k = e[0]
        if k == 'id':
            return e[1]
        if k == 'un' and e[1] == '&':
            return '&' + self.render(e[2])
        if k == 'tmpl':
            return '%s<%s>' % (e[1], ','.join(norm(a) for a in e[2]))
        if k == 'scoped':
            return '%s::%s' % (self.render(e[1]), e[2])
        if k == 'call' and e[2] == []:
            return self.render(e[1]) + '()'
        if k == 'cast':
            return '(%s)%s' % (norm(e[2]), self.render(e[3]))
        self.bad('value expression not in the subset', e)

    def value(self, e):
        t = self.expand(norm(self.render(e)))
        if t not in VALUES:
            self.bad('right-hand side is none of the expressions the model gives a meaning to (after alias expansion: %s)' % t, e)
        return VALUES[t]

    def lhs(self, e):
        """(object, field) of  info.f  /  this->f"""
        if e[0] == 'member' and e[1] == ('id', 'info') and not e[3] and self.has_info and e[2] in FIELDS['info']:
            return 'OInfo', FIELDS['info'][e[2]]
        if e[0] == 'member' and e[1] == ('this',) and e[3] and self.this_kind and e[2] in FIELDS[self.this_kind]:
            return 'OThis', FIELDS[self.this_kind][e[2]]
        self.bad('not a field of the record', e)

    def cond(self, e):
        if e[0] == 'un' and e[1] == '!':
            return '(RNot %s)' % self.cond(e[2])
        if e[0] == 'bin' and e[1] in ('==', '!='):
            for a, b in ((e[2], e[3]), (e[3], e[2])):
                if b == ('null',):
                    o, f = self.lhs(a)
                    return '(RNot (RNonNull %s %s))' % (o, f) if e[1] == '==' else '(RNonNull %s %s)' % (o, f)
            for a, b in ((e[2], e[3]), (e[3], e[2])):
                if a[0] == 'member':
                    o, f = self.lhs(a)
                    c = '(REqV %s %s %s)' % (o, f, self.value(b))
                    return c if e[1] == '==' else '(RNot %s)' % c
        if e[0] == 'member':
            o, f = self.lhs(e)
            return '(RNonNull %s %s)' % (o, f)
        self.bad('condition not in the subset', e)

    def catalog(self, e):
        if e == ('member', ('id', 'fn'), 'specs', False):
            return 'KFnSpecs'
        if e == ('id', 'Policy::classes'):
            return 'KPolicyClasses'
        if e == ('id', 'Policy::methods'):
            return 'KPolicyMethods'
        self.bad('not one of the three catalogs', e)

    def obj(self, e):
        if e == ('id', 'info') and self.has_info:
            return 'OInfo'
        if e == ('un', '*', ('this',)):
            return 'OThis'
        self.bad('not the record', e)

    def seq(self, stmts):
        out = [self.s(x) for x in stmts]
        out = [x for x in out if x != 'GSkip']
        if not out:
            return 'GSkip'
        r = out[-1]
        for x in reversed(out[:-1]):
            r = '(GSeq %s\n  %s)' % (x, r)
        return r

    def s(self, st):
        k = st[0]
        if k == 'block':
            return self.seq(st[1])
        if k == 'using':
            return 'GSkip'
        if k == 'alias':
            self.aliases[st[1]] = norm(st[2])
            return 'GSkip'
        if k == 'decl':
            words = [norm(w) for w in st[1].split()]
            ty = ' '.join(words)
            if st[2] == [('info', None)] and ty in ('static definition_info', 'definition_info') and not self.has_info and self.this_kind is None:
                self.has_info = True
                self.static_info = ty.startswith('static')
                return 'GSkip'
            self.bad('declaration not in the subset', st)
        if k == 'if':
            return '(GIf %s\n  %s\n  %s)' % (self.cond(st[2]), self.s(st[3]), self.s(st[4]) if st[4] else 'GSkip')
        if k == 'return':
            if st[1] is None:
                return 'GReturn'
            self.bad('return with a value', st)
        if k == 'expr':
            e = st[1]
            if e[0] == 'call' and e[1] == ('id', 'BOOST_ASSERT') and len(e[2]) == 1:
                return '(GAssert %s)' % self.cond(e[2][0])
            if e[0] == 'assign' and e[1] == '=':
                o, f = self.lhs(e[2])
                return '(GSetF %s %s %s)' % (o, f, self.value(e[3]))
            if e[0] == 'call' and e[1][0] == 'member' and e[1][2] in ('push_back', 'remove') and not e[1][3] and len(e[2]) == 1:
                return '(%s %s %s)' % ('GPush' if e[1][2] == 'push_back' else 'GRemove', self.catalog(e[1][1]), self.obj(e[2][0]))
            self.bad('expression statement not in the subset', st)
        self.bad('statement not in the subset', st)


def scope_aliases(body):
    """`using X = T;` declared directly in a class body (brace depth 0 of `body`)"""
    out = {}
    depth = 0
    i = 0
    while i < len(body):
        ch = body[i]
        if ch == '{':
            depth += 1
        elif ch == '}':
            depth -= 1
        elif depth == 0:
            m = re.match(r'using\s+(\w+)\s*=\s*([^;{}]+);', body[i:])
            if m and (i == 0 or not (body[i - 1].isalnum() or body[i - 1] == '_')):
                out[m.group(1)] = norm(m.group(2))
                i += m.end()
                continue
        i += 1
    return out


def strip_scope_aliases(body_raw):
    """a class body, normalised, with its alias declarations removed and their uses expanded"""
    aliases = {}
    for m in re.finditer(r'using\s+(\w+)\s*=\s*([^;{}]+);', body_raw):
        aliases[m.group(1)] = m.group(2)
    t = re.sub(r'using\s+\w+\s*=\s*[^;{}]+;', '', body_raw)
    for _ in range(4):
        for a, ty in aliases.items():
            t = re.sub(r'(?<![A-Za-z0-9_:])%s(?![A-Za-z0-9_])' % re.escape(a), ty, t)
    return norm(t)


def struct_body(src, header_re, what):
    ms = list(re.finditer(header_re, src))
    if len(ms) != 1:
        raise mc.Unsupported('%s: expected exactly one match, found %d' % (what, len(ms)))
    b = src.index('{', ms[0].end() - 1)
    return src[b + 1:mc.balanced(src, b, '{', '}') - 1]


def main():
    try:
        core = mc.strip_comments(open(CORE).read())
        det = mc.strip_comments(open(DETAIL).read())
    except OSError as e:
        die('cannot read the headers: %s' % e)
    out = {}
    try:
        jobs = (
            ('add_function', core, r'\bexplicit\s+add_function\b', None, 'next_type*next=nullptr'),
            ('method_ctor', core, r'method<Key, R\(A\.\.\.\), Policy>::method\b', 'method', ''),
            ('method_dtor', core, r'method<Key, R\(A\.\.\.\), Policy>::~method\b', 'method', ''),
            ('class_ctor', det, r'(?<!~)\bclass_declaration_aux\s*(?=\(\s*\)\s*\{)', 'class', ''),
            ('class_dtor', det, r'~class_declaration_aux\b', 'class', ''),
        )
        for name, src, header, kind, want_params in jobs:
            params, body, line = mc.find_function(src, header, name)
            if norm(params) != want_params:
                raise mc.Unsupported('%s: parameter list changed: %s' % (name, params))
            ast = mc.parse_function_body(body, TEMPLATES)
            lw = Lower(name, kind)
            if kind == 'class':
                cb = struct_body(det, r'struct\s+class_declaration_aux\s*<\s*Policy\s*,\s*detail::types\s*<\s*Class\s*,\s*Bases\s*\.\.\.\s*>\s*>', 'class_declaration_aux<Policy, types<Class, Bases...>>')
                lw.aliases.update(scope_aliases(cb))
            text = lw.s(ast)
            out[name] = '{| rf_static_info := %s;\n   rf_body :=\n %s |}' % ('true' if lw.static_info else 'false', text)
        # the add_function template is a member of the method template, parameterised by the function alone:
        # one instantiation (hence one static `info`) per (method, Function)
        m = re.search(r'template\s*<\s*auto\s+Function\s*>\s*struct\s+add_function\s*\{\s*explicit\s+add_function', core)
        if not m:
            raise mc.Unsupported('add_function is no longer `template<auto Function> struct add_function { explicit add_function(...` inside method')
        # which argument add_definition_ passes on
        bn = struct_body(core, r'struct\s+add_definition_\s*<\s*Container\s*,\s*true\s*>', 'add_definition_<Container, true>')
        bo = struct_body(core, r'struct\s+add_definition_\s*<\s*Container\s*,\s*false\s*>', 'add_definition_<Container, false>')
        wn = strip_scope_aliases(bn)
        wo = strip_scope_aliases(bo)
        mw = re.fullmatch(r'add_function<Container::fn>[A-Za-z_][A-Za-z0-9_]*\{&Container::next\};', wn)
        mo = re.fullmatch(r'add_function<Container::fn>[A-Za-z_][A-Za-z0-9_]*(\{nullptr\}|\{\}|);', wo)
        if not mw:
            raise mc.Unsupported('add_definition_<Container, true> is no longer one member `add_function<Container::fn> x{&Container::next};`: ' + wn)
        if not mo:
            raise mc.Unsupported('add_definition_<Container, false> is no longer one member `add_function<Container::fn> x{nullptr};`: ' + wo)
        sel = norm(struct_body(core, r'struct\s+add_definition\s*(?=:)', 'add_definition'))
        base = re.search(r'struct\s+add_definition\s*:\s*([^{]*)\{', core)
        if not base or norm(base.group(1)) != 'add_definition_<Container,has_next_v<Container,next_type>>':
            raise mc.Unsupported('add_definition no longer derives from add_definition_<Container, detail::has_next_v<Container, next_type>>')
    except mc.Unsupported as e:
        die(str(e))
    text = ('(* GENERATED by translators/registration.py from %s and %s - do not edit.\n'
            '   Constructors and destructors of the registration objects, in the language of Model/MiniReg.v. *)\n'
            'From Y2 Require Import Model.MiniReg.\n\n' % (CORE, DETAIL))
    for name in ('add_function', 'method_ctor', 'method_dtor', 'class_ctor', 'class_dtor'):
        text += 'Definition gen_%s : rfun :=\n  %s.\n\n' % (name, out[name])
    text += ('(* add_definition<Container> derives from add_definition_<Container, has_next_v<Container, next_type>>, whose only member is an\n'
             '   add_function<Container::fn> constructed with &Container::next (true) / nullptr (false) *)\n'
             'Definition gen_add_definition_passes_next (container_has_next : bool) : bool := container_has_next.\n')
    vlib.write_if_changed(os.path.join(vlib.COQ, 'Gen', 'GenReg.v'), text)


if __name__ == '__main__':
    main()
