#!/usr/bin/env python3
"""/repo/include/yorel/yomm2/generator.hpp  ->  coq/Gen/GenFwd.v      (property C19)

Source-to-Gallina translation of generator::write_forward_declarations: the loop over the sorted names with its character
level bookkeeping of the namespaces that stay open (the scan of the common prefix, the closing braces, the rewind to the
start of a component, the loop that opens namespaces and declares the class) and the closing loop after the last name.
Parsed with translators/_minicpp.py and lowered, statement by statement, into the cursor language of coq/Model/MiniFwd.v.
Anything outside the subset is refused (exit 3).  Proofs/FwdSource.v proves the translation equal to
Model.FwdDecl.write_forward_declarations on every list of names.
"""
import os, re, sys

sys.path.insert(0, os.path.dirname(os.path.abspath(__file__)))
sys.path.insert(0, os.path.join(os.path.dirname(os.path.abspath(__file__)), '..', 'tools'))
import vlib
import _minicpp as mc

REPO = os.environ.get('VERIF_REPO', '/repo')
SRC = os.path.join(REPO, 'include/yorel/yomm2/generator.hpp')


def die(msg):
    sys.stderr.write('fwdwrite.py: ' + msg + '\n')
    print('fwdwrite.py: ' + msg)
    sys.exit(3)


def nonempty(stmts):
    return [s for s in stmts if s != ('block', []) and s != ('using',)]


def body_of(st):
    return nonempty(st[1]) if st[0] == 'block' else [st]


def call0(obj, name):
    return ('call', ('member', obj, name, False), [])


PI, PL = ('id', 'prev_ns_iter'), ('id', 'prev_ns_last')
COLON = ('chr', "':'")


class Lower:
    def __init__(self, name, dead):
        self.name = name            # the loop variable (None in the final loop)
        self.ni = 'name_iter'
        self.scope = None
        self.dead = dead            # variables that are assigned but never read

    def bad(self, msg, node):
        raise mc.Unsupported('write_forward_declarations: %s: %s' % (msg, mc.show(node)[:300]))

    def nend(self):
        return call0(('id', self.name), 'end')

    def nbegin(self):
        return call0(('id', self.name), 'begin')

    def c(self, e):
        NI = ('id', self.ni)
        if e == ('bool', True):
            return 'FTrue'
        if e[0] == 'bin' and e[1] in ('||', '&&'):
            return '(%s %s %s)' % ('FOr' if e[1] == '||' else 'FAnd', self.c(e[2]), self.c(e[3]))
        if e in (('bin', '!=', PI, PL), ('bin', '!=', PL, PI)):
            return 'FSpanNonEmpty'
        if self.name:
            if e in (('bin', '==', NI, self.nend()), ('bin', '==', self.nend(), NI)):
                return 'FNameAtEnd'
            if self.scope and e in (('bin', '==', ('id', self.scope), self.nend()), ('bin', '==', self.nend(), ('id', self.scope))):
                return 'FScopeAtEnd'
            if e in (('bin', '!=', NI, self.nbegin()), ('bin', '!=', self.nbegin(), NI)):
                return 'FNameNotAtBegin'
            if e in (('bin', '!=', ('un', '*', PI), ('un', '*', NI)), ('bin', '!=', ('un', '*', NI), ('un', '*', PI))):
                return 'FPrevCharDiffers'
            if e in (('bin', '!=', ('index', NI, ('un', '-', ('num', 1))), COLON), ('bin', '!=', ('un', '*', ('bin', '-', NI, ('num', 1))), COLON),
                     ('bin', '!=', ('un', '*', ('call', ('id', 'std::prev'), [NI])), COLON)):
                return 'FBeforeNameNotColon'
        if e in (('bin', '==', ('un', '*', PI), COLON), ('bin', '==', COLON, ('un', '*', PI))):
            return 'FPrevIsColon'
        self.bad('condition not in the subset', e)

    def normalise(self, sts):
        """spelling-only rewrites of a statement list (each is an identity of C++, checked here on the AST):
           for (; c; step) BODY  with no continue in BODY      ->  while (c) { BODY; step; }
           if (c) { ...; break; } REST                          ->  if (c) { ...; break; } else { REST }
           std::string_view w(A, B); REST                       ->  REST[w := std::string_view(A, B)]   when every use of w in REST comes
                                                                    before the first assignment to a variable A or B mention"""
        sts = nonempty(sts)
        out = []
        i = 0
        while i < len(sts):
            st = sts[i]
            if st[0] == 'for' and st[1] is None and st[2] is not None and st[3] is not None and not mc._mentions(st[4], 'continue'):
                st = ('while', st[2], ('block', body_of(st[4]) + [('expr', st[3])]))
            if (st[0] == 'if' and not st[1] and st[4] is None and i + 1 < len(sts) and body_of(st[3]) and body_of(st[3])[-1] == ('break',)):
                out.append(('if', False, st[2], st[3], ('block', sts[i + 1:])))
                break
            if (st[0] == 'decl' and st[1].replace(' ', '') in ('std::string_view', 'conststd::string_view') and len(st[2]) == 1 and st[2][0][1] is not None
                    and st[2][0][1][0] == 'ctor' and len(st[2][0][1][1]) == 2):
                w, args = st[2][0][0], st[2][0][1][1]
                val = ('call', ('id', 'std::string_view'), list(args))
                dirty = False
                ok = True
                for r in sts[i + 1:]:
                    uses = "('id', %r)" % w in repr(r)
                    writes = any(_assigns_var(r, v) for v in _ids_of(args))
                    if uses and (dirty or writes):
                        ok = False
                    dirty = dirty or writes
                if ok:
                    sts = sts[:i] + mc._subst_ids(sts[i + 1:], {w: val})
                    continue
            out.append(st)
            i += 1
        return out

    def seq(self, sts):
        out = [self.s(t) for t in self.normalise(sts)]
        out = [t for t in out if t != 'FSkip']
        if not out:
            return 'FSkip'
        r = out[-1]
        for t in reversed(out[:-1]):
            r = '(FSeq %s\n   %s)' % (t, r)
        return r

    def text_chain(self, e):
        ops = []
        while isinstance(e, tuple) and len(e) == 4 and e[0] == 'bin' and e[1] == '<<':
            ops.append(e[3]); e = e[2]
        return list(reversed(ops)) if e == ('id', 'os') else None

    def s(self, st):
        k = st[0]
        NI = ('id', self.ni)
        if k == 'block':
            return self.seq(st[1])
        if k == 'break':
            return 'FBreak'
        if k == 'while':
            return '(FWhile %s %s)' % (self.c(st[1]), self.seq(body_of(st[2])))
        if k == 'if' and not st[1]:
            return '(FIf %s\n   %s\n   %s)' % (self.c(st[2]), self.seq(body_of(st[3])), self.seq(body_of(st[4])) if st[4] else 'FSkip')
        if k == 'decl' and len(st[2]) == 1:
            name, init = st[2][0]
            if name in self.dead:
                return 'FSkip'
            if self.name and init == ('call', ('id', 'std::find'), [NI, self.nend(), COLON]) and st[1] in ('auto', 'const auto'):
                self.scope = name
                return 'FFindColon'
        if k == 'expr':
            e = st[1]
            if e[0] == 'assign' and e[1] == '=' and e[2][0] == 'id' and e[2][1] in self.dead:
                return 'FSkip'
            if e == ('un', '++', PI):
                return 'FIncPrev'
            if self.name:
                if e == ('un', '++', NI):
                    return 'FIncName'
                if e == ('un', '--', NI):
                    return 'FDecName'
                if e == ('assign', '=', PI, self.nbegin()):
                    return 'FPrevIterToNameBegin'
                if e == ('assign', '=', PL, NI):
                    return 'FPrevLastToNameIter'
                if self.scope and e in (('assign', '=', NI, ('bin', '+', ('id', self.scope), ('num', 2))), ('assign', '=', NI, ('bin', '+', ('num', 2), ('id', self.scope)))):
                    return 'FNameToScopePlus2'
            ops = self.text_chain(e)
            if ops is not None:
                if ops == [('str', '"}\\n"')]:
                    return 'FEmitClose'
                if self.scope and len(ops) == 3 and ops[1] == ('call', ('id', 'std::string_view'),
                                                               [('un', '&', ('un', '*', NI)), ('bin', '-', ('id', self.scope), NI)]):
                    if (ops[0], ops[2]) == (('str', '"class "'), ('str', '";\\n"')):
                        return 'FEmitClass'
                    if (ops[0], ops[2]) == (('str', '"namespace "'), ('str', '" {\\n"')):
                        return 'FEmitNamespace'
        self.bad('statement not in the subset', st)


def _ids_of(n):
    out = set()
    if isinstance(n, (list, tuple)):
        if isinstance(n, tuple) and len(n) == 2 and n[0] == 'id' and isinstance(n[1], str):
            out.add(n[1])
        else:
            for x in n:
                out |= _ids_of(x)
    return out


def _assigns_var(n, v):
    if isinstance(n, tuple):
        if n[:1] == ('assign',) and n[2] == ('id', v):
            return True
        if n[:1] in (('un',), ('post',)) and len(n) >= 3 and n[1] in ('++', '--') and n[2] == ('id', v):
            return True
        return any(_assigns_var(x, v) for x in n)
    if isinstance(n, list):
        return any(_assigns_var(x, v) for x in n)
    return False


def reads(n, name, acc):
    """occurrences of `name` other than as the target of a plain assignment or as a declared name"""
    if isinstance(n, list):
        for x in n:
            reads(x, name, acc)
    elif isinstance(n, tuple):
        if len(n) == 4 and n[0] == 'assign' and n[1] == '=' and n[2] == ('id', name):
            reads(n[3], name, acc)
            return
        if n == ('id', name):
            acc.append(1)
            return
        for x in n:
            reads(x, name, acc)


def main():
    try:
        src = mc.strip_comments(open(SRC).read())
    except OSError as e:
        die('cannot read %s: %s' % (SRC, e))
    try:
        params, body, _ = mc.find_function(src, r'generator::write_forward_declarations', 'write_forward_declarations')
        if re.sub(r'\s+', '', params) != 'std::ostream&os':
            raise mc.Unsupported('write_forward_declarations: the parameter is no longer (std::ostream& os): ' + params)
        top = nonempty(mc.parse_function_body(body, ())[1])
        want_head = [('decl', 'const std::string', [('file_scope', None)]),
                     ('decl', 'auto', [('prev_ns_iter', call0(('id', 'file_scope'), 'begin'))]),
                     ('decl', 'auto', [('prev_ns_last', call0(('id', 'file_scope'), 'begin'))])]
        if top[:3] != want_head:
            raise mc.Unsupported('write_forward_declarations no longer starts with an empty range [prev_ns_iter, prev_ns_last) of an empty string')
        if len(top) != 6 or top[5] != ('return', ('un', '*', ('this',))):
            raise mc.Unsupported('write_forward_declarations is no longer <three declarations; the loop over names; the closing loop; return *this>')
        loop, final = top[3], top[4]
        if not (loop[0] == 'rangefor' and isinstance(loop[1], str) and loop[2] == ('id', 'names')):
            raise mc.Unsupported('the main loop is no longer `for (auto& name : names)`')
        lb = body_of(loop[3])
        if not lb or lb[0] != ('decl', 'auto', [('name_iter', call0(('id', loop[1]), 'begin'))]):
            raise mc.Unsupported('the loop body no longer starts with `auto name_iter = name.begin();`')
        # locals that are written but never read carry no decision
        dead = set()
        for st in lb[1:]:
            if st[0] == 'decl' and len(st[2]) == 1 and st[2][0][0] not in ('name_iter',):
                acc = []
                reads(lb[1:], st[2][0][0], acc)
                # the declaration itself mentions no read of the name; its initialiser may read others
                if not acc:
                    dead.add(st[2][0][0])
        body_text = Lower(loop[1], dead).seq(lb[1:])
        final_text = Lower(None, set()).seq([final])
    except mc.Unsupported as e:
        die(str(e))
    out = ('(* GENERATED by translators/fwdwrite.py from %s - do not edit.\n'
           '   generator::write_forward_declarations, in the language of Model/MiniFwd.v. *)\n'
           'From Y2 Require Import Model.MiniFwd.\n\n'
           '(* the body of `for (auto& name : names)`, after `auto name_iter = name.begin();` *)\n'
           'Definition gen_fwd_body : fstmt :=\n  %s.\n\n'
           '(* the loop after it *)\n'
           'Definition gen_fwd_final : fstmt :=\n  %s.\n' % (SRC, body_text, final_text))
    vlib.write_if_changed(os.path.join(vlib.COQ, 'Gen', 'GenFwd.v'), out)


if __name__ == '__main__':
    main()
