#!/usr/bin/env python3
"""/repo source text -> coq/Gen/GenPolicies.v   (property C14, also read by C16)

What is read, from the CURRENT text of
    include/yorel/yomm2/policies/*.hpp   include/yorel/yomm2/policy.hpp   (+ two anchors in core.hpp / detail.hpp)
with a tokenizer and a small recursive-descent reader of class (template) definitions -- no libclang here:

  * every class / class template of namespace yorel::yomm2::policy, and detail::domain / detail::method_tables:
    name, template parameters (kind, name, default; which one is the policy / key), base classes (as type
    expressions over the parameters), STATIC DATA MEMBERS (in-class declarations, cross-checked against the
    out-of-class definitions; member templates such as `static_vptr<Class>` keep their extra parameter in the
    name) and FUNCTION-LOCAL STATICS of member functions (in-class bodies and out-of-class definitions): a `static`
    inside a member function of a facet is a static of that facet, named `fn()::name`.
    `static constexpr ...` members are compile-time constants, not objects with state: listed apart.
    A function-local static whose every use is `&name` (its address is its only use: `minimal_rtti::static_type<T>`)
    is an identity, it holds no state that could be changed: listed apart (`f_addr_only`).
  * the stock policies release / debug / debug_shared / release_shared: the facet list as written
    (`basic_policy<key, facets...>`), or the policy they derive from;
  * basic_policy: its base classes (abstract_policy, basic_domain<Policy>, Facets...), and the definitions of
    rebind_facet (primary + the one partial specialisation), rebind, replace, remove: compared token by token
    with the shapes the Coq model implements (Model/Policies.v).
  * method<Key, Signature, Policy>, class_declaration_aux<Policy, ...>, type_id_list<Policy, ...>: the registration
    objects that hang off the catalogs: anchored patterns showing that each is a template with a Policy parameter.

Exit status != 0, naming the pattern, when an anchor no longer matches.
Usage: policies.py [--out FILE] [--json FILE]
"""
import glob, hashlib, json, os, re, sys

sys.path.insert(0, os.path.join(os.path.dirname(os.path.abspath(__file__)), '..', 'tools'))
import vlib

REPO = os.environ.get('VERIF_REPO', '/repo')
INC = 'include/yorel/yomm2'


class Anchor(Exception):
    pass


def die(msg):
    raise Anchor(msg)


# --------------------------------------------------------------------------- text -> tokens

def strip_comments(s):
    s = re.sub(r'/\*.*?\*/', lambda m: re.sub(r'[^\n]', ' ', m.group(0)), s, flags=re.S)
    return re.sub(r'//[^\n]*', '', s)


# truth of the macros that conditionals of the policy headers test (the configuration the harnesses are built in)
MACROS = {'YOMM2_VERIF': True, 'NDEBUG': True, '_MSC_VER': False, 'yOMM2_DLL': False, 'BOOST_NO_RTTI': False,
          'BOOST_NO_EXCEPTIONS': False, 'YOMM2_SHARED': False, '__clang__': False, '__GNUC__': True}


def preprocess(text, path):
    """evaluate #if / #ifdef / #ifndef / #else / #elif / #endif with MACROS; drop every directive line"""
    out = []
    stack = []          # (taken_now, any_branch_taken, parent_active)
    active = True
    lines = text.split('\n')
    i = 0

    def known(name):
        if re.match(r'^YOREL_YOMM2_\w*HPP$', name):
            return False                      # include guard
        if name not in MACROS:
            die('preprocessor: conditional on unknown macro %s in %s (add it to MACROS in translators/policies.py)' % (name, path))
        return MACROS[name]

    def evaluate(expr):
        e = re.sub(r'defined\s*\(\s*(\w+)\s*\)|defined\s+(\w+)', lambda m: str(known(m.group(1) or m.group(2))), expr)
        e = e.replace('&&', ' and ').replace('||', ' or ').replace('!', ' not ')
        if not re.match(r'^[\s()A-Za-z01]*$', e) or re.search(r'[A-Za-z_]\w*', re.sub(r'\b(True|False|and|or|not)\b', '', e)):
            die('preprocessor: cannot evaluate `#if %s` in %s' % (expr.strip(), path))
        return bool(eval(e))

    while i < len(lines):
        line = lines[i]
        while line.rstrip().endswith('\\') and i + 1 < len(lines):
            i += 1
            line = line.rstrip()[:-1] + ' ' + lines[i]
        m = re.match(r'\s*#\s*(\w+)\s*(.*)$', line)
        if not m:
            out.append(line if active else '')
            i += 1
            continue
        d, rest = m.group(1), m.group(2).strip()
        if d in ('ifdef', 'ifndef', 'if'):
            if d == 'ifdef':
                v = known(rest.split()[0]) if active else False
            elif d == 'ifndef':
                v = (not known(rest.split()[0])) if active else False
            else:
                v = evaluate(rest) if active else False
            stack.append((v, v, active))
            active = active and v
        elif d == 'else':
            if not stack:
                die('preprocessor: #else without #if in %s' % path)
            _, anyt, par = stack.pop()
            v = not anyt
            stack.append((v, True, par))
            active = par and v
        elif d == 'elif':
            if not stack:
                die('preprocessor: #elif without #if in %s' % path)
            _, anyt, par = stack.pop()
            v = (not anyt) and (evaluate(rest) if par else False)
            stack.append((v, anyt or v, par))
            active = par and v
        elif d == 'endif':
            if not stack:
                die('preprocessor: #endif without #if in %s' % path)
            _, _, par = stack.pop()
            active = par
        # include / define / pragma / error: dropped
        out.append('')
        i += 1
    if stack:
        die('preprocessor: unterminated conditional in %s' % path)
    return '\n'.join(out)


TOKEN_RE = re.compile(r'''
    (?P<id>[A-Za-z_]\w*)
  | (?P<num>\d[\w.']*)
  | (?P<str>"(?:\\.|[^"\\])*")
  | (?P<chr>'(?:\\.|[^'\\])+')
  | (?P<op>::|\.\.\.|->|\+\+|--|&&|\|\||[<>=!]=|[-+*/%&|^]=|[{}()\[\];,<>:=*&~!?.+\-/%|^\#@])
  | (?P<ws>\s+)
''', re.X)


def tokenize(text, path):
    toks = []
    pos = 0
    while pos < len(text):
        m = TOKEN_RE.match(text, pos)
        if not m:
            die('tokenizer: unexpected character %r in %s' % (text[pos], path))
        if m.lastgroup != 'ws':
            toks.append(m.group(0))
        pos = m.end()
    return toks


OPEN = {'(': ')', '{': '}', '[': ']'}


def skip_balanced(t, i):
    """t[i] is an opening bracket ( { [ : index just after the matching closing one"""
    close = OPEN[t[i]]
    depth = 0
    o = t[i]
    while i < len(t):
        if t[i] == o:
            depth += 1
        elif t[i] == close:
            depth -= 1
            if depth == 0:
                return i + 1
        i += 1
    die('parser: unbalanced %s' % o)


def skip_angles(t, i):
    """t[i] == '<' in a declaration context: index just after the matching '>' (parentheses may nest inside)"""
    depth = 0
    while i < len(t):
        if t[i] == '<':
            depth += 1
        elif t[i] == '>':
            depth -= 1
            if depth == 0:
                return i + 1
        elif t[i] in OPEN:
            i = skip_balanced(t, i)
            continue
        elif t[i] in (';', '{', '}'):
            break
        i += 1
    die('parser: unbalanced < near `%s`' % ' '.join(t[max(0, i - 12):i + 3]))


def split_commas(t):
    """split a token list at top-level commas (depth of <>, (), {}, [])"""
    parts = [[]]
    depth = 0
    for x in t:
        if x in ('<', '(', '{', '['):
            depth += 1
        elif x in ('>', ')', '}', ']'):
            depth -= 1
        if x == ',' and depth == 0:
            parts.append([])
        else:
            parts[-1].append(x)
    return [p for p in parts if p]


def is_ident(x):
    return re.match(r'^[A-Za-z_]\w*$', x) is not None


KEYWORDS = {'static', 'inline', 'const', 'constexpr', 'volatile', 'mutable', 'thread_local', 'extern', 'typename', 'class',
            'struct', 'template', 'virtual', 'public', 'private', 'protected', 'unsigned', 'signed', 'friend', 'explicit',
            'operator', 'return', 'auto', 'decltype', 'noexcept', 'override', 'final', 'using', 'typedef', 'enum', 'union'}
ATTR_MACROS = {'yOMM2_API_gcc', 'yOMM2_API_msc', 'yOMM2_API', 'BOOST_NORETURN', 'BOOST_FORCEINLINE', '__forceinline'}


# --------------------------------------------------------------------------- type expressions

def parse_type(t):
    """token list -> ('app', name, [args]) | ('other', text).  name is the qualified name with the library's own
    namespaces stripped; a pack expansion `X...` is ('pack', inner)"""
    t = [x for x in t if x not in ('typename', 'virtual', 'public', 'private', 'protected', 'class', 'struct')]
    if not t:
        return ('other', '')
    pack = False
    if t[-1] == '...':
        pack = True
        t = t[:-1]
    i = 0
    if i < len(t) and t[i] == '::':
        i += 1
    comps = []
    args = None
    ok = True
    while i < len(t):
        if not is_ident(t[i]) or t[i] in KEYWORDS:
            ok = False
            break
        comps.append(t[i])
        i += 1
        if i < len(t) and t[i] == '<':
            j = skip_angles(t, i)
            a = split_commas(t[i + 1:j - 1])
            i = j
            if i < len(t) and t[i] == '::':
                ok = False          # member of a template instance (X<..>::type): not a class we can look up
                break
            args = [parse_type(x) for x in a]
            break
        if i < len(t) and t[i] == '::':
            i += 1
            continue
        break
    if not ok or i != len(t) or not comps:
        r = ('other', ' '.join(t))
    else:
        while len(comps) > 1 and comps[0] in ('yorel', 'yomm2', 'detail', 'policy', 'policies'):
            comps = comps[1:]
        r = ('app', '::'.join(comps), args)          # args None: plain name
    return ('pack', r) if pack else r


# --------------------------------------------------------------------------- declarations

class ClassDecl:
    def __init__(self, name, ns, file):
        self.name = name; self.ns = ns; self.file = file
        self.params = []        # {'kind': type|pack|template|nontype, 'name':, 'default': tokens or None}
        self.spec_args = None   # token lists, for (partial) specialisations
        self.bases = []         # token lists
        self.statics = []       # {'name':, 'inline': bool, 'tparams': [...], 'nested': prefix}
        self.constants = []
        self.local_statics = [] # {'name':, 'fn':, 'addr_only': bool}
        self.body = None        # tokens of the body
        self.defined = False
        self.ool_defs = []      # out-of-class static member definitions: (name, n template heads)


def parse_template_params(t):
    """tokens between the outer < > of a template head"""
    ps = []
    for p in split_commas(t):
        default = None
        depth = 0
        for k, x in enumerate(p):
            if x in ('<', '(', '[', '{'):
                depth += 1
            elif x in ('>', ')', ']', '}'):
                depth -= 1
            elif x == '=' and depth == 0:
                default = p[k + 1:]
                p = p[:k]
                break
        if p[0] == 'template':
            kind = 'template'
        elif p[0] in ('class', 'typename'):
            kind = 'pack' if '...' in p else 'type'
        else:
            kind = 'nontype'
        names = [x for x in p if is_ident(x) and x not in KEYWORDS]
        name = names[-1] if names and (kind != 'type' and kind != 'pack' or len(p) > 1) else ''
        if kind in ('type', 'pack') and len([x for x in p if x != '...']) == 1:
            name = ''            # unnamed parameter
        ps.append({'kind': kind, 'name': name, 'default': default})
    return ps


class Reader:
    def __init__(self):
        self.classes = {}        # name -> ClassDecl (primary templates and plain classes)
        self.specs = []          # partial / explicit specialisations
        self.forward = {}        # name -> namespace, for `struct X;`
        self.order = []

    # ---- namespace scope
    def read_file(self, path, rel):
        text = preprocess(strip_comments(open(path).read()), rel)
        self.t = tokenize(text, rel)
        self.file = rel
        self.scope(0, [])

    def scope(self, i, ns):
        t = self.t
        while i < len(t):
            x = t[i]
            if x == '}':
                return i + 1
            if x == ';':
                i += 1; continue
            if x == 'namespace':
                j = i + 1
                names = []
                while t[j] != '{':
                    if t[j] == '=':            # namespace alias
                        while t[j] != ';': j += 1
                        break
                    if is_ident(t[j]): names.append(t[j])
                    j += 1
                if t[j] == ';':
                    i = j + 1; continue
                i = self.scope(j + 1, ns + names)
                continue
            if x == 'extern' and t[i + 1] == 'template':
                while t[i] != ';': i += 1
                continue
            i = self.declaration(i, ns, None)
        return i

    def template_heads(self, i):
        t = self.t
        heads = []
        while t[i] == 'template' and t[i + 1] == '<':
            j = skip_angles(t, i + 1)
            heads.append(parse_template_params(t[i + 2:j - 1]))
            i = j
        return heads, i

    def declaration(self, i, ns, owner):
        """one declaration at namespace scope (owner None) or class scope (owner = ClassDecl, prefix)"""
        t = self.t
        heads, i = self.template_heads(i)
        if t[i] == 'template':                  # explicit instantiation `template class X<..>;`
            while t[i] != ';': i += 1
            return i + 1
        x = t[i]
        if x in ('struct', 'class', 'union') and self.looks_like_class(i):
            return self.class_decl(i, ns, heads, owner)
        if x in ('using', 'typedef', 'static_assert', 'friend', 'enum'):
            return self.skip_statement(i)
        return self.other_decl(i, ns, heads, owner)

    def looks_like_class(self, i):
        """`struct NAME [<..>] [final] (: | { | ;)` possibly with attribute macros before NAME"""
        t = self.t
        j = i + 1
        while is_ident(t[j]) and t[j + 1] != '::' and (t[j] in ATTR_MACROS or (is_ident(t[j + 1]) and t[j + 1] != 'final')):
            j += 1
        if t[j] == '__declspec':
            return True
        if not is_ident(t[j]):
            return t[j] == '{'
        j += 1
        if t[j] == '<':
            j = skip_angles(t, j)
        if t[j] == 'final':
            j += 1
        return t[j] in (':', '{', ';')

    def skip_statement(self, i):
        t = self.t
        while i < len(t):
            if t[i] in OPEN:
                i = skip_balanced(t, i)
                continue
            if t[i] == ';':
                return i + 1
            if t[i] == '}':
                return i
            i += 1
        return i

    def class_decl(self, i, ns, heads, owner):
        t = self.t
        j = i + 1
        while is_ident(t[j]) and (t[j] in ATTR_MACROS or (is_ident(t[j + 1]) and t[j + 1] != 'final')):
            j += 1
        if t[j] == '{':                         # anonymous struct
            j = skip_balanced(t, j)
            return self.skip_statement(j)
        name = t[j]; j += 1
        spec_args = None
        if t[j] == '<':
            k = skip_angles(t, j)
            spec_args = split_commas(t[j + 1:k - 1])
            j = k
        if t[j] == 'final':
            j += 1
        if t[j] == ';':                         # forward declaration
            if owner is None and spec_args is None:
                self.forward.setdefault(name, list(ns))
            return j + 1
        cd = ClassDecl(name, list(ns), self.file)
        cd.params = heads[-1] if heads else []
        cd.nheads = len(heads)
        cd.spec_args = spec_args
        if t[j] == ':':
            k = j + 1
            depth = 0
            start = k
            while not (t[k] == '{' and depth == 0):
                if t[k] == '<': depth += 1
                elif t[k] == '>': depth -= 1
                elif t[k] == '(': k = skip_balanced(t, k); continue
                k += 1
            cd.bases = split_commas(t[start:k])
            j = k
        if t[j] != '{':
            die('parser: class %s in %s: expected `{`, found `%s`' % (name, self.file, t[j]))
        end = skip_balanced(t, j)
        cd.body = (j + 1, end - 1)
        cd.defined = True
        if owner is None:
            if spec_args is not None:
                self.specs.append(cd)
            else:
                if name in self.classes and self.classes[name].ns == cd.ns:
                    die('parser: class %s defined twice (%s and %s)' % (name, self.classes[name].file, self.file))
                self.classes[name] = cd
                self.order.append(name)
            self.members(cd, cd, '', j + 1, end - 1)
        else:
            top, prefix = owner
            self.members(top, cd, prefix + name + '::', j + 1, end - 1)
            if cd.bases:
                top.nested_bases = getattr(top, 'nested_bases', []) + [(prefix + name, cd.bases)]
        # declarators after the closing brace
        return self.skip_statement(end)

    # ---- class scope
    def members(self, top, cd, prefix, i, end):
        t = self.t
        while i < end:
            x = t[i]
            if x == ';':
                i += 1; continue
            if x in ('public', 'private', 'protected') and t[i + 1] == ':':
                i += 2; continue
            i = self.declaration(i, cd.ns, (top, prefix))
        return i

    def other_decl(self, i, ns, heads, owner):
        """a function or variable declaration; records static data members, out-of-class definitions and local statics"""
        t = self.t
        start = i
        depth = 0
        kind = None
        k = i
        while k < len(t):
            x = t[k]
            if x == '<' and k > start and (is_ident(t[k - 1]) and t[k - 1] not in ('operator',)):
                k = skip_angles(t, k); continue
            if x == 'operator':
                # operator() / operator<< ... : skip the operator token(s) up to the parameter list
                k += 1
                if t[k] == '(' and t[k + 1] == ')': k += 2
                else:
                    while t[k] != '(': k += 1
                continue
            if x == '(':
                kind = 'paren'; break
            if x == '=':
                kind = 'init'; break
            if x == '{':
                kind = 'brace'; break
            if x == '[':
                kind = 'array'; break
            if x == ';':
                kind = 'plain'; break
            if x == '}':
                return k
            k += 1
        head = t[start:k]
        # where the declaration ends, and the function body if any
        body = None
        if kind == 'paren':
            j = skip_balanced(t, k)
            # trailing qualifiers, noexcept(...), -> type, ctor initialisers, = default / delete / 0
            while j < len(t) and t[j] not in (';', '{'):
                if t[j] == '(':
                    j = skip_balanced(t, j); continue
                if t[j] == ':' :                # constructor initialiser list: up to the body
                    while t[j] != '{' or (is_ident(t[j - 1]) or t[j - 1] == '>'):
                        if t[j] == '{' : j = skip_balanced(t, j); continue
                        if t[j] == '(' : j = skip_balanced(t, j); continue
                        j += 1
                    break
                j += 1
            if j < len(t) and t[j] == '{':
                e = skip_balanced(t, j)
                body = (j + 1, e - 1)
                endi = e
                is_function = True
            else:
                endi = j + 1
                # `T X<P>::name(init);` at namespace scope with an owner qualification is a variable definition when
                # the parentheses do not look like a parameter list we could tell apart: decided below by ownership
                is_function = True
        else:
            is_function = False
            endi = self.skip_statement(k)
        specs = set(x for x in head if x in KEYWORDS)
        if owner is not None:
            top, prefix = owner
            if is_function:
                fname = self.declarator_name(head)
                if body:
                    self.local_statics(top, prefix + fname + '()', body)
                return endi
            if 'static' in specs:
                name = self.declarator_name(head)
                tparams = heads[-1] if heads else []
                full = prefix + name + ('<%s>' % ', '.join(p['name'] for p in tparams) if tparams else '')
                if 'constexpr' in specs or ('const' in specs and kind == 'init' and 'inline' not in specs and self.integral(head)):
                    top.constants.append(full)
                else:
                    top.statics.append({'name': full, 'inline': 'inline' in specs, 'plain': name, 'nested': prefix})
            return endi
        # namespace scope: out-of-class member definitions `... OWNER<args>::name ...`
        q = self.qualified_owner(head)
        if q:
            oname, mname = q
            cd = self.classes.get(oname)
            if cd is not None:
                if is_function and body is None and t[endi - 1] == ';' and kind == 'paren' and not self.has_return_paren_shape(head):
                    is_function = False          # `bool X<P>::flag(expr);` : a variable with a parenthesised initialiser
                if is_function:
                    if body:
                        self.local_statics(cd, mname + '()', body)
                else:
                    cd.ool_defs.append((mname, len(heads)))
        elif is_function and body:
            pass                                  # free functions are not facets
        return endi

    def has_return_paren_shape(self, head):
        return False

    def integral(self, head):
        return any(x in ('bool', 'int', 'char', 'size_t', 'unsigned', 'long', 'short', 'auto') for x in head)

    def declarator_name(self, head):
        ids = [x for x in head if is_ident(x)]
        # drop template argument lists at the end (`name<...>` cannot be a declarator here)
        h = list(head)
        while h and not is_ident(h[-1]):
            h.pop()
        if 'operator' in head:
            return 'operator'
        return h[-1] if h else (ids[-1] if ids else '?')

    def qualified_owner(self, head):
        """find `OWNER <...> :: name` (last such) in the declaration head"""
        res = None
        i = 0
        while i < len(head):
            if is_ident(head[i]) and head[i] in self.classes and i + 1 < len(head):
                j = i + 1
                if head[j] == '<':
                    j = skip_angles(head + [';'], j)
                if j + 1 < len(head) + 1 and j < len(head) and head[j] == '::' and j + 1 < len(head) and is_ident(head[j + 1]):
                    # the member is the last identifier of the head when the qualification is the declarator
                    if j + 2 == len(head) or head[j + 2] in ('<',):
                        res = (head[i], head[j + 1])
            i += 1
        return res

    def local_statics(self, cd, fn, body):
        t = self.t
        b, e = body
        i = b
        while i < e:
            if t[i] == 'static' and not (i > b and t[i - 1] in ('::', '.', '->')):
                j = i
                while t[j] not in (';', '=', '{', '[', '('):
                    j += 1
                decl = t[i:j]
                name = [x for x in decl if is_ident(x)][-1]
                endj = self.skip_statement(j)
                if 'constexpr' in decl:
                    cd.constants.append(fn + '::' + name)
                else:
                    uses = [k for k in range(endj, e) if t[k] == name]
                    addr_only = bool(uses) and all(t[k - 1] == '&' and t[k - 2] in ('(', ',', 'return', '=', '>') and t[k + 1] in (')', ',', ';')
                                                   for k in uses) and t[j] == ';'
                    cd.local_statics.append({'name': fn + '::' + name, 'addr_only': addr_only})
                i = endj
                continue
            i += 1


# --------------------------------------------------------------------------- extraction

def norm(tokens):
    return ' '.join(tokens)


def body_text(rd_tokens, cd):
    b, e = cd.body
    return norm(rd_tokens[b:e])


SHAPES = {
    # basic_policy members, token-normalised
    'facets_alias': 'using facets = detail :: types < Facets ... > ;',
    'rebind': 'template < class NewPolicy > using rebind = basic_policy < NewPolicy , typename rebind_facet < NewPolicy , Facets > :: type ... > ;',
    'replace': 'template < class Base , class Facet > using replace = boost :: mp11 :: mp_apply < basic_policy , boost :: mp11 :: mp_push_front < '
               'boost :: mp11 :: mp_replace_if_q < facets , boost :: mp11 :: mp_bind_front_q < boost :: mp11 :: mp_quote_trait < std :: is_base_of > , Base > , Facet > , Policy > > ;',
    'remove': 'template < class Base > using remove = boost :: mp11 :: mp_apply < basic_policy , boost :: mp11 :: mp_push_front < '
              'boost :: mp11 :: mp_remove_if_q < facets , boost :: mp11 :: mp_bind_front_q < boost :: mp11 :: mp_quote_trait < std :: is_base_of > , Base > > , Policy > > ;',
}


def extract(repo=None):
    repo = repo or REPO
    inc = os.path.join(repo, INC)
    files = [os.path.join(inc, 'policies', 'core.hpp')]
    files += [f for f in sorted(glob.glob(os.path.join(inc, 'policies', '*.hpp'))) if f not in files]
    files.append(os.path.join(inc, 'policy.hpp'))
    for f in files:
        if not os.path.exists(f):
            die('source file %s is missing' % os.path.relpath(f, repo))
    h = hashlib.sha1()
    readers = []
    rd = Reader()
    toks = {}
    for f in files:
        rel = os.path.relpath(f, repo)
        h.update(rel.encode()); h.update(open(f, 'rb').read())
        rd.read_file(f, rel)
        toks[rel] = rd.t
    # anchors in core.hpp / detail.hpp for the registration objects
    core = strip_comments(open(os.path.join(inc, 'core.hpp')).read())
    detail = strip_comments(open(os.path.join(inc, 'detail.hpp')).read())
    h.update(core.encode()); h.update(detail.encode())

    def anchor(name, pattern, text, where):
        n = len(re.findall(pattern, text, re.S))
        if n != 1:
            die('pattern %s matches %d time(s), expected 1, in %s; regex: %s' % (name, n, where, pattern))
    anchor('method_primary', r'template<typename Key, typename Signature, class Policy = YOMM2_DEFAULT_POLICY>\s*struct method;', core, 'core.hpp')
    anchor('method_specialisation', r'template<typename Key, typename R, class Policy, typename\.\.\. A>\s*struct method<Key, R\(A\.\.\.\), Policy> : detail::method_info \{', core, 'core.hpp')
    anchor('method_fn', r'\n    static method fn;', core, 'core.hpp')
    anchor('method_slots_strides', r'\n    static std::size_t slots_strides\[2 \* arity - 1\];', core, 'core.hpp')
    anchor('method_registers_in_policy', r'Policy::methods\.push_back\(\*this\);', core, 'core.hpp')
    anchor('method_unregisters_from_policy', r'Policy::methods\.remove\(\*this\);', core, 'core.hpp')
    # the registration record of a definition is a function-local static of method<Key, Signature, Policy>::add_function<F>'s
    # constructor: one per (method, function), hence per policy
    # the bodies of add_function's, method's and class_declaration_aux's constructors / destructors are translated
    # (translators/registration.py -> Gen/GenReg.v), not anchored here
    anchor('class_declaration_aux', r'template<class Policy, class Class, typename\.\.\. Bases>\s*struct class_declaration_aux<Policy, detail::types<Class, Bases\.\.\.>>\s*: class_info \{', detail, 'detail.hpp')
    anchor('type_id_list', r'template<class Policy, typename\.\.\. T>\s*struct type_id_list<Policy, types<T\.\.\.>> \{', detail, 'detail.hpp')

    classes = rd.classes
    # ---- which classes are reported: namespace policy, + detail::domain, detail::method_tables
    def wanted(cd):
        return (cd.ns[-1:] == ['policy']) or (cd.ns[-1:] == ['detail'] and cd.name in ('domain', 'method_tables'))
    for need in ('basic_domain', 'basic_policy', 'rebind_facet', 'method_tables', 'domain', 'abstract_policy'):
        if need not in classes:
            die('pattern class_%s: definition of %s not found' % (need, need))

    policy_names = set()          # names that denote policies (keys)
    for n, ns in rd.forward.items():
        if ns[-1:] == ['policy'] and n not in classes:
            policy_names.add(n)

    def base_types(cd):
        return [parse_type(b) for b in cd.bases]

    # stock policies = plain classes of namespace policy deriving from a basic_policy<...> instance or from another policy
    stock = []
    changed = True
    stock_names = {}
    pending = [classes[n] for n in rd.order if classes[n].ns[-1:] == ['policy'] and not classes[n].params]
    while changed:
        changed = False
        for cd in pending:
            if cd.name in stock_names:
                continue
            bts = base_types(cd)
            if len(bts) == 1 and bts[0][0] == 'app' and bts[0][1] == 'basic_policy' and bts[0][2]:
                stock_names[cd.name] = ('basic', bts[0][2]); changed = True
            elif len(bts) == 1 and bts[0][0] == 'app' and bts[0][1] in stock_names and bts[0][2] is None:
                stock_names[cd.name] = ('derived', bts[0][1]); changed = True
    policy_names |= set(stock_names)
    for need in ('release', 'debug', 'debug_shared', 'release_shared'):
        if need not in stock_names:
            die('pattern stock_policy_%s: `struct %s : basic_policy<%s, ...>` (or derived from a stock policy) not found in policy.hpp' % (need, need, need))

    def to_ast(ty, params):
        """parsed type -> JSON AST over parameters: ['param', i] | ['policy', k] | ['app', name, args] | ['other', text]"""
        if ty[0] == 'pack':
            inner = to_ast(ty[1], params)
            return inner if inner[0] == 'param' else ['other', render_type(ty[1]) + '...']
        if ty[0] == 'other':
            return ['other', ty[1]]
        _, name, args = ty
        if args is None:
            for i, p in enumerate(params):
                if p['name'] == name:
                    return ['param', i]
            if name in policy_names:
                return ['policy', name]
            if name in classes:
                return ['app', name, []]
            return ['other', name]
        return ['app', name, [to_ast(a, params) for a in args]]

    def render_type(ty):
        if ty[0] == 'pack': return render_type(ty[1]) + '...'
        if ty[0] == 'other': return ty[1]
        return ty[1] + ('<' + ', '.join(render_type(a) for a in ty[2]) + '>' if ty[2] is not None else '')

    facets = []
    for n in rd.order:
        cd = classes[n]
        if not wanted(cd) or n in stock_names or n in ('basic_policy', 'rebind_facet'):
            continue
        # cross-check in-class static declarations against out-of-class definitions
        for s in cd.statics:
            if not s['inline']:
                k = [d for d in cd.ool_defs if d[0] == s['plain']]
                if len(k) != 1:
                    die('pattern static_definition: static data member %s::%s declared in %s has %d out-of-class definition(s), expected 1'
                        % (cd.name, s['name'], cd.file, len(k)))
        for d in cd.ool_defs:
            if not any(s['plain'] == d[0] for s in cd.statics):
                die('pattern static_definition: out-of-class definition %s::%s has no in-class static declaration' % (cd.name, d[0]))
        pol = None
        for i, p in enumerate(cd.params):
            if p['name'] in ('Policy', 'Key') and p['kind'] == 'type':
                pol = i; break
        bases = [to_ast(parse_type(b), cd.params) for b in cd.bases]
        for nb_name, nb in getattr(cd, 'nested_bases', []):
            bases += [to_ast(parse_type(b), cd.params) for b in nb]
        for b in bases:
            check_known_base(b, cd, classes)
        facets.append({
            'name': n, 'file': cd.file, 'namespace': '::'.join(cd.ns),
            'params': [{'kind': p['kind'], 'name': p['name'],
                        'default': to_ast(parse_type(p['default']), cd.params) if p['default'] is not None else None} for p in cd.params],
            'policy_param': pol,
            'statics': [s['name'] for s in cd.statics] + [s['name'] for s in cd.local_statics if not s['addr_only']],
            'addr_only': [s['name'] for s in cd.local_statics if s['addr_only']],
            'constants': list(cd.constants),
            'bases': bases,
        })

    # ---- basic_policy: bases and the three operations
    bp = classes['basic_policy']
    if [(p['kind'], p['name']) for p in bp.params] != [('type', 'Policy'), ('pack', 'Facets')]:
        die('pattern basic_policy_parameters: expected `template<class Policy, class... Facets> struct basic_policy`')
    bp_bases = [to_ast(parse_type(b), bp.params) for b in bp.bases]
    want_bases = [['app', 'abstract_policy', []], ['app', 'basic_domain', [['param', 0]]], ['param', 1]]
    if not all(norm(b).startswith('virtual') for b in bp.bases):
        die('pattern basic_policy_bases: every base of basic_policy is expected to be virtual')
    for b in bp_bases:
        check_known_base(b, bp, classes)
    if bp.statics or bp.local_statics:
        die('pattern basic_policy_statics: basic_policy has static data of its own (%s): the model has no place for it'
            % ', '.join(s['name'] for s in bp.statics + bp.local_statics))
    bt = body_text(toks[bp.file], bp)
    for k, shape in SHAPES.items():
        if bt.count(shape) != 1:
            die('pattern basic_policy_%s: the definition is no longer `%s`' % (k, shape.replace(' ', '')))
    # rebind_facet: primary + one partial specialisation
    rf = classes['rebind_facet']
    if [(p['kind'], p['name']) for p in rf.params] != [('type', 'Policy'), ('type', 'Facet')] or body_text(toks[rf.file], rf) != 'using type = Facet ;':
        die('pattern rebind_facet_primary: expected `template<typename Policy, class Facet> struct rebind_facet { using type = Facet; }`')
    sp = [s for s in rd.specs if s.name == 'rebind_facet']
    if len(sp) != 1:
        die('pattern rebind_facet_specialisation: %d partial specialisations of rebind_facet, expected 1' % len(sp))
    sp = sp[0]
    if ([(p['kind'], p['name']) for p in sp.params] != [('type', 'NewPolicy'), ('type', 'OldPolicy'), ('template', 'GenericFacet'), ('pack', 'Args')]
            or [norm(a) for a in sp.spec_args] != ['NewPolicy', 'GenericFacet < OldPolicy , Args ... >']
            or body_text(toks[sp.file], sp) != 'using type = GenericFacet < NewPolicy , Args ... > ;'):
        die('pattern rebind_facet_specialisation: expected `rebind_facet<NewPolicy, GenericFacet<OldPolicy, Args...>> { using type = GenericFacet<NewPolicy, Args...>; }`')
    tt = [x for x in toks[sp.file]]
    if 'template < typename ... > class GenericFacet' not in norm(tt):
        die('pattern rebind_facet_generic: GenericFacet is no longer `template<typename...> class` (matches templates whose parameters are all types)')

    # ---- stock policies
    stocks = []
    for n in rd.order:
        if n not in stock_names:
            continue
        cd = classes[n]
        kind, v = stock_names[n]
        own = [s['name'] for s in cd.statics] + [s['name'] for s in cd.local_statics if not s['addr_only']]
        if kind == 'basic':
            args = [to_ast(a, []) for a in v]
            key = args[0]
            if key[0] != 'policy':
                die('pattern stock_policy_%s: first argument of basic_policy is not a policy name' % n)
            stocks.append({'name': n, 'key': key[1], 'facets': args[1:], 'derived_from': None, 'own_statics': own, 'file': cd.file})
        else:
            stocks.append({'name': n, 'key': None, 'facets': None, 'derived_from': v, 'own_statics': own, 'file': cd.file})
    byname = {s['name']: s for s in stocks}
    for s in stocks:
        r = s
        while r['derived_from']:
            r = byname[r['derived_from']]
        s['key'] = r['key']; s['facets'] = r['facets']

    return {'source_key': h.hexdigest()[:16], 'files': [os.path.relpath(f, repo) for f in files], 'facets': facets,
            'basic_policy_bases': bp_bases, 'basic_policy_bases_as_modelled': bp_bases == want_bases,
            'stock': stocks,
            'registration_objects': [
                {'name': 'method', 'params': ['Key', 'Signature', 'Policy'], 'policy_param': 2, 'statics': ['slots_strides', 'fn']},
                {'name': 'class_declaration_aux', 'params': ['Policy', 'types<Class, Bases...>'], 'policy_param': 0, 'statics': []},
                {'name': 'type_id_list', 'params': ['Policy', 'types<T...>'], 'policy_param': 0, 'statics': ['value', 'begin', 'end']}],
            'shapes': sorted(SHAPES) + ['rebind_facet_primary', 'rebind_facet_specialisation', 'rebind_facet_generic']}


def check_known_base(b, cd, classes):
    """a base class we cannot look up could carry statics we would not see"""
    if b[0] == 'app' and b[1] not in classes:
        if not b[1].startswith(('std::', 'boost::')):
            die('pattern known_base: base class %s of %s is not defined in the policy headers: its static members cannot be enumerated' % (b[1], cd.name))
    if b[0] == 'other' and b[1] and not b[1].startswith(('std ::', 'boost ::')):
        die('pattern known_base: base class `%s` of %s is not a class defined in the policy headers: its static members cannot be enumerated' % (b[1], cd.name))


# --------------------------------------------------------------------------- Coq

def q(s):
    return '"' + s.replace('"', "'") + '"'


def coq_list(xs, sep='; '):
    return '[' + sep.join(xs) + ']'


def coq_pty(a):
    if a[0] == 'param': return '(PParam %d)' % a[1]
    if a[0] == 'policy': return '(PPolicy %s)' % q(a[1])
    if a[0] == 'other': return '(POther %s)' % q(a[1])
    return '(PApp %s %s)' % (q(a[1]), coq_list([coq_pty(x) for x in a[2]]))


def coq_ty(a):
    if a[0] == 'policy': return '(TPolicy %s)' % q(a[1])
    if a[0] == 'other': return '(TOther %s)' % q(a[1])
    if a[0] == 'param': return '(TOther "?param")'
    return '(TApp %s %s)' % (q(a[1]), coq_list([coq_ty(x) for x in a[2]]))


KIND = {'type': 'KType', 'pack': 'KTypePack', 'template': 'KTemplate', 'nontype': 'KNonType'}


def render(d):
    o = []
    o.append('(* GENERATED by translators/policies.py from\n     ' + '\n     '.join(d['files']) +
             '\n   (+ anchors in core.hpp, detail.hpp) on every run of a check. Never edit, never commit. *)')
    o.append('From Coq Require Import String List.\nImport ListNotations.\nOpen Scope string_scope.\n')
    o.append('''(* ground types: the arguments of facet instances in a policy's facet list *)
Inductive ty : Type := TPolicy (key : string) | TApp (template : string) (args : list ty) | TOther (s : string).
(* type expressions over the template parameters of a declaration: base classes, default arguments *)
Inductive pty : Type := PParam (i : nat) | PPolicy (key : string) | PApp (template : string) (args : list pty) | POther (s : string).
Inductive pkind : Type := KType | KTypePack | KTemplate | KNonType.

Record facet_decl : Type := mk_facet_decl {
  f_name : string;
  f_nparams : nat;
  f_policy_param : option nat;      (* the parameter named Policy / Key *)
  f_statics : list string;          (* static data members + function-local statics holding state *)
  f_kinds : list pkind;
  f_defaults : list (option pty);
  f_bases : list pty;
  f_addr_only : list string;        (* function-local statics used only through their address *)
  f_file : string }.

Record policy_decl : Type := mk_policy_decl {
  pd_name : string;
  pd_key : string;                  (* first argument of basic_policy *)
  pd_facets : list ty;              (* as written *)
  pd_own_statics : list string;
  pd_derived_from : option string }.
''')
    o.append('Definition source_key : string := %s.\n' % q(d['source_key']))
    fl = []
    for f in d['facets']:
        o.append('(* %s  [%s]%s *)' % (f['name'] + ('<' + ', '.join(p['name'] or '_' for p in f['params']) + '>' if f['params'] else ''),
                                     f['file'], ('  constants: ' + ', '.join(f['constants'])) if f['constants'] else ''))
        nm = 'decl_' + re.sub(r'\W', '_', f['name'])
        fl.append(nm)
        o.append('Definition %s : facet_decl := mk_facet_decl %s %d %s\n  %s\n  %s\n  %s\n  %s\n  %s %s.\n' % (
            nm, q(f['name']), len(f['params']), ('(Some %d)' % f['policy_param']) if f['policy_param'] is not None else 'None',
            coq_list([q(s) for s in f['statics']]),
            coq_list([KIND[p['kind']] for p in f['params']]),
            coq_list([('(Some %s)' % coq_pty(p['default'])) if p['default'] is not None else 'None' for p in f['params']]),
            coq_list([coq_pty(b) for b in f['bases']]),
            coq_list([q(s) for s in f['addr_only']]), q(f['file'])))
    o.append('Definition facet_decls : list facet_decl :=\n  %s.\n' % coq_list(fl, ';\n   '))
    o.append('(* `struct basic_policy : virtual abstract_policy, virtual basic_domain<Policy>, virtual Facets...` ; PParam 1 is the pack *)')
    o.append('Definition basic_policy_bases : list pty := %s.\n' % coq_list([coq_pty(b) for b in d['basic_policy_bases']]))
    pl = []
    for s in d['stock']:
        nm = 'stock_' + s['name']
        pl.append(nm)
        o.append('Definition %s : policy_decl := mk_policy_decl %s %s\n  %s\n  %s %s.\n' % (
            nm, q(s['name']), q(s['key']), coq_list([coq_ty(a) for a in s['facets']], ';\n   '),
            coq_list([q(x) for x in s['own_statics']]), ('(Some %s)' % q(s['derived_from'])) if s['derived_from'] else 'None'))
    o.append('Definition stock_policy_decls : list policy_decl := %s.\n' % coq_list(pl))
    o.append('(* registration objects hanging off the catalogs (anchored patterns in core.hpp / detail.hpp): (name, position of Policy, statics) *)')
    o.append('Definition registration_objects : list (string * option nat * list string) :=\n  %s.\n' % coq_list(
        ['(%s, %s, %s)' % (q(r['name']), 'Some %d' % r['policy_param'], coq_list([q(x) for x in r['statics']])) for r in d['registration_objects']], ';\n   '))
    o.append('(* the definitions of rebind_facet / rebind / replace / remove were compared token by token with the shapes\n'
             '   Model/Policies.v implements; the translator exits non-zero, naming the shape, when one differs: %s *)' % ', '.join(d['shapes']))
    o.append('Definition policy_algebra_shapes_checked : list string := %s.' % coq_list([q(x) for x in d['shapes']]))
    return '\n'.join(o) + '\n'


def main():
    out = os.path.join(vlib.COQ, 'Gen', 'GenPolicies.v')
    js = None
    a = sys.argv[1:]
    while a:
        if a[0] == '--out': out = a[1]; a = a[2:]
        elif a[0] == '--json': js = a[1]; a = a[2:]
        else: a = a[1:]
    try:
        d = extract()
    except Anchor as e:
        sys.stderr.write('policies.py: ' + str(e) + '\n')
        sys.exit(3)
    vlib.write_if_changed(out, render(d))
    if js:
        with open(js, 'w') as f:
            json.dump(d, f, indent=1)


if __name__ == '__main__':
    main()
