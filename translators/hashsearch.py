#!/usr/bin/env python3
"""/repo/include/yorel/yomm2/policies/fast_perfect_hash.hpp  ->  coq/Gen/GenHashSearch.v      (properties C05, C15)

Source-to-Gallina translation of the perfect-hash search and lookup:
    fast_perfect_hash<Policy>::hash_initialize(first, last, buckets)   the search itself
    fast_perfect_hash<Policy>::hash_type_id(type)                      the hash function
    checked_perfect_hash<Policy>::hash_type_id(type)                   the range / identity test of the checked variant
    the two-argument hash_initialize wrappers of both classes
The text is preprocessed for the YOMM2_VERIF hook both ways (hook off is what users compile; hook on must differ from it
only by the budget expression and the observer call), parsed (translators/_minicpp.py), the loop skeleton of
hash_initialize is matched on the AST and its straight-line pieces are lowered, statement by statement, into the
language of coq/Model/MiniHash.v.  Tracing code (`if constexpr (trace_enabled) ...`) is dropped.  Anything else is refused
(exit 3, naming the construct).  Proofs/HashSource.v proves the interpreted translation equal to Model.Hash.
"""
import os, re, struct, sys

sys.path.insert(0, os.path.dirname(os.path.abspath(__file__)))
sys.path.insert(0, os.path.join(os.path.dirname(os.path.abspath(__file__)), '..', 'tools'))
import vlib
import _minicpp as mc

REPO = os.environ.get('VERIF_REPO', '/repo')
SRC = os.path.join(REPO, 'include/yorel/yomm2/policies/fast_perfect_hash.hpp')

VARS = {'M': 'VM', 'pass': 'VPass', 'total_attempts': 'VTotal', 'attempts': 'VAttempts', 'found': 'VFound', 'hash_size': 'VSize',
        'hash_mult': 'VMult', 'hash_shift': 'VShift', 'hash_length': 'VLength', 'hash_min': 'VMin', 'hash_max': 'VMax',
        'size': 'VHalv', 'N': 'VN'}
INLINED = ('type', 'index')               # single-assignment `auto` locals of the id loop / of the checked lookup: inlined
TYPEID_VARS = {'type', 'hash_mult'}       # of type type_id (uintptr_t): products wrap


def die(msg):
    sys.stderr.write('hashsearch.py: ' + msg + '\n')
    print('hashsearch.py: ' + msg)
    sys.exit(3)


def preprocess(text, hook):
    """resolve #ifdef YOMM2_VERIF / #else / #endif; other directives are left to the callers (none inside the functions)"""
    out = []
    state = []     # stack of (is_verif_block, in_else)
    for line in text.split('\n'):
        s = line.strip()
        if re.match(r'#\s*ifdef\s+YOMM2_VERIF\b', s):
            state.append(['verif', False]); out.append(''); continue
        if re.match(r'#\s*if(n?def)?\b', s):
            state.append(['other', False]); out.append(line); continue
        if re.match(r'#\s*else\b', s) and state:
            state[-1][1] = True
            out.append('' if state[-1][0] == 'verif' else line); continue
        if re.match(r'#\s*endif\b', s) and state:
            k = state.pop()
            out.append('' if k[0] == 'verif' else line); continue
        keep = True
        for kind, in_else in state:
            if kind == 'verif' and (in_else == hook):
                keep = False
        out.append(line if keep else '')
    return '\n'.join(out)


class Lower:
    def __init__(self, where):
        self.where = where
        self.inline = {}          # name -> (lowered expression, set of variables it reads)
        self.assigned = set()     # variables assigned by the statements lowered so far
        self.ref_alias = {}       # name -> AST of the lvalue it is a reference to (auto& x = buckets[i];)
        self.hash_ast = None      # AST of the expression fast_perfect_hash::hash_type_id(type) returns, for inlining calls

    def bad(self, what, node):
        raise mc.Unsupported('%s: %s: %s' % (self.where, what, mc.show(node)))

    def is_typeid(self, e):
        return e[0] == 'id' and e[1] in TYPEID_VARS

    def e(self, x):
        k = x[0]
        if k == 'num':
            return '(EConst %d)' % x[1]
        if k == 'bool':
            return '(EConst %d)' % (1 if x[1] else 0)
        if k == 'id':
            if x[1] in self.ref_alias:
                return self.e(self.ref_alias[x[1]])
            if x[1] in self.inline:
                return self.inline[x[1]][0]
            if x[1] in VARS:
                return '(EVar %s)' % VARS[x[1]]
            if x[1] == 'verif::hash_budget':
                return 'EBudget'
            self.bad('unknown variable', x)
        if k == 'sizeof' and re.sub(r'\s+', '', x[1]) == 'type_id':
            return 'ESizeofTypeId'
        if k == 'cast' and x[1] == 'static_cast' and re.sub(r'\s+', '', x[2]) == 'type_id' and x[3] == ('un', '-', ('num', 1)):
            return 'ESentinel'
        if k == 'un' and x[1] == '*' and x[2] == ('id', 'type_iter'):
            return 'ECurId'
        if k == 'index' and x[1] == ('id', 'buckets'):
            return '(EBucket %s)' % self.e(x[2])
        if k == 'index' and x[1] == ('id', 'control'):
            return '(EBucket %s)' % self.e(x[2])
        if k == 'call' and x[1] == ('id', 'uniform_dist') and x[2] == [('id', 'rnd')]:
            return 'EDrawn'
        if k == 'call' and x[1] == ('id', 'hash_type_id') and len(x[2]) == 1 and self.hash_ast is not None:
            # a call of the class's own hash_type_id(type): its (translated) body with the argument for `type`
            sub = Lower(self.where + ' / hash_type_id')
            sub.inline = dict(self.inline)
            sub.ref_alias = dict(self.ref_alias)
            sub.inline['type'] = (self.e(x[2][0]), set(re.findall(r'EVar (V\w+)', self.e(x[2][0]))))
            return sub.e(self.hash_ast)
        if k == 'call' and x[1] in (('id', 'std::min'), ('id', 'std::max')) and len(x[2]) == 2:
            return '(%s %s %s)' % ('EMin' if x[1][1] == 'std::min' else 'EMax', self.e(x[2][0]), self.e(x[2][1]))
        if k == 'bin':
            op = x[1]
            if op == '*':
                if self.is_typeid(x[2]) or self.is_typeid(x[3]):
                    return '(EMulW %s %s)' % (self.e(x[2]), self.e(x[3]))
                return '(EMul %s %s)' % (self.e(x[2]), self.e(x[3]))
            names = {'+': 'EAdd', '-': 'ESub', '/': 'EDiv', '>>': 'EShr', '<<': 'EShl', '|': 'EOr'}
            if op in names:
                return '(%s %s %s)' % (names[op], self.e(x[2]), self.e(x[3]))
        self.bad('expression not in the subset', x)

    def c(self, x):
        k = x[0]
        if k == 'un' and x[1] == '!':
            return '(CNot %s)' % self.c(x[2])
        if k == 'bin' and x[1] in ('&&', '||'):
            return '(%s %s %s)' % ('CAnd' if x[1] == '&&' else 'COr', self.c(x[2]), self.c(x[3]))
        if k == 'bin' and x[1] in ('<', '!=', '==', '>='):
            n = {'<': 'CLt', '!=': 'CNe', '==': 'CEq', '>=': 'CGe'}[x[1]]
            return '(%s %s %s)' % (n, self.e(x[2]), self.e(x[3]))
        if k == 'id' and x[1] in VARS:
            return '(CTruth %s)' % self.e(x)
        self.bad('condition not in the subset', x)

    def simple(self, st):
        """one straight-line statement -> list of hstmt texts ([] for a dropped tracing statement / plain declaration)"""
        k = st[0]
        if k == 'using':
            return []
        if k == 'if' and st[1] and st[2] == ('id', 'trace_enabled'):
            return []          # tracing
        if k == 'block':
            out = []
            for s in st[1]:
                out += self.simple(s)
            return out
        if k == 'decl':
            out = []
            for name, init in st[2]:
                if name == 'trace_enabled':
                    continue
                if name == 'uniform_dist' and init is None:
                    continue
                if name == 'rnd':
                    continue
                tyn = re.sub(r'\s+', ' ', st[1]).strip()
                if tyn in ('auto &', 'const auto &') and init is not None and init[0] == 'index' and init[1] == ('id', 'buckets') \
                        and name not in VARS and name not in self.ref_alias:
                    # auto& x = buckets[i];  x stands for that element; sound while nothing the index reads is assigned (checked)
                    low = self.e(init[2])
                    self.ref_alias[name] = init
                    self.inline['&' + name] = (low, set(re.findall(r'EVar (V\w+)', low)))
                    continue
                plain = tyn in ('auto', 'const auto', 'constexpr auto', 'const type_id', 'type_id', 'constexpr type_id',
                                'const std::size_t', 'constexpr std::size_t')
                if plain and init is not None and name not in self.inline and (name in INLINED or (name not in VARS and tyn != 'auto' and tyn != 'type_id')):
                    # a single-assignment local (the loop's `type` / `index`, or any const / constexpr local): inlined
                    low = self.e(init)
                    self.inline[name] = (low, set(re.findall(r'EVar (V\w+)', low)))
                    continue
                if name not in VARS:
                    self.bad('unknown local', st)
                if init is None:
                    self.bad('declaration without initialiser', st)
                if name == 'N':
                    if init != ('call', ('id', 'std::distance'), [('id', 'first'), ('id', 'last')]):
                        self.bad('N is no longer std::distance(first, last)', st)
                    continue       # the skeleton presets N
                out.append('(SSet %s %s)' % (VARS[name], self.e(init)))
            return out
        if k == 'expr':
            e = st[1]
            return self.expr_stmt(e, st)
        self.bad('statement not in the subset', st)

    def expr_stmt(self, e, st):
        if e[0] == 'comma':
            return self.expr_stmt(e[1], st) + self.expr_stmt(e[2], st)
        if e[0] == 'un' and e[1] == '++' and e[2][0] == 'id' and e[2][1] in VARS:
            v = VARS[e[2][1]]
            return ['(SSet %s (EAdd (EVar %s) (EConst 1)))' % (v, v)]
        if e[0] == 'assign' and e[1] == '=':
            l, r = e[2], e[3]
            if l[0] == 'id' and l[1] in VARS:
                return ['(SSet %s %s)' % (VARS[l[1]], self.e(r))]
            if l[0] == 'id' and l[1] in self.ref_alias:
                l = self.ref_alias[l[1]]
            if l[0] == 'index' and l[1] == ('id', 'buckets'):
                return ['(SSetBucket %s %s)' % (self.e(l[2]), self.e(r))]
        if e[0] == 'assign' and e[1] == '>>=' and e[2][0] == 'id' and e[2][1] in VARS:
            v = VARS[e[2][1]]
            return ['(SSet %s (EShr (EVar %s) %s))' % (v, v, self.e(e[3]))]
        if e[0] == 'call' and e[1] == ('member', ('id', 'buckets'), 'resize', False) and len(e[2]) == 1:
            return ['(SResize %s)' % self.e(e[2][0])]
        if e[0] == 'call' and e[1] == ('id', 'std::fill') and len(e[2]) == 3 \
                and e[2][0] == ('call', ('member', ('id', 'buckets'), 'begin', False), []) \
                and e[2][1] == ('call', ('member', ('id', 'buckets'), 'end', False), []):
            return ['(SFill %s)' % self.e(e[2][2])]
        self.bad('expression statement not in the subset', st)

    def block(self, stmts):
        out = []
        for s in stmts:
            out += self.simple(s)
        for t in out:
            m = re.match(r'\(SSet (V\w+) ', t)
            if m:
                self.assigned.add(m.group(1))
        return '[' + '; '.join(out) + ']'

    def check_inlining(self):
        """an inlined local stands for its initialiser everywhere: sound only if nothing the initialiser reads is assigned
        while the local is in scope"""
        for name, (low, reads) in self.inline.items():
            bad = reads & self.assigned
            if bad:
                raise mc.Unsupported('%s: local `%s` cannot be inlined: %s is assigned in its scope' % (self.where, name, ', '.join(sorted(bad))))


def is_observer(st):
    return st[0] == 'if' and not st[1] and st[2] == ('id', 'verif::hash_observer')


def strip_block(b):
    return b[1] if b[0] == 'block' else [b]


def translate_search(src, hook, hash_ast=None):
    params, body, line = mc.find_function(src, r'\bvoid\s+fast_perfect_hash\s*<\s*Policy\s*>\s*::\s*hash_initialize\b', 'hash_initialize')
    if re.sub(r'\s+', '', params) != 'ForwardIteratorfirst,ForwardIteratorlast,std::vector<type_id>&buckets':
        raise mc.Unsupported('hash_initialize: parameter list changed: ' + params)
    ast = mc.parse_function_body(body, ('has_facet', 'uniform_int_distribution'))
    st = [x for x in ast[1] if x != ('using',)]
    L = Lower('hash_initialize')
    L.hash_ast = hash_ast
    # auto v = E; while (v >>= k) BODY   (v not used afterwards)   is   for (auto size = E; size >>= k;) BODY
    for i in range(len(st) - 1):
        d, w = st[i], st[i + 1]
        if (d[0] == 'decl' and d[1] == 'auto' and len(d[2]) == 1 and d[2][0][1] is not None and w[0] == 'while'
                and w[1][0] == 'assign' and w[1][1] == '>>=' and w[1][2] == ('id', d[2][0][0])):
            v = d[2][0][0]
            if mc._mentions(st[i + 2:], v) or (v != 'size' and mc._mentions([d[2][0][1], w[1][3], w[2]], 'size')):
                break

            def ren(n):
                if isinstance(n, list):
                    return [ren(x) for x in n]
                if isinstance(n, tuple):
                    return ('id', 'size') if n == ('id', v) else tuple(ren(x) for x in n)
                return n
            st[i:i + 2] = [('for', ('decl', 'auto', [('size', ren(d[2][0][1]))]), ren(w[1]), None, ren(w[2]))]
            break
    # --- split the top level: [pre...] halving-for [mid...] pass-for [error tail...]
    fors = [i for i, x in enumerate(st) if x[0] == 'for']
    if len(fors) != 2:
        raise mc.Unsupported('hash_initialize: expected two top-level for loops (halving, passes), found %d' % len(fors))
    pre, halv, mid, passes, tail = st[:fors[0]], st[fors[0]], st[fors[0] + 1:fors[1]], st[fors[1]], st[fors[1] + 1:]
    seed = None
    for x in pre:
        if x[0] == 'decl' and x[2][0][0] == 'rnd':
            init = x[2][0][1]
            if not (x[1] == 'std::default_random_engine' and init and init[0] == 'ctor' and len(init[1]) == 1 and init[1][0][0] == 'num'):
                raise mc.Unsupported('hash_initialize: random engine is no longer std::default_random_engine rnd(<seed>)')
            seed = init[1][0][1]
    if seed is None:
        raise mc.Unsupported('hash_initialize: no `std::default_random_engine rnd(seed)` before the loops')
    P = {}
    P['hp_pre'] = L.block(pre)
    for x in mid:
        if x[0] == 'decl' and x[1].replace(' ', '') == 'std::uniform_int_distribution<type_id>' and x[2] == [('uniform_dist', None)]:
            continue
        if x[0] == 'decl' and L.simple(x) == []:
            continue           # a const / constexpr local, inlined where it is used
        raise mc.Unsupported('hash_initialize: unexpected statement between the two loops: ' + mc.show(x))
    # halving loop: for (auto size = E; size >>= 1;) BODY
    if not (halv[1] and halv[1][0] == 'decl' and halv[1][1] == 'auto' and len(halv[1][2]) == 1 and halv[1][2][0][0] == 'size'
            and halv[2] and halv[2][0] == 'assign' and halv[2][1] == '>>=' and halv[2][2] == ('id', 'size') and halv[3] is None):
        raise mc.Unsupported('hash_initialize: first loop is no longer `for (auto size = E; size >>= k;)`: ' + mc.show(halv[:4]))
    P['hp_halv_init'] = L.e(halv[1][2][0][1])
    P['hp_halv_step'] = L.block([('expr', halv[2])])
    P['hp_halv_body'] = L.block(strip_block(halv[4]))
    # pass loop: for (std::size_t pass = E; COND; STEP) { PROLOGUE; while (COND) {...}; if (found) {...; return;} }
    if not (passes[1] and passes[1][0] == 'decl' and passes[2] is not None and passes[3] is not None):
        raise mc.Unsupported('hash_initialize: second loop is not a full for (init; cond; step)')
    P['hp_pass_init'] = L.block([passes[1]])
    P['hp_pass_cond'] = L.c(passes[2])
    P['hp_pass_step'] = L.block([('expr', passes[3])])
    pb = [x for x in strip_block(passes[4]) if x != ('using',)]
    whiles = [i for i, x in enumerate(pb) if x[0] == 'while']
    if len(whiles) != 1:
        raise mc.Unsupported('hash_initialize: the pass loop must contain exactly one while loop')
    pro, wh, post = pb[:whiles[0]], pb[whiles[0]], pb[whiles[0] + 1:]
    P['hp_pass_pro'] = L.block(pro)
    P['hp_while_cond'] = L.c(wh[1])
    wb = [x for x in strip_block(wh[2]) if x != ('using',)]
    if hook:
        wb2 = [x for x in wb if not is_observer(x)]
        if len(wb2) != len(wb) - 1:
            raise mc.Unsupported('hash_initialize: with the hook on, the attempt must contain exactly one observer call')
        wb = wb2
    if not wb or wb[-1][0] != 'for':
        raise mc.Unsupported('hash_initialize: the attempt does not end with the loop over the classes')
    P['hp_attempt_pre'] = L.block(wb[:-1])
    outer = wb[-1]
    want_outer = (('decl', 'auto', [('iter', ('id', 'first'))]), ('bin', '!=', ('id', 'iter'), ('id', 'last')), ('un', '++', ('id', 'iter')))
    if (outer[1], outer[2], outer[3]) != want_outer:
        raise mc.Unsupported('hash_initialize: outer loop header is no longer `for (auto iter = first; iter != last; ++iter)`: ' + mc.show(outer[:4]))
    ob = [x for x in strip_block(outer[4]) if x != ('using',)]
    if len(ob) != 1 or ob[0][0] != 'for':
        raise mc.Unsupported('hash_initialize: the outer loop body is no longer exactly the loop over the type ids')
    inner = ob[0]
    tb = ('call', ('member', ('id', 'iter'), 'type_id_begin', True), [])
    te = ('call', ('member', ('id', 'iter'), 'type_id_end', True), [])
    want_inner = (('decl', 'auto', [('type_iter', tb)]), ('bin', '!=', ('id', 'type_iter'), te), ('un', '++', ('id', 'type_iter')))
    if (inner[1], inner[2], inner[3]) != want_inner:
        raise mc.Unsupported('hash_initialize: inner loop header changed: ' + mc.show(inner[:4]))
    ib = [x for x in strip_block(inner[4]) if x != ('using',)]
    # if (a == b) { A; continue; } B; break;   at the end of the loop body   is   if (a != b) { B; break; } A;
    for i, x in enumerate(ib):
        if (x[0] == 'if' and not x[1] and x[4] is None and x[2][0] == 'bin' and x[2][1] in ('==', '!=') and ib[-1] == ('break',) and i < len(ib) - 1):
            th = strip_block(x[3])
            if th and th[-1] == ('continue',):
                neg = ('bin', '!=' if x[2][1] == '==' else '==', x[2][2], x[2][3])
                ib = ib[:i] + [('if', False, neg, ('block', ib[i + 1:]), None)] + th[:-1]
            break
    # if (a == b) { A } else { B; break; }  as the last statement   is   if (a != b) { B; break; } A
    if ib and ib[-1][0] == 'if' and not ib[-1][1] and ib[-1][4] is not None and ib[-1][2][0] == 'bin' and ib[-1][2][1] in ('==', '!='):
        x = ib[-1]
        el = strip_block(x[4])
        if el and el[-1] == ('break',) and not mc._mentions(strip_block(x[3]), 'break') and not mc._mentions(strip_block(x[3]), 'continue'):
            neg = ('bin', '!=' if x[2][1] == '==' else '==', x[2][2], x[2][3])
            ib = ib[:-1] + [('if', False, neg, ('block', el), None)] + strip_block(x[3])
    ifs = [i for i, x in enumerate(ib) if x[0] == 'if' and not x[1]]
    if len(ifs) != 1 or ib[ifs[0]][4] is not None:
        raise mc.Unsupported('hash_initialize: the id loop must contain exactly one if without else (the occupancy test)')
    LI = Lower('hash_initialize (id loop)')
    LI.inline = dict(L.inline)
    LI.hash_ast = L.hash_ast
    P['hp_id_pre'] = LI.block(ib[:ifs[0]])
    P['hp_id_cond'] = LI.c(ib[ifs[0]][2])
    then = strip_block(ib[ifs[0]][3])
    if not then or then[-1] != ('break',):
        raise mc.Unsupported('hash_initialize: the occupancy test no longer ends with break')
    P['hp_id_then'] = LI.block(then[:-1])
    P['hp_id_post'] = LI.block(ib[ifs[0] + 1:])
    LI.check_inlining()
    # after the while: if (found) { ...; return; }
    post = [x for x in post if not (x[0] == 'if' and x[1] and x[2] == ('id', 'trace_enabled'))]
    if len(post) != 1 or post[0][0] != 'if' or post[0][1] or post[0][4] is not None:
        raise mc.Unsupported('hash_initialize: after the while loop there must be exactly `if (found) { ...; return; }`: ' + mc.show(post))
    P['hp_found_cond'] = L.c(post[0][2])
    fthen = [x for x in strip_block(post[0][3]) if not (x[0] == 'if' and x[1] and x[2] == ('id', 'trace_enabled'))]
    if not fthen or fthen[-1] != ('return', None):
        raise mc.Unsupported('hash_initialize: the found branch no longer ends with return')
    P['hp_found_then'] = L.block(fthen[:-1])
    # error tail: hash_search_error error; error.attempts = E; error.buckets = E; if constexpr (has_facet<Policy, error_handler>) {Policy::error(...)}; abort();
    t = [x for x in tail if x != ('using',)]
    ok = (len(t) == 5 and t[0] == ('decl', 'hash_search_error', [('error', None)])
          and t[1][0] == 'expr' and t[1][1][0] == 'assign' and t[1][1][2] == ('member', ('id', 'error'), 'attempts', False)
          and t[2][0] == 'expr' and t[2][1][0] == 'assign' and t[2][1][2] == ('member', ('id', 'error'), 'buckets', False)
          and t[3][0] == 'if' and t[3][1] and t[4] == ('expr', ('call', ('id', 'abort'), [])))
    if not ok:
        raise mc.Unsupported('hash_initialize: the error tail changed: ' + mc.show(t))
    th = strip_block(t[3][3])
    if not (t[3][2][0] == 'tmpl' and t[3][2][1] == 'has_facet' and [re.sub(r'\s+', '', a) for a in t[3][2][2]] == ['Policy', 'error_handler']
            and th == [('expr', ('call', ('id', 'Policy::error'), [('call', ('id', 'error_type'), [('id', 'error')])]))]):
        raise mc.Unsupported('hash_initialize: the error is no longer handed to Policy::error(error_type(error)) under has_facet<Policy, error_handler>')
    P['hp_err_attempts'] = L.e(t[1][1][3])
    P['hp_err_buckets'] = L.e(t[2][1][3])
    return P, seed


def main():
    try:
        raw = mc.strip_comments(open(SRC).read())
    except OSError as e:
        die('cannot read %s: %s' % (SRC, e))
    try:
        src0 = preprocess(raw, False)
        cls_fast0 = src0[src0.index('struct yOMM2_API_gcc fast_perfect_hash'):]
        cls_fast0 = cls_fast0[:mc.balanced(cls_fast0, cls_fast0.index('{'), '{', '}')]
        params, body, _ = mc.find_function(cls_fast0, r'\bhash_type_id\b', 'fast_perfect_hash::hash_type_id')
        hast = mc.parse_function_body(body)
        if re.sub(r'\s+', '', params) != 'type_idtype' or len(hast[1]) != 1 or hast[1][0][0] != 'return':
            raise mc.Unsupported('hash_type_id is no longer `return <expression of type>;`')
        hash_ast = hast[1][0][1]
        off, seed = translate_search(src0, False, hash_ast)
        on, seed2 = translate_search(preprocess(raw, True), True, hash_ast)
        m = re.fullmatch(r'\(CAnd \(CNot \(CTruth \(EVar VFound\)\)\) \(CLt \(EVar VAttempts\) \(EConst (\d+)\)\)\)', off['hp_while_cond'])
        if not m:
            # any other shape: keep it, but then the hook variant must be literally the same with EBudget for one constant
            lit = re.findall(r'\(EConst (\d+)\)', off['hp_while_cond'])
            if len(lit) != 1:
                raise mc.Unsupported('hash_initialize: cannot identify the attempt budget in the while condition: ' + off['hp_while_cond'])
            budget = lit[0]
        else:
            budget = m.group(1)
        on_as_off = dict(on)
        on_as_off['hp_while_cond'] = on['hp_while_cond'].replace('EBudget', '(EConst %s)' % budget)
        if on_as_off != off or seed != seed2:
            diff = [k for k in off if off[k] != on_as_off.get(k)]
            raise mc.Unsupported('hash_initialize: with YOMM2_VERIF defined the function differs from the plain one in more than the '
                                 'budget and the observer call: ' + ', '.join(diff))
        prog = dict(on)     # the budget is a parameter (EBudget); budget_literal is what a plain build uses
        src = preprocess(raw, False)
        # hash_type_id of fast_perfect_hash (in-class), and of checked_perfect_hash
        cls_fast = src[src.index('struct yOMM2_API_gcc fast_perfect_hash'):]
        cls_fast = cls_fast[:mc.balanced(cls_fast, cls_fast.index('{'), '{', '}')]
        cls_chk = src[src.index('struct yOMM2_API_gcc checked_perfect_hash'):]
        cls_chk = cls_chk[:mc.balanced(cls_chk, cls_chk.index('{'), '{', '}')]
        params, body, _ = mc.find_function(cls_fast, r'\bhash_type_id\b', 'fast_perfect_hash::hash_type_id')
        if re.sub(r'\s+', '', params) != 'type_idtype':
            raise mc.Unsupported('hash_type_id: parameter changed')
        ast = mc.parse_function_body(body)
        if len(ast[1]) != 1 or ast[1][0][0] != 'return':
            raise mc.Unsupported('hash_type_id is no longer a single return')
        LH = Lower('hash_type_id')
        LH.inline['type'] = ('ECurId', set())
        hfun = LH.e(ast[1][0][1])
        # wrapper of fast: std::vector<type_id> buckets; hash_initialize(first, last, buckets);
        params, body, _ = mc.find_function(cls_fast, r'\bstatic\s+void\s+hash_initialize\b', 'fast_perfect_hash::hash_initialize/2')
        ast = mc.parse_function_body(body)
        want = [('decl', 'std::vector <type_id>', [('buckets', None)]),
                ('expr', ('call', ('id', 'hash_initialize'), [('id', 'first'), ('id', 'last'), ('id', 'buckets')]))]
        if ast[1] != want:
            raise mc.Unsupported('fast_perfect_hash::hash_initialize(first, last) no longer searches with a fresh local vector: ' + mc.show(ast[1]))
        # checked: hash_type_id
        params, body, _ = mc.find_function(cls_chk, r'\bhash_type_id\b', 'checked_perfect_hash::hash_type_id')
        ast = mc.parse_function_body(body, ('fast_perfect_hash', 'has_facet'))
        st = [x for x in ast[1] if x != ('using',)]
        # auto index = ...; if (OK) return index; REPORT; abort();    is    auto index = ...; if (!OK) { REPORT; abort(); } return index;
        if (len(st) > 3 and st[1][0] == 'if' and not st[1][1] and st[1][4] is None and strip_block(st[1][3]) == [('return', ('id', 'index'))]
                and st[-1] == ('expr', ('call', ('id', 'abort'), []))):
            st = [st[0], ('if', False, ('un', '!', st[1][2]), ('block', st[2:]), None), ('return', ('id', 'index'))]
        # const bool ok = E; if (... ok ...)   reads as the test on E itself (E is pure: comparisons of index, hash_length, control[index], type)
        if (len(st) == 4 and st[1][0] == 'decl' and st[1][1] in ('const bool', 'bool', 'const auto', 'auto') and len(st[1][2]) == 1 and st[1][2][0][1] is not None
                and st[2][0] == 'if' and not mc._mentions(st[2][3:], st[1][2][0][0]) and not mc._mentions(st[3], st[1][2][0][0]) and mc._simple(st[1][2][0][1])):
            st = [st[0], ('if', st[2][1], mc._subst_ids(st[2][2], {st[1][2][0][0]: st[1][2][0][1]}), st[2][3], st[2][4]), st[3]]
        okc = (len(st) == 3 and st[0][0] == 'decl' and st[0][2][0][0] == 'index'
               and st[0][2][0][1] == ('call', ('scoped', ('tmpl', 'fast_perfect_hash', ['Policy']), 'hash_type_id'), [('id', 'type')])
               and st[1][0] == 'if' and not st[1][1] and st[1][4] is None and st[2] == ('return', ('id', 'index')))
        if not okc:
            raise mc.Unsupported('checked_perfect_hash::hash_type_id changed shape: ' + mc.show(st))

        def unq(e):
            # fast_perfect_hash<Policy>::hash_length -> hash_length
            if isinstance(e, tuple):
                if e[0] == 'scoped' and e[1] == ('tmpl', 'fast_perfect_hash', ['Policy']):
                    return ('id', e[2])
                return tuple(unq(x) for x in e)
            if isinstance(e, list):
                return [unq(x) for x in e]
            return e
        LC = Lower('checked hash_type_id')
        LC.inline['type'] = ('ECurId', set())
        LC.inline['index'] = (hfun, set())       # auto index = fast_perfect_hash<Policy>::hash_type_id(type)
        reject = LC.c(unq(st[1][2]))
        rb = [x for x in strip_block(st[1][3]) if x != ('using',)]
        okr = (len(rb) == 2 and rb[0][0] == 'if' and rb[0][1] and rb[1] == ('expr', ('call', ('id', 'abort'), [])))
        if okr:
            inner = strip_block(rb[0][3])
            okr = (len(inner) == 4 and inner[0] == ('decl', 'unknown_class_error', [('error', None)])
                   and inner[2] == ('expr', ('assign', '=', ('member', ('id', 'error'), 'type', False), ('id', 'type')))
                   and inner[3] == ('expr', ('call', ('id', 'Policy::error'), [('id', 'error')])))
        if not okr:
            raise mc.Unsupported('checked_perfect_hash::hash_type_id: the rejection branch no longer reports unknown_class_error{type} and aborts')
        # checked wrapper
        params, body, _ = mc.find_function(cls_chk, r'\bstatic\s+void\s+hash_initialize\b', 'checked_perfect_hash::hash_initialize/2')
        ast = mc.parse_function_body(body, ('fast_perfect_hash',))
        want = [('expr', ('call', ('scoped', ('tmpl', 'fast_perfect_hash', ['Policy']), 'hash_initialize'), [('id', 'first'), ('id', 'last'), ('id', 'control')])),
                ('expr', ('call', ('member', ('id', 'control'), 'resize', False), [('scoped', ('tmpl', 'fast_perfect_hash', ['Policy']), 'hash_length')]))]
        if ast[1] != want:
            raise mc.Unsupported('checked_perfect_hash::hash_initialize(first, last) no longer searches in `control` and resizes it to hash_length: ' + mc.show(ast[1]))
    except mc.Unsupported as e:
        die(str(e))
    except ValueError as e:
        die('class not found: %s' % e)
    fields = ';\n     '.join('%s := %s' % (k, prog[k]) for k in
                             ['hp_pre', 'hp_halv_init', 'hp_halv_step', 'hp_halv_body', 'hp_pass_init', 'hp_pass_cond', 'hp_pass_step', 'hp_pass_pro',
                              'hp_while_cond', 'hp_attempt_pre', 'hp_id_pre', 'hp_id_cond', 'hp_id_then', 'hp_id_post', 'hp_found_cond',
                              'hp_found_then', 'hp_err_attempts', 'hp_err_buckets'])
    text = ('(* GENERATED by translators/hashsearch.py from %s - do not edit.\n'
            '   fast_perfect_hash::hash_initialize (loop skeleton matched, straight-line pieces lowered), hash_type_id, and the\n'
            '   rejection test of checked_perfect_hash::hash_type_id, in the language of Model/MiniHash.v. *)\n'
            'From Coq Require Import NArith List.\nFrom Y2 Require Import Model.MiniHash.\nImport ListNotations.\nOpen Scope N_scope.\n\n'
            'Definition gen_search : hprog :=\n  {| %s |}.\n\n'
            '(* `attempts < <literal>` in a build without the hook *)\nDefinition gen_budget_literal : N := %s.\n'
            '(* std::default_random_engine rnd(<seed>) *)\nDefinition gen_engine_seed : N := %s.\n\n'
            '(* fast_perfect_hash::hash_type_id(type) *)\nDefinition gen_hash_type_id : hexp := %s.\n\n'
            '(* checked_perfect_hash::hash_type_id: the condition under which the id is reported as an unknown class *)\n'
            'Definition gen_checked_reject : hcond := %s.\n'
            % (SRC, fields, budget, seed, hfun, reject))
    vlib.write_if_changed(os.path.join(vlib.COQ, 'Gen', 'GenHashSearch.v'), text)


if __name__ == '__main__':
    main()
