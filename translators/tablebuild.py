#!/usr/bin/env python3
"""/repo/include/yorel/yomm2/detail/compiler.hpp  ->  coq/Gen/GenTab.v      (properties C01, C02, C17)

Source-to-Gallina translation of compiler<Policy>::build_dispatch_table(m, dim, group_iter, candidates, concrete): the body of
its loop over the groups of the current dimension is parsed (translators/_minicpp.py, trace output dropped) and lowered
statement by statement into the language of coq/Model/MiniTab.v: the mask, `if (dim == 0)`, the filter loop over m.specs
(matched as one construct), best(applicable), the three-way choice of the cell pushed on m.dispatch_table, the counters of
m.report, and the recursive call with its five arguments.  The initial call in build_dispatch_tables is checked too.
Anything else is refused (exit 3).  Proofs/TabSource.v proves that running the translated body yields the cells of
Model.Compile.build_table and the report counts the model derives from them.
"""
import os, re, sys

sys.path.insert(0, os.path.dirname(os.path.abspath(__file__)))
sys.path.insert(0, os.path.join(os.path.dirname(os.path.abspath(__file__)), '..', 'tools'))
import vlib
import _minicpp as mc

REPO = os.environ.get('VERIF_REPO', '/repo')
SRC = os.path.join(REPO, 'include/yorel/yomm2/detail/compiler.hpp')
COUNTERS = {'ambiguous': 'KAmbiguous', 'concrete_ambiguous': 'KConcreteAmbiguous', 'not_implemented': 'KNotImplemented',
            'concrete_not_implemented': 'KConcreteNotImplemented'}


def die(msg):
    sys.stderr.write('tablebuild.py: ' + msg + '\n')
    print('tablebuild.py: ' + msg)
    sys.exit(3)


def nonempty(stmts):
    return [s for s in stmts if s != ('block', []) and s != ('using',)]


class Lower:
    def __init__(self, gmask, group):
        self.gmask, self.group = gmask, group
        self.have = set()           # locals declared so far: mask, applicable, specs
        self.bools = {}             # bool locals -> condition text

    def bad(self, msg, node):
        raise mc.Unsupported('build_dispatch_table: %s: %s' % (msg, mc.show(node)))

    def c(self, x):
        k = x[0]
        if x == ('id', 'concrete'):
            return 'BConcrete'
        if x == ('member', ('id', self.group), 'has_concrete_classes', False):
            return 'BGroupConcrete'
        if k == 'id' and x[1] in self.bools:
            return self.bools[x[1]]
        if k == 'bin' and x[1] == '&&':
            return '(BAnd %s %s)' % (self.c(x[2]), self.c(x[3]))
        if k == 'un' and x[1] == '!':
            return '(BNot %s)' % self.c(x[2])
        if x in (('bin', '==', ('id', 'dim'), ('num', 0)), ('bin', '==', ('num', 0), ('id', 'dim'))):
            return 'BDimIs0'
        if x in (('bin', '!=', ('id', 'dim'), ('num', 0)), ('bin', '>', ('id', 'dim'), ('num', 0))):
            return '(BNot BDimIs0)'
        size = ('call', ('member', ('id', 'specs'), 'size', False), [])
        if 'specs' in self.have:
            if x in (('bin', '>', size, ('num', 1)), ('bin', '>=', size, ('num', 2)), ('bin', '<', ('num', 1), size)):
                return 'BSpecsMany'
            if x in (('call', ('member', ('id', 'specs'), 'empty', False), []), ('bin', '==', size, ('num', 0))):
                return 'BSpecsEmpty'
        self.bad('condition not in the subset', x)

    def seq(self, stmts):
        out = []
        i = 0
        stmts = nonempty(stmts)
        while i < len(stmts):
            st = stmts[i]
            # std::vector<const definition*> applicable; std::size_t i = 0; for (spec : m.specs) { if (mask[i]) applicable.push_back(&spec); ++i; }
            if st[0] == 'decl' and st[2] == [('applicable', None)] and re.sub(r'\s', '', st[1]) == 'std::vector<constdefinition*>':
                if 'mask' not in self.have:
                    self.bad('`applicable` is declared before the mask', st)
                # second accepted form: [applicable.reserve(...);] for (auto i = mask.find_first(); i != bitvec::npos; i = mask.find_next(i)) applicable.push_back(&m.specs[i]);
                j = i + 1
                if j < len(stmts) and stmts[j][0] == 'expr' and stmts[j][1][0] == 'call' and stmts[j][1][1] == ('member', ('id', 'applicable'), 'reserve', False):
                    j += 1
                if j < len(stmts) and stmts[j][0] == 'for':
                    f = stmts[j]
                    ok2 = (f[1][0] == 'decl' and len(f[1][2]) == 1 and f[1][2][0][1] == ('call', ('member', ('id', 'mask'), 'find_first', False), []))
                    if ok2:
                        iv = f[1][2][0][0]
                        fb = nonempty(f[4][1] if f[4][0] == 'block' else [f[4]])
                        ok2 = (f[2] == ('bin', '!=', ('id', iv), ('id', 'bitvec::npos'))
                               and f[3] == ('assign', '=', ('id', iv), ('call', ('member', ('id', 'mask'), 'find_next', False), [('id', iv)]))
                               and fb == [('expr', ('call', ('member', ('id', 'applicable'), 'push_back', False),
                                                    [('un', '&', ('index', ('member', ('id', 'm'), 'specs', False), ('id', iv)))]))])
                    if ok2:
                        self.have.add('applicable')
                        out.append('TApplicable')
                        i = j + 1
                        continue
                # third accepted form: for (size_t i = 0; i < m.specs.size(); ++i) if (mask[i]) applicable.push_back(&m.specs[i]);
                if j < len(stmts) and stmts[j][0] == 'for':
                    f = stmts[j]
                    ok3 = (f[1] and f[1][0] == 'decl' and len(f[1][2]) == 1 and f[1][2][0][1] == ('num', 0))
                    if ok3:
                        iv = f[1][2][0][0]
                        push3 = ('expr', ('call', ('member', ('id', 'applicable'), 'push_back', False), [('un', '&', ('index', ('member', ('id', 'm'), 'specs', False), ('id', iv)))]))
                        fb = nonempty(f[4][1] if f[4][0] == 'block' else [f[4]])
                        ok3 = (f[2] in (('bin', '<', ('id', iv), ('call', ('member', ('member', ('id', 'm'), 'specs', False), 'size', False), [])),
                                        ('bin', '!=', ('id', iv), ('call', ('member', ('member', ('id', 'm'), 'specs', False), 'size', False), [])))
                               and f[3] in (('un', '++', ('id', iv)), ('post', '++', ('id', iv)))
                               and fb in ([('if', False, ('index', ('id', 'mask'), ('id', iv)), ('block', [push3]), None)], [('if', False, ('index', ('id', 'mask'), ('id', iv)), push3, None)]))
                    if ok3:
                        self.have.add('applicable')
                        out.append('TApplicable')
                        i = j + 1
                        continue
                if i + 2 >= len(stmts):
                    self.bad('`applicable` is declared but not filled by the filter loop', st)
                d2, lp = stmts[i + 1], stmts[i + 2]
                idx = d2[2][0][0] if d2[0] == 'decl' and len(d2[2]) == 1 and d2[2][0][1] == ('num', 0) else None
                ok = idx is not None and lp[0] == 'rangefor' and isinstance(lp[1], str) and lp[2] == ('member', ('id', 'm'), 'specs', False)
                if ok:
                    sp = lp[1]
                    body = nonempty(lp[3][1] if lp[3][0] == 'block' else [lp[3]])
                    push = ('expr', ('call', ('member', ('id', 'applicable'), 'push_back', False), [('un', '&', ('id', sp))]))
                    test = ('if', False, ('index', ('id', 'mask'), ('id', idx)), ('block', [push]), None)
                    test2 = ('if', False, ('index', ('id', 'mask'), ('id', idx)), push, None)
                    incs = (('expr', ('un', '++', ('id', idx))), ('expr', ('post', '++', ('id', idx))))
                    ok = len(body) == 2 and body[0] in (test, test2) and body[1] in incs
                if not ok:
                    self.bad('the loop that collects the applicable definitions is no longer `for (spec : m.specs) { if (mask[i]) applicable.push_back(&spec); ++i; }`', lp)
                self.have.add('applicable')
                out.append('TApplicable')
                i += 3
                continue
            out.append(self.s(st))
            i += 1
        out = [t for t in out if t != 'TSkip']
        if not out:
            return 'TSkip'
        r = out[-1]
        for t in reversed(out[:-1]):
            r = '(TSeq %s\n  %s)' % (t, r)
        return r

    def s(self, st):
        k = st[0]
        if k == 'block':
            saved = set(self.have)
            r = self.seq(st[1])
            self.have = saved if False else self.have      # C++ scoping: what a nested block declares is not visible after it
            return r
        if k == 'decl':
            if len(st[2]) != 1:
                self.bad('declaration not in the subset', st)
            name, init = st[2][0]
            if name == 'mask' and init in (('bin', '&', ('id', 'candidates'), ('id', self.gmask)), ('bin', '&', ('id', self.gmask), ('id', 'candidates'))):
                self.have.add('mask')
                return 'TLetMask'
            if name == 'specs' and init == ('call', ('id', 'best'), [('id', 'applicable')]) and 'applicable' in self.have:
                self.have.add('specs')
                return 'TBest'
            if name == 'spec' and init == ('index', ('id', 'specs'), ('num', 0)) and 'specs' in self.have:
                self.have.add('spec0')
                return 'TSkip'
            if st[1].replace('const', '').strip() in ('bool', 'auto') and init is not None:
                try:
                    self.bools[name] = self.c(init)
                    return 'TSkip'
                except mc.Unsupported:
                    pass
            self.bad('declaration not in the subset', st)
        if k == 'if':
            if st[1]:
                self.bad('if constexpr', st)
            saved = set(self.have)
            c = self.c(st[2])
            t = self.s(st[3]); self.have = set(saved)
            e = self.s(st[4]) if st[4] else 'TSkip'; self.have = set(saved)
            return '(TIf %s\n  %s\n  %s)' % (c, t, e)
        if k == 'expr':
            e = st[1]
            if e[0] == 'call' and e[1] == ('member', ('member', ('id', 'm'), 'dispatch_table', False), 'push_back', False) and len(e[2]) == 1:
                a = e[2][0]
                if a == ('un', '&', ('member', ('id', 'm'), 'ambiguous', False)):
                    return '(TPush PAmbiguous)'
                if a == ('un', '&', ('member', ('id', 'm'), 'not_implemented', False)):
                    return '(TPush PNotImplemented)'
                if (a == ('id', 'spec') and 'spec0' in self.have) or (a == ('index', ('id', 'specs'), ('num', 0)) and 'specs' in self.have):
                    return '(TPush PSpec0)'
                self.bad('what is pushed on the dispatch table is not in the subset', st)
            if e[0] in ('un', 'post') and e[1] == '++' and e[2][0] == 'member' and e[2][1] == ('member', ('id', 'm'), 'report', False) and e[2][2] in COUNTERS:
                return '(TCount %s)' % COUNTERS[e[2][2]]
            if e[0] == 'call' and e[1] == ('id', 'build_dispatch_table') and len(e[2]) == 5:
                a = e[2]
                if (a[0] == ('id', 'm') and a[1] == ('bin', '-', ('id', 'dim'), ('num', 1)) and a[2] == ('bin', '-', ('id', 'group_iter'), ('num', 1))
                        and a[3] == ('id', 'mask') and 'mask' in self.have):
                    return '(TRecurse %s)' % self.c(a[4])
                self.bad('the recursive call no longer passes (m, dim - 1, group_iter - 1, mask, ...)', st)
            self.bad('expression statement not in the subset', st)
        self.bad('statement not in the subset', st)


def lower_next(sp, stmts, whole):
    """[candidates; copy_if(specs..., is_base(other, &spec)); nexts = best(candidates); void* next; if-chain; if (spec.info->next) *spec.info->next = next]"""
    def bad(msg, node):
        raise mc.Unsupported('build_dispatch_tables (assigning next): %s: %s' % (msg, mc.show(node)))
    have = set()
    size = ('call', ('member', ('id', 'nexts'), 'size', False), [])

    def c(x):
        if x[0] == 'un' and x[1] == '!':
            return '(NNot %s)' % c(x[2])
        if x[0] == 'bin' and x[2] == size and x[3][0] == 'num' and 'nexts' in have:
            if x[1] == '==':
                return '(NSizeIs %d)' % x[3][1]
            if x[1] == '>':
                return '(NSizeGt %d)' % x[3][1]
            if x[1] == '>=' and x[3][1] >= 1:
                return '(NSizeGt %d)' % (x[3][1] - 1)
        if x == ('call', ('member', ('id', 'nexts'), 'empty', False), []) and 'nexts' in have:
            return 'NEmpty'
        bad('condition not in the subset', x)

    def val(r, env):
        if r == ('member', ('member', ('id', 'm'), 'info', False), 'not_implemented', True):
            return 'VNotImplemented'
        if r == ('member', ('member', ('id', 'm'), 'info', False), 'ambiguous', True):
            return 'VAmbiguous'
        front = ('call', ('member', ('id', 'nexts'), 'front', False), [])
        first = ('index', ('id', 'nexts'), ('num', 0))
        for f in (front, first):
            if r == ('member', ('member', f, 'info', True), 'pf', True):
                return 'VDefPf'
        if r[0] == 'member' and r[2] == 'pf' and r[3] and r[1][0] == 'id' and env.get(r[1][1]) == 'info_of_front':
            return 'VDefPf'
        bad('value assigned to next is not in the subset', r)

    def seq(sts, env):
        out = []
        for st in nonempty(sts):
            t = s1(st, env)
            if t != 'NSkip':
                out.append(t)
        if not out:
            return 'NSkip'
        r = out[-1]
        for t in reversed(out[:-1]):
            r = '(NSeq %s\n  %s)' % (t, r)
        return r

    def s1(st, env):
        k = st[0]
        if k == 'block':
            return seq(st[1], dict(env))
        if k == 'decl' and len(st[2]) == 1:
            name, init = st[2][0]
            if name == 'candidates' and init is None:
                return 'NSkip'
            if name == 'nexts' and init == ('call', ('id', 'best'), [('id', 'candidates')]) and 'candidates' in have:
                have.add('nexts')
                return 'NBest'
            if name == 'next' and init is None and re.sub(r'\s', '', st[1]) == 'void*':
                return 'NSkip'
            front = ('call', ('member', ('id', 'nexts'), 'front', False), [])
            if init in (('member', front, 'info', True), ('member', ('index', ('id', 'nexts'), ('num', 0)), 'info', True)) and 'nexts' in have:
                env[name] = 'info_of_front'
                return 'NSkip'
            bad('declaration not in the subset', st)
        if k == 'expr':
            e = st[1]
            want = ('call', ('id', 'std::copy_if'),
                    [('call', ('member', ('id', 'specs'), 'begin', False), []), ('call', ('member', ('id', 'specs'), 'end', False), []),
                     ('call', ('id', 'std::back_inserter'), [('id', 'candidates')]),
                     ('lambda', ['&', sp], ['other'], ('block', [('return', ('call', ('id', 'is_base'), [('id', 'other'), ('un', '&', ('id', sp))]))]))])
            want2 = want[:2] + (want[2][:3] + [('lambda', ['&'], ['other'], want[2][3][3])],)
            if e in (want, want2):
                have.add('candidates')
                return 'NCandidates'
            if e[0] == 'assign' and e[1] == '=' and e[2] == ('id', 'next'):
                return '(NSetNext %s)' % val(e[3], env)
            bad('expression statement not in the subset', st)
        if k == 'rangefor' and isinstance(st[1], str) and st[2] == ('id', 'specs'):
            # for (const definition* other : specs) { if (is_base(other, &spec)) candidates.push_back(other); }    (specs: every definition, in order)
            o = st[1]
            push = ('expr', ('call', ('member', ('id', 'candidates'), 'push_back', False), [('id', o)]))
            test = ('call', ('id', 'is_base'), [('id', o), ('un', '&', ('id', sp))])
            body = nonempty(st[3][1] if st[3][0] == 'block' else [st[3]])
            if body in ([('if', False, test, ('block', [push]), None)], [('if', False, test, push, None)]):
                have.add('candidates')
                return 'NCandidates'
            bad('loop over specs inside the next loop is not the candidate filter', st)
        if k == 'rangefor' and isinstance(st[1], str) and st[2] == ('member', ('id', 'm'), 'specs', False):
            # for (const definition& other : m.specs) { if (is_base(&other, &spec)) candidates.push_back(&other); }
            o = st[1]
            push = ('expr', ('call', ('member', ('id', 'candidates'), 'push_back', False), [('un', '&', ('id', o))]))
            test = ('call', ('id', 'is_base'), [('un', '&', ('id', o)), ('un', '&', ('id', sp))])
            body = nonempty(st[3][1] if st[3][0] == 'block' else [st[3]])
            if body in ([('if', False, test, ('block', [push]), None)], [('if', False, test, push, None)]):
                have.add('candidates')
                have.add('direct')
                return 'NCandidates'
            bad('loop over m.specs inside the next loop is not the candidate filter', st)
        if k == 'if' and not st[1]:
            slot = ('member', ('member', ('id', sp), 'info', False), 'next', True)
            store = ('expr', ('assign', '=', ('un', '*', slot), ('id', 'next')))
            if st[2] in (slot, ('bin', '!=', slot, ('null',))) and st[4] is None and nonempty(st[3][1] if st[3][0] == 'block' else [st[3]]) == [store]:
                return 'NStore'
            return '(NIf %s\n  %s\n  %s)' % (c(st[2]), s1(st[3], dict(env)), s1(st[4], dict(env)) if st[4] else 'NSkip')
        bad('statement not in the subset', st)

    # `specs` must be all the definitions of the method, in catalog order
    allspecs = repr(('call', ('id', 'std::transform'),
                     [('call', ('member', ('member', ('id', 'm'), 'specs', False), 'begin', False), []),
                      ('call', ('member', ('member', ('id', 'm'), 'specs', False), 'end', False), []),
                      ('call', ('id', 'std::back_inserter'), [('id', 'specs')]),
                      ('lambda', [], ['spec'], ('block', [('return', ('un', '&', ('id', 'spec')))]))]))
    text = seq(stmts, {})
    allspecs_loop = any(repr(('rangefor', v, ('member', ('id', 'm'), 'specs', False),
                              ('block', [('expr', ('call', ('member', ('id', 'specs'), 'push_back', False), [('un', '&', ('id', v))]))]))) in whole
                        for v in ('spec', 's', 'definition', 'def', 'd'))
    if 'direct' not in have and allspecs not in whole and not allspecs_loop:
        raise mc.Unsupported('build_dispatch_tables: `specs` is no longer filled with the address of every definition of the method, in order')
    return text


def main():
    try:
        src = mc.strip_comments(open(SRC).read())
    except OSError as e:
        die('cannot read %s: %s' % (SRC, e))
    try:
        params, body, line = mc.find_function(src, r'\bvoid\s+compiler<Policy>::build_dispatch_table\b(?!s)', 'build_dispatch_table')
        want = 'method&m,std::size_tdim,std::vector<group_map>::const_iteratorgroup_iter,constbitvec&candidates,boolconcrete'
        if re.sub(r'\s+', '', params) != want:
            raise mc.Unsupported('build_dispatch_table: parameter list changed: ' + re.sub(r'\s+', ' ', params))
        ast = mc.parse_function_body(mc.drop_trace(body), ('vector',))
        top = nonempty(ast[1])
        # std::size_t group_index = 0; for (const auto& [group_mask, group] : *group_iter) { BODY; ++group_index; }
        loops = [s for s in top if s[0] == 'rangefor']
        others = [s for s in top if s[0] != 'rangefor']
        if len(loops) != 1 or loops[0][2] != ('un', '*', ('id', 'group_iter')) or not isinstance(loops[0][1], tuple) or len(loops[0][1]) != 2:
            raise mc.Unsupported('build_dispatch_table is no longer one loop `for (const auto& [group_mask, group] : *group_iter)`')
        for s in others:
            if not (s[0] == 'decl' and len(s[2]) == 1 and s[2][0] == ('group_index', ('num', 0))):
                raise mc.Unsupported('build_dispatch_table: statement outside the loop over the groups: ' + mc.show(s))
        gmask, group = loops[0][1]
        lb = nonempty(loops[0][3][1])
        lb = [s for s in lb if s not in (('expr', ('un', '++', ('id', 'group_index'))), ('expr', ('post', '++', ('id', 'group_index'))))]
        lw = Lower(gmask, group)
        text = lw.seq(lb)
        # the first call: every definition is a candidate, the last dimension first, concrete = true
        bts = src[src.index('compiler<Policy>::build_dispatch_tables()'):]
        m = re.search(r'build_dispatch_table\(\s*m\s*,\s*dims\s*-\s*1\s*,\s*groups\.end\(\)\s*-\s*1\s*,\s*all\s*,\s*true\s*\)\s*;', bts)
        if not m:
            raise mc.Unsupported('build_dispatch_tables no longer starts the recursion with build_dispatch_table(m, dims - 1, groups.end() - 1, all, true)')
        # ---- "assigning next": the loop over m.specs in build_dispatch_tables that ends by storing through spec.info->next
        params2, body2, _ = mc.find_function(src, r'\bvoid\s+compiler<Policy>::build_dispatch_tables\b', 'build_dispatch_tables')
        ast2 = mc.parse_function_body(mc.drop_trace(body2), ('vector',))
        found = []

        def walk(n):
            if isinstance(n, tuple):
                if n and n[0] == 'rangefor' and n[2] == ('member', ('id', 'm'), 'specs', False) and "'next'" in repr(n) and 'best' in repr(n):
                    found.append(n)
                    return
                for x in n:
                    walk(x)
            elif isinstance(n, list):
                for x in n:
                    walk(x)
        walk(ast2)
        if len(found) != 1 or not isinstance(found[0][1], str):
            raise mc.Unsupported('build_dispatch_tables: expected exactly one loop over m.specs that assigns next, found %d' % len(found))
        next_text = lower_next(found[0][1], nonempty(found[0][3][1]), repr(ast2))
    except mc.Unsupported as e:
        die(str(e))
    out = ('(* GENERATED by translators/tablebuild.py from %s - do not edit.\n'
           '   The body of the loop over the groups in compiler<Policy>::build_dispatch_table, in the language of Model/MiniTab.v. *)\n'
           'From Y2 Require Import Model.MiniTab.\n\nDefinition gen_tab_body : tstmt :=\n %s.\n\n'
           '(* the body of the loop over m.specs that assigns next, in build_dispatch_tables *)\nDefinition gen_next_body : nstmt :=\n %s.\n' % (SRC, text, next_text))
    vlib.write_if_changed(os.path.join(vlib.COQ, 'Gen', 'GenTab.v'), out)


if __name__ == '__main__':
    main()
