#!/usr/bin/env python3
"""/repo/include/yorel/yomm2/detail/compiler.hpp  ->  coq/Gen/GenTab.v      (properties C01, C02, C17)

Source-to-Gallina translation of compiler<Policy>::build_dispatch_table(m, dim, group_iter, candidates, concrete): the body of
its loop over the groups of the current dimension is parsed (translators/_minicpp.py, trace output dropped) and lowered
statement by statement into the language of coq/Model/MiniTab.v: the mask, `if (dim == 0)`, the filter loop over m.specs
(matched as one construct), best(applicable), the three-way choice of the cell pushed on m.dispatch_table, the counters of
m.report, and the recursive call with its five arguments.  The initial call in build_dispatch_tables is checked too.
Anything else is refused (exit 3).  Proofs/TabSource.v proves that running the translated body yields the cells of
Model.Compile.build_table and the report counts the model derives from them.
"""
import os, re, sys

sys.path.insert(0, os.path.dirname(os.path.abspath(__file__)))
sys.path.insert(0, os.path.join(os.path.dirname(os.path.abspath(__file__)), '..', 'tools'))
import vlib
import _minicpp as mc

REPO = os.environ.get('VERIF_REPO', '/repo')
SRC = os.path.join(REPO, 'include/yorel/yomm2/detail/compiler.hpp')
COUNTERS = {'ambiguous': 'KAmbiguous', 'concrete_ambiguous': 'KConcreteAmbiguous', 'not_implemented': 'KNotImplemented',
            'concrete_not_implemented': 'KConcreteNotImplemented'}


def die(msg):
    sys.stderr.write('tablebuild.py: ' + msg + '\n')
    print('tablebuild.py: ' + msg)
    sys.exit(3)


def nonempty(stmts):
    return [s for s in stmts if s != ('block', []) and s != ('using',)]


class Lower:
    def __init__(self, gmask, group):
        self.gmask, self.group = gmask, group
        self.have = set()           # locals declared so far: mask, applicable, specs
        self.bools = {}             # bool locals -> condition text

    def bad(self, msg, node):
        raise mc.Unsupported('build_dispatch_table: %s: %s' % (msg, mc.show(node)))

    def c(self, x):
        k = x[0]
        if x == ('id', 'concrete'):
            return 'BConcrete'
        if x == ('member', ('id', self.group), 'has_concrete_classes', False):
            return 'BGroupConcrete'
        if k == 'id' and x[1] in self.bools:
            return self.bools[x[1]]
        if k == 'bin' and x[1] == '&&':
            return '(BAnd %s %s)' % (self.c(x[2]), self.c(x[3]))
        if k == 'un' and x[1] == '!':
            return '(BNot %s)' % self.c(x[2])
        if x in (('bin', '==', ('id', 'dim'), ('num', 0)), ('bin', '==', ('num', 0), ('id', 'dim'))):
            return 'BDimIs0'
        if x in (('bin', '!=', ('id', 'dim'), ('num', 0)), ('bin', '>', ('id', 'dim'), ('num', 0))):
            return '(BNot BDimIs0)'
        size = ('call', ('member', ('id', 'specs'), 'size', False), [])
        if 'specs' in self.have:
            if x in (('bin', '>', size, ('num', 1)), ('bin', '>=', size, ('num', 2)), ('bin', '<', ('num', 1), size)):
                return 'BSpecsMany'
            if x in (('call', ('member', ('id', 'specs'), 'empty', False), []), ('bin', '==', size, ('num', 0))):
                return 'BSpecsEmpty'
        self.bad('condition not in the subset', x)

    def seq(self, stmts):
        out = []
        i = 0
        stmts = nonempty(stmts)
        while i < len(stmts):
            st = stmts[i]
            # std::vector<const definition*> applicable; std::size_t i = 0; for (spec : m.specs) { if (mask[i]) applicable.push_back(&spec); ++i; }
            if st[0] == 'decl' and st[2] == [('applicable', None)] and re.sub(r'\s', '', st[1]) == 'std::vector<constdefinition*>':
                if 'mask' not in self.have:
                    self.bad('`applicable` is declared before the mask', st)
                # second accepted form: [applicable.reserve(...);] for (auto i = mask.find_first(); i != bitvec::npos; i = mask.find_next(i)) applicable.push_back(&m.specs[i]);
                j = i + 1
                if j < len(stmts) and stmts[j][0] == 'expr' and stmts[j][1][0] == 'call' and stmts[j][1][1] == ('member', ('id', 'applicable'), 'reserve', False):
                    j += 1
                if j < len(stmts) and stmts[j][0] == 'for':
                    f = stmts[j]
                    ok2 = (f[1][0] == 'decl' and len(f[1][2]) == 1 and f[1][2][0][1] == ('call', ('member', ('id', 'mask'), 'find_first', False), []))
                    if ok2:
                        iv = f[1][2][0][0]
                        fb = nonempty(f[4][1] if f[4][0] == 'block' else [f[4]])
                        ok2 = (f[2] == ('bin', '!=', ('id', iv), ('id', 'bitvec::npos'))
                               and f[3] == ('assign', '=', ('id', iv), ('call', ('member', ('id', 'mask'), 'find_next', False), [('id', iv)]))
                               and fb == [('expr', ('call', ('member', ('id', 'applicable'), 'push_back', False),
                                                    [('un', '&', ('index', ('member', ('id', 'm'), 'specs', False), ('id', iv)))]))])
                    if ok2:
                        self.have.add('applicable')
                        out.append('TApplicable')
                        i = j + 1
                        continue
                if i + 2 >= len(stmts):
                    self.bad('`applicable` is declared but not filled by the filter loop', st)
                d2, lp = stmts[i + 1], stmts[i + 2]
                idx = d2[2][0][0] if d2[0] == 'decl' and len(d2[2]) == 1 and d2[2][0][1] == ('num', 0) else None
                ok = idx is not None and lp[0] == 'rangefor' and isinstance(lp[1], str) and lp[2] == ('member', ('id', 'm'), 'specs', False)
                if ok:
                    sp = lp[1]
                    body = nonempty(lp[3][1] if lp[3][0] == 'block' else [lp[3]])
                    push = ('expr', ('call', ('member', ('id', 'applicable'), 'push_back', False), [('un', '&', ('id', sp))]))
                    test = ('if', False, ('index', ('id', 'mask'), ('id', idx)), ('block', [push]), None)
                    test2 = ('if', False, ('index', ('id', 'mask'), ('id', idx)), push, None)
                    incs = (('expr', ('un', '++', ('id', idx))), ('expr', ('post', '++', ('id', idx))))
                    ok = len(body) == 2 and body[0] in (test, test2) and body[1] in incs
                if not ok:
                    self.bad('the loop that collects the applicable definitions is no longer `for (spec : m.specs) { if (mask[i]) applicable.push_back(&spec); ++i; }`', lp)
                self.have.add('applicable')
                out.append('TApplicable')
                i += 3
                continue
            out.append(self.s(st))
            i += 1
        out = [t for t in out if t != 'TSkip']
        if not out:
            return 'TSkip'
        r = out[-1]
        for t in reversed(out[:-1]):
            r = '(TSeq %s\n  %s)' % (t, r)
        return r

    def s(self, st):
        k = st[0]
        if k == 'block':
            saved = set(self.have)
            r = self.seq(st[1])
            self.have = saved if False else self.have      # C++ scoping: what a nested block declares is not visible after it
            return r
        if k == 'decl':
            if len(st[2]) != 1:
                self.bad('declaration not in the subset', st)
            name, init = st[2][0]
            if name == 'mask' and init in (('bin', '&', ('id', 'candidates'), ('id', self.gmask)), ('bin', '&', ('id', self.gmask), ('id', 'candidates'))):
                self.have.add('mask')
                return 'TLetMask'
            if name == 'specs' and init == ('call', ('id', 'best'), [('id', 'applicable')]) and 'applicable' in self.have:
                self.have.add('specs')
                return 'TBest'
            if name == 'spec' and init == ('index', ('id', 'specs'), ('num', 0)) and 'specs' in self.have:
                self.have.add('spec0')
                return 'TSkip'
            if st[1].replace('const', '').strip() in ('bool', 'auto') and init is not None:
                try:
                    self.bools[name] = self.c(init)
                    return 'TSkip'
                except mc.Unsupported:
                    pass
            self.bad('declaration not in the subset', st)
        if k == 'if':
            if st[1]:
                self.bad('if constexpr', st)
            saved = set(self.have)
            c = self.c(st[2])
            t = self.s(st[3]); self.have = set(saved)
            e = self.s(st[4]) if st[4] else 'TSkip'; self.have = set(saved)
            return '(TIf %s\n  %s\n  %s)' % (c, t, e)
        if k == 'expr':
            e = st[1]
            if e[0] == 'call' and e[1] == ('member', ('member', ('id', 'm'), 'dispatch_table', False), 'push_back', False) and len(e[2]) == 1:
                a = e[2][0]
                if a == ('un', '&', ('member', ('id', 'm'), 'ambiguous', False)):
                    return '(TPush PAmbiguous)'
                if a == ('un', '&', ('member', ('id', 'm'), 'not_implemented', False)):
                    return '(TPush PNotImplemented)'
                if (a == ('id', 'spec') and 'spec0' in self.have) or (a == ('index', ('id', 'specs'), ('num', 0)) and 'specs' in self.have):
                    return '(TPush PSpec0)'
                self.bad('what is pushed on the dispatch table is not in the subset', st)
            if e[0] in ('un', 'post') and e[1] == '++' and e[2][0] == 'member' and e[2][1] == ('member', ('id', 'm'), 'report', False) and e[2][2] in COUNTERS:
                return '(TCount %s)' % COUNTERS[e[2][2]]
            if e[0] == 'call' and e[1] == ('id', 'build_dispatch_table') and len(e[2]) == 5:
                a = e[2]
                if (a[0] == ('id', 'm') and a[1] == ('bin', '-', ('id', 'dim'), ('num', 1)) and a[2] == ('bin', '-', ('id', 'group_iter'), ('num', 1))
                        and a[3] == ('id', 'mask') and 'mask' in self.have):
                    return '(TRecurse %s)' % self.c(a[4])
                self.bad('the recursive call no longer passes (m, dim - 1, group_iter - 1, mask, ...)', st)
            self.bad('expression statement not in the subset', st)
        self.bad('statement not in the subset', st)


def main():
    try:
        src = mc.strip_comments(open(SRC).read())
    except OSError as e:
        die('cannot read %s: %s' % (SRC, e))
    try:
        params, body, line = mc.find_function(src, r'\bvoid\s+compiler<Policy>::build_dispatch_table\b(?!s)', 'build_dispatch_table')
        want = 'method&m,std::size_tdim,std::vector<group_map>::const_iteratorgroup_iter,constbitvec&candidates,boolconcrete'
        if re.sub(r'\s+', '', params) != want:
            raise mc.Unsupported('build_dispatch_table: parameter list changed: ' + re.sub(r'\s+', ' ', params))
        ast = mc.parse_function_body(mc.drop_trace(body), ('vector',))
        top = nonempty(ast[1])
        # std::size_t group_index = 0; for (const auto& [group_mask, group] : *group_iter) { BODY; ++group_index; }
        loops = [s for s in top if s[0] == 'rangefor']
        others = [s for s in top if s[0] != 'rangefor']
        if len(loops) != 1 or loops[0][2] != ('un', '*', ('id', 'group_iter')) or not isinstance(loops[0][1], tuple) or len(loops[0][1]) != 2:
            raise mc.Unsupported('build_dispatch_table is no longer one loop `for (const auto& [group_mask, group] : *group_iter)`')
        for s in others:
            if not (s[0] == 'decl' and len(s[2]) == 1 and s[2][0] == ('group_index', ('num', 0))):
                raise mc.Unsupported('build_dispatch_table: statement outside the loop over the groups: ' + mc.show(s))
        gmask, group = loops[0][1]
        lb = nonempty(loops[0][3][1])
        lb = [s for s in lb if s not in (('expr', ('un', '++', ('id', 'group_index'))), ('expr', ('post', '++', ('id', 'group_index'))))]
        lw = Lower(gmask, group)
        text = lw.seq(lb)
        # the first call: every definition is a candidate, the last dimension first, concrete = true
        bts = src[src.index('compiler<Policy>::build_dispatch_tables()'):]
        m = re.search(r'build_dispatch_table\(\s*m\s*,\s*dims\s*-\s*1\s*,\s*groups\.end\(\)\s*-\s*1\s*,\s*all\s*,\s*true\s*\)\s*;', bts)
        if not m:
            raise mc.Unsupported('build_dispatch_tables no longer starts the recursion with build_dispatch_table(m, dims - 1, groups.end() - 1, all, true)')
    except mc.Unsupported as e:
        die(str(e))
    out = ('(* GENERATED by translators/tablebuild.py from %s - do not edit.\n'
           '   The body of the loop over the groups in compiler<Policy>::build_dispatch_table, in the language of Model/MiniTab.v. *)\n'
           'From Y2 Require Import Model.MiniTab.\n\nDefinition gen_tab_body : tstmt :=\n %s.\n' % (SRC, text))
    vlib.write_if_changed(os.path.join(vlib.COQ, 'Gen', 'GenTab.v'), out)


if __name__ == '__main__':
    main()
