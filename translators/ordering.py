#!/usr/bin/env python3
"""/repo/include/yorel/yomm2/detail/compiler.hpp  ->  coq/Gen/GenOrdering.v      (properties C01 C02 C03 C06 C17)

Source-to-Gallina translation of the three functions that decide which definition wins:
    compiler<Policy>::is_more_specific(a, b), compiler<Policy>::is_base(a, b)   -> pairfn   (Model/MiniOrd.v)
    compiler<Policy>::best(candidates)                                          -> bexp     (the all_of predicate)
The function bodies are parsed (translators/_minicpp.py).  The loop skeleton
    bool result = <const>;  auto a_iter = a->vp.begin(), a_last = a->vp.end(), b_iter = b->vp.begin();
    for (; a_iter != a_last; ++a_iter, ++b_iter) BODY        return <expr>;
and best's skeleton
    for (auto spec : candidates) if (std::all_of(candidates.begin(), candidates.end(), [spec](auto other) { return P; }))
        return {spec};        return candidates;
are matched structurally on the AST; BODY, the returned expression and P are lowered compositionally.  Anything else is
refused (exit 3, naming the construct).  Proofs/OrderingSource.v proves the interpreted translations equal to
Model.Compile.is_more_specific / is_base / best.
"""
import os, re, sys

sys.path.insert(0, os.path.dirname(os.path.abspath(__file__)))
sys.path.insert(0, os.path.join(os.path.dirname(os.path.abspath(__file__)), '..', 'tools'))
import vlib
import _minicpp as mc

REPO = os.environ.get('VERIF_REPO', '/repo')
SRC = os.path.join(REPO, 'include/yorel/yomm2/detail/compiler.hpp')


def die(msg):
    sys.stderr.write('ordering.py: ' + msg + '\n')
    print('ordering.py: ' + msg)
    sys.exit(3)


class PairLower:
    """BODY of the pairwise loop"""
    def __init__(self, fname, src=None, loopvar=None):
        self.fname = fname
        self.src = src            # the header text, to find helper functions
        self.loopvar = loopvar    # index variable of the `for (i = 0; i != n; ++i)` form, or None for the iterator form
        self.alias = {}           # local name -> side (auto a_class = a->vp[i], ...)

    def bad(self, what, node):
        raise mc.Unsupported('%s: %s: %s' % (self.fname, what, mc.show(node)))

    def side(self, e):
        if e == ('un', '*', ('id', 'a_iter')):
            return 'SA'
        if e == ('un', '*', ('id', 'b_iter')):
            return 'SB'
        if e[0] == 'id' and e[1] in self.alias:
            return self.alias[e[1]]
        if self.loopvar and e[0] == 'index' and e[2] == ('id', self.loopvar):
            if e[1] == ('member', ('id', 'a'), 'vp', True):
                return 'SA'
            if e[1] == ('member', ('id', 'b'), 'vp', True):
                return 'SB'
        return None

    def helper(self, x):
        """a call  h(x, y)  of a bool member `compiler<Policy>::h(const class_* p, class_* q) { return E; }`: E with p, q := x, y"""
        if not (x[0] == 'call' and x[1][0] == 'id' and len(x[2]) == 2 and self.src is not None):
            return None
        sx, sy = self.side(x[2][0]), self.side(x[2][1])
        if not (sx and sy):
            return None
        try:
            params, body, _ = mc.find_function(self.src, r'\bbool\s+compiler\s*<\s*Policy\s*>\s*::\s*%s\b' % re.escape(x[1][1]), x[1][1])
        except mc.Unsupported:
            return None
        pm = re.fullmatch(r'(?:const)?class_\*(\w+),(?:const)?class_\*(\w+)', re.sub(r'\s+', '', params))
        ast = mc.parse_function_body(body)
        st = [t for t in ast[1] if t != ('using',)]
        if not pm or len(st) != 1 or st[0][0] != 'return' or st[0][1] is None:
            self.bad('helper %s is not `bool h(class_* p, class_* q) { return E; }`' % x[1][1], x)
        sub = PairLower(self.fname + '/' + x[1][1], self.src)
        sub.alias = {pm.group(1): sx, pm.group(2): sy}
        return sub.e(st[0][1])

    def cov_call(self, e, method, nargs):
        """(*x)->covariant_classes.<method>(args) -> (side x, args) or None"""
        if e[0] == 'call' and e[1][0] == 'member' and e[1][2] == method and not e[1][3] and len(e[2]) == nargs:
            obj = e[1][1]
            if obj[0] == 'member' and obj[2] == 'covariant_classes' and obj[3]:
                s = self.side(obj[1])
                if s:
                    return s, e[2]
            if obj[0] == 'id' and obj[1] in getattr(self, 'set_alias', {}):      # const auto& cov = ( *x)->covariant_classes;
                return self.set_alias[obj[1]], e[2]
        return None

    def e(self, x):
        k = x[0]
        if k == 'bool':
            return '(OConst %s)' % ('true' if x[1] else 'false')
        if k == 'call':
            h = self.helper(x)
            if h is not None:
                return h
        if k == 'id' and x[1] == 'result':
            return 'OResult'
        if k == 'un' and x[1] == '!':
            return '(ONot %s)' % self.e(x[2])
        if k == 'bin' and x[1] in ('&&', '||'):
            return '(%s %s %s)' % ('OAnd' if x[1] == '&&' else 'OOr', self.e(x[2]), self.e(x[3]))
        if k == 'bin' and x[1] in ('==', '!='):
            l, r = x[2], x[3]
            sl, sr = self.side(l), self.side(r)
            if sl and sr:
                return '(%s %s %s)' % ('OEq' if x[1] == '==' else 'ONe', sl, sr)
            # set.count(y) !=/== 0   (either order)
            for f, z in ((l, r), (r, l)):
                cc = self.cov_call(f, 'count', 1)
                if cc and z == ('num', 0):
                    y = self.side(cc[1][0])
                    if not y:
                        self.bad('argument of count', x)
                    return '(%s %s %s)' % ('OHas' if x[1] == '!=' else 'OHasNot', cc[0], y)
            # set.find(y) ==/!= set.end()   (either order)
            for f, en in ((l, r), (r, l)):
                fc = self.cov_call(f, 'find', 1)
                ec = self.cov_call(en, 'end', 0)
                if fc and ec:
                    if fc[0] != ec[0]:
                        self.bad('find() and end() of different sets', x)
                    y = self.side(fc[1][0])
                    if not y:
                        self.bad('argument of find', x)
                    return '(%s %s %s)' % ('OHas' if x[1] == '!=' else 'OHasNot', fc[0], y)
            self.bad('comparison not in the subset', x)
        self.bad('expression not in the subset', x)

    def seq(self, stmts):
        out = [self.s(t) for t in stmts]
        out = [t for t in out if t != 'OSkip']
        if not out:
            return 'OSkip'
        r = out[-1]
        for t in reversed(out[:-1]):
            r = '(OSeq %s %s)' % (t, r)
        return r

    def s(self, st):
        k = st[0]
        if k == 'block':
            return self.seq(st[1])
        if k == 'if':
            if st[1]:
                self.bad('if constexpr', st)
            return '(OIf %s\n   %s\n   %s)' % (self.e(st[2]), self.s(st[3]), self.s(st[4]) if st[4] else 'OSkip')
        if k == 'return':
            if st[1] is None:
                self.bad('return without a value', st)
            return '(ORet %s)' % self.e(st[1])
        if k == 'continue':
            return 'OContinue'
        if k == 'expr' and st[1][0] == 'assign' and st[1][1] == '=' and st[1][2] == ('id', 'result'):
            return '(OSet %s)' % self.e(st[1][3])
        if (k == 'decl' and st[1] in ('const auto &', 'auto &') and len(st[2]) == 1 and st[2][0][1] is not None and st[2][0][1][0] == 'member'
                and st[2][0][1][2] == 'covariant_classes' and st[2][0][1][3] and self.side(st[2][0][1][1])):
            if not hasattr(self, 'set_alias'):
                self.set_alias = {}
            self.set_alias[st[2][0][0]] = self.side(st[2][0][1][1])
            return 'OSkip'
        if k == 'decl' and st[1] in ('auto', 'const auto'):
            # auto a_class = a->vp[i], b_class = b->vp[i];   names for the two classes compared
            for name, init in st[2]:
                sd = self.side(init) if init is not None else None
                if sd is None or name in ('result', 'a', 'b'):
                    self.bad('local declaration not understood', st)
                self.alias[name] = sd
            return 'OSkip'
        self.bad('statement not in the subset', st)


def member_call(obj, field, meth):
    return ('call', ('member', ('member', ('id', obj), field, True), meth, False), [])


def pair_function(src, name):
    params, body, line = mc.find_function(src, r'\bbool\s+compiler\s*<\s*Policy\s*>\s*::\s*%s\b' % name, name)
    if not re.fullmatch(r'const\s+definition\s*\*\s*a\s*,\s*const\s+definition\s*\*\s*b', params.strip()):
        raise mc.Unsupported('%s: parameters are no longer (const definition* a, const definition* b): %s' % (name, params))
    ast = mc.parse_function_body(body)
    st = [x for x in ast[1] if x != ('using',)]
    d0 = st[0] if st else None
    if not (d0 and d0[0] == 'decl' and d0[1] == 'bool' and len(d0[2]) == 1 and d0[2][0][0] == 'result' and d0[2][0][1] and d0[2][0][1][0] == 'bool'):
        raise mc.Unsupported('%s: first statement is not `bool result = <constant>;`: %s' % (name, mc.show(d0)))
    loopvar = None
    vp_size = ('call', ('member', ('member', ('id', 'a'), 'vp', True), 'size', False), [])
    if len(st) == 4:
        # iterator form
        d1, loop, ret = st[1], st[2], st[3]
        want = ('decl', 'auto', [('a_iter', member_call('a', 'vp', 'begin')), ('a_last', member_call('a', 'vp', 'end')),
                                 ('b_iter', member_call('b', 'vp', 'begin'))])
        if d1 != want:
            raise mc.Unsupported('%s: iterator declarations changed: %s' % (name, mc.show(d1)))
        if not (loop[0] == 'for' and loop[1] is None
                and loop[2] == ('bin', '!=', ('id', 'a_iter'), ('id', 'a_last'))
                and loop[3] in (('comma', ('un', '++', ('id', 'a_iter')), ('un', '++', ('id', 'b_iter'))),
                                ('comma', ('un', '++', ('id', 'b_iter')), ('un', '++', ('id', 'a_iter'))))):
            raise mc.Unsupported('%s: loop header is no longer `for (; a_iter != a_last; ++a_iter, ++b_iter)`: %s' % (name, mc.show(loop[:4])))
    elif len(st) == 3:
        # index form:  for (std::size_t i = 0[, n = a->vp.size()]; i != n | i < n | i != a->vp.size() | i < a->vp.size(); ++i)
        loop, ret = st[1], st[2]
        init = loop[1] if loop[0] == 'for' else None
        if not (init and init[0] == 'decl' and init[2] and init[2][0][1] == ('num', 0)):
            raise mc.Unsupported('%s: loop is neither the iterator form nor `for (size_t i = 0; ...)`: %s' % (name, mc.show(loop[:4])))
        loopvar = init[2][0][0]
        bound_names = {nm for nm, iv in init[2][1:] if iv == vp_size}
        if len(init[2]) - 1 != len(bound_names):
            raise mc.Unsupported('%s: extra loop variables not understood: %s' % (name, mc.show(init)))
        cond, step = loop[2], loop[3]
        ok_bound = lambda e: e == vp_size or (e[0] == 'id' and e[1] in bound_names)
        if not (cond and cond[0] == 'bin' and cond[1] in ('!=', '<') and cond[2] == ('id', loopvar) and ok_bound(cond[3])):
            raise mc.Unsupported('%s: loop condition is not `%s != / < a->vp.size()`: %s' % (name, loopvar, mc.show(cond)))
        if step not in (('un', '++', ('id', loopvar)), ('post', '++', ('id', loopvar))):
            raise mc.Unsupported('%s: loop step is not ++%s: %s' % (name, loopvar, mc.show(step)))
    else:
        raise mc.Unsupported('%s: body is no longer <result decl; [iterator decl;] for; return> (%d statements)' % (name, len(st)))
    lw = PairLower(name, src, loopvar)
    body_c = lw.s(loop[4])
    if ret[0] != 'return' or ret[1] is None:
        raise mc.Unsupported('%s: last statement is not a return with a value' % name)
    final = lw.e(ret[1])
    return '{| pf_init := %s;\n   pf_body := %s;\n   pf_final := %s |}' % ('true' if d0[2][0][1][1] else 'false', body_c, final)


def best_function(src):
    params, body, line = mc.find_function(src, r'\bcompiler\s*<\s*Policy\s*>\s*::\s*best\b', 'best')
    if not re.fullmatch(r'std::vector\s*<\s*const\s+definition\s*\*\s*>\s*&\s*candidates', params.strip()):
        raise mc.Unsupported('best: parameter is no longer (std::vector<const definition*>& candidates): ' + params)
    ast = mc.parse_function_body(body)
    st = [x for x in ast[1] if x != ('using',)]
    cb = ('call', ('member', ('id', 'candidates'), 'begin', False), [])
    ce = ('call', ('member', ('id', 'candidates'), 'end', False), [])
    lams = {}
    while st and st[0][0] == 'decl' and len(st[0][2]) == 1 and st[0][2][0][1] is not None and st[0][2][0][1][0] == 'lambda':
        lams[st[0][2][0][0]] = st[0][2][0][1]          # a named local predicate
        st = st[1:]
    if not st or st[-1] != ('return', ('id', 'candidates')):
        raise mc.Unsupported('best: body is no longer <for ...; return candidates;>: ' + mc.show(st))

    def one(x):
        return x[1][0] if x[0] == 'block' and len(x[1]) == 1 else x

    SPEC = OTHER = None
    if len(st) == 2:
        loop = st[0]
        if not (loop[0] == 'rangefor' and isinstance(loop[1], str) and loop[2] == ('id', 'candidates')):
            raise mc.Unsupported('best: loop is no longer `for (auto spec : candidates)`: ' + mc.show(loop[:3]))
        SPEC = loop[1]
        inner = one(loop[3])
        if not (inner[0] == 'if' and not inner[1] and inner[4] is None):
            raise mc.Unsupported('best: loop body is no longer a single if without else: ' + mc.show(inner))
        if one(inner[3]) != ('return', ('initlist', [('id', SPEC)])):
            raise mc.Unsupported('best: the if no longer returns {spec}: ' + mc.show(inner[3]))
        cond = inner[2]
    elif len(st) == 3:
        # auto w = std::find_if(candidates.begin(), candidates.end(), P); if (w != candidates.end()) return {*w};
        #    is    for (auto spec : candidates) if (P(spec)) return {spec};       (find_if: the first element, in order, that satisfies P)
        d, iff = st[0], st[1]
        ok = (d[0] == 'decl' and len(d[2]) == 1 and d[2][0][1] is not None and d[2][0][1][0] == 'call' and d[2][0][1][1] == ('id', 'std::find_if')
              and len(d[2][0][1][2]) == 3 and d[2][0][1][2][:2] == [cb, ce])
        if ok:
            w = ('id', d[2][0][0])
            ok = (iff[0] == 'if' and not iff[1] and iff[4] is None and iff[2] in (('bin', '!=', w, ce), ('bin', '!=', ce, w))
                  and one(iff[3]) == ('return', ('initlist', [('un', '*', w)])))
        if not ok:
            raise mc.Unsupported('best: body is neither the loop nor <find_if; if (found) return {*found}; return candidates;>: ' + mc.show(st))
        P = d[2][0][1][2][2]
        if P[0] == 'id' and P[1] in lams:
            P = lams[P[1]]
        if P[0] != 'lambda' or len(P[2]) != 1:
            raise mc.Unsupported('best: the predicate handed to find_if is not a lambda of one parameter: ' + mc.show(P))
        SPEC = P[2][0]
        pb = [x for x in P[3][1] if x != ('using',)]
        if len(pb) == 1 and pb[0][0] == 'return' and pb[0][1] is not None:
            cond = pb[0][1]
        elif (len(pb) == 2 and pb[0][0] == 'rangefor' and isinstance(pb[0][1], str) and pb[0][2] == ('id', 'candidates') and pb[1] == ('return', ('bool', True))
              and one(pb[0][3])[0] == 'if' and not one(pb[0][3])[1] and one(pb[0][3])[4] is None and one(one(pb[0][3])[3]) == ('return', ('bool', False))):
            # for (other : candidates) if (C) return false;  return true;      is      all_of(candidates, !C)
            cond = ('call', ('id', 'std::all_of'), [cb, ce, ('lambda', [SPEC], [pb[0][1]], ('block', [('return', ('un', '!', one(pb[0][3])[2]))]))])
        else:
            raise mc.Unsupported('best: the predicate is neither a single return nor <for (other : candidates) if (...) return false; return true;>: ' + mc.show(pb))
    else:
        raise mc.Unsupported('best: body is no longer <for ...; return candidates;>: ' + mc.show(st))
    none_of = cond[0] == 'call' and cond[1] == ('id', 'std::none_of')          # none_of(p) is all_of(!p)
    if not (cond[0] == 'call' and cond[1] in (('id', 'std::all_of'), ('id', 'std::none_of')) and len(cond[2]) == 3 and cond[2][0] == cb and cond[2][1] == ce
            and cond[2][2][0] == 'lambda'):
        raise mc.Unsupported('best: condition is no longer std::all_of(candidates.begin(), candidates.end(), <lambda>): ' + mc.show(cond))
    lam = cond[2][2]
    if [c.lstrip('&') for c in lam[1] if c not in ('&', '=')] not in ([SPEC], []) or len(lam[2]) != 1 or lam[2][0] == SPEC:
        raise mc.Unsupported('best: lambda is no longer [spec](auto other): captures %r params %r' % (lam[1], lam[2]))
    OTHER = lam[2][0]
    lb = [x for x in lam[3][1] if x != ('using',)]
    if len(lb) != 1 or lb[0][0] != 'return' or lb[0][1] is None:
        raise mc.Unsupported('best: lambda body is not a single return: ' + mc.show(lb))

    def who(e):
        if e == ('id', SPEC):
            return 'WSpec'
        if e == ('id', OTHER):
            return 'WOther'
        raise mc.Unsupported('best: predicate mentions something else than spec / other: ' + mc.show(e))

    def pred(e):
        k = e[0]
        if k == 'bin' and e[1] in ('||', '&&'):
            return '(%s %s %s)' % ('BOr' if e[1] == '||' else 'BAnd', pred(e[2]), pred(e[3]))
        if k == 'un' and e[1] == '!':
            return '(BNot %s)' % pred(e[2])
        if k == 'bin' and e[1] == '==':
            return '(BSame %s %s)' % (who(e[2]), who(e[3]))
        if k == 'bin' and e[1] == '!=':
            return '(BNot (BSame %s %s))' % (who(e[2]), who(e[3]))
        if k == 'call' and e[1] in (('id', 'is_more_specific'), ('id', 'is_base')) and len(e[2]) == 2:
            return '(%s %s %s)' % ('BMoreSpecific' if e[1][1] == 'is_more_specific' else 'BIsBase', who(e[2][0]), who(e[2][1]))
        raise mc.Unsupported('best: predicate not in the subset: ' + mc.show(e))

    return '(BNot %s)' % pred(lb[0][1]) if none_of else pred(lb[0][1])


def main():
    try:
        src = mc.strip_comments(open(SRC).read())
    except OSError as e:
        die('cannot read %s: %s' % (SRC, e))
    try:
        ims = pair_function(src, 'is_more_specific')
        isb = pair_function(src, 'is_base')
        best = best_function(src)
    except mc.Unsupported as e:
        die(str(e))
    text = ('(* GENERATED by translators/ordering.py from %s - do not edit.\n'
            '   compiler<Policy>::is_more_specific, is_base and the predicate of best, translated into the language of\n'
            '   Model/MiniOrd.v. *)\n'
            'From Coq Require Import List.\nFrom Y2 Require Import Model.MiniOrd.\n\n'
            'Definition gen_is_more_specific : pairfn :=\n  %s.\n\n'
            'Definition gen_is_base : pairfn :=\n  %s.\n\n'
            'Definition gen_best_pred : bexp := %s.\n' % (SRC, ims, isb, best))
    vlib.write_if_changed(os.path.join(vlib.COQ, 'Gen', 'GenOrdering.v'), text)


if __name__ == '__main__':
    main()
