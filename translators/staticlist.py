#!/usr/bin/env python3
"""/repo/include/yorel/yomm2/detail/static_list.hpp  ->  coq/Gen/GenStaticList.v      (property C18)

Source-to-Gallina translation of the member functions of static_list<T>: the bodies of push_back, remove, clear,
both iterators' operator++ / begin / end / operator!= and empty are parsed (translators/_minicpp.py) and lowered,
statement by statement, to the pointer language of coq/Model/MiniPtr.v.  Proofs/StaticListSource.v then proves that
interpreting the translated bodies is exactly Model.Catalog's push_back / remove / clear / iterate / empty, so the
C18 theorems are re-checked against what the header says on every run.  The translator refuses (exit 3, naming the
construct) anything outside the subset; it never guesses.

Lowering (T& node is the reference parameter; `first` the list head; locals are declared with auto):
    nullptr -> PNull      first -> PFirst      &node -> PNode      x -> PVar "x"
    node.prev_ptr -> PFld PNode FPrev          e->next_ptr -> PFld e FNext
    !e -> BNot e   a == b -> BEq a b   a != b -> BNe a b   e (in a condition) -> BPtr e
    BOOST_ASSERT(b); -> SAssert b      auto x = e; -> SDecl "x" e      x = e; -> SSetVar      first = e; -> SSetFirst
    e->f = q; / node.f = q; -> SSetFld    if / while / return; -> SIf / SWhile / SReturn
"""
import os, re, sys

sys.path.insert(0, os.path.dirname(os.path.abspath(__file__)))
sys.path.insert(0, os.path.join(os.path.dirname(os.path.abspath(__file__)), '..', 'tools'))
import vlib
import _minicpp as mc

REPO = os.environ.get('VERIF_REPO', '/repo')
SRC = os.path.join(REPO, 'include/yorel/yomm2/detail/static_list.hpp')
FLD = {'prev_ptr': 'FPrev', 'next_ptr': 'FNext'}


def die(msg):
    sys.stderr.write('staticlist.py: ' + msg + '\n')
    print('staticlist.py: ' + msg)
    sys.exit(3)


class Lower:
    def __init__(self, fname, param, prebound=(), param_ptr='PNode', helpers=None):
        self.fname = fname
        self.param = param          # name of the T& parameter, or None
        self.param_ptr = param_ptr  # the pointer expression designating that object (PNode for the function's own parameter)
        self.locals = set(prebound)
        self.bools = set()          # locals declared `const bool`
        self.declared = {}
        self.helpers = helpers or {}   # name -> (parameter name, body AST) of `static void name(T& p)` members, inlined at calls
        self.depth = 0

    def bad(self, what, node):
        raise mc.Unsupported('%s: %s: %s' % (self.fname, what, mc.show(node)))

    def p(self, e):
        k = e[0]
        if k == 'null':
            return 'PNull'
        if k == 'id':
            if e[1] == 'first' and 'first' not in self.locals:
                return 'PFirst'
            if e[1] in self.locals:
                return '(PVar "%s")' % e[1]
            self.bad('unknown name in a pointer expression', e)
        if k == 'un' and e[1] == '&' and e[2] == ('id', self.param):
            return self.param_ptr
        if k == 'member':
            base, name, arrow = e[1], e[2], e[3]
            if name not in FLD:
                self.bad('unknown field', e)
            if not arrow:
                if base == ('id', self.param):
                    return '(PFld %s %s)' % (self.param_ptr, FLD[name])
                self.bad('member access with . on something else than the reference parameter', e)
            return '(PFld %s %s)' % (self.p(base), FLD[name])
        self.bad('pointer expression not in the subset', e)

    def b(self, e):
        k = e[0]
        if k == 'un' and e[1] == '!':
            return '(BNot %s)' % self.b(e[2])
        if k == 'bin' and e[1] == '==':
            return '(BEq %s %s)' % (self.p(e[2]), self.p(e[3]))
        if k == 'bin' and e[1] == '!=':
            return '(BNe %s %s)' % (self.p(e[2]), self.p(e[3]))
        if k == 'bin' and e[1] in ('&&', '||'):
            return '(%s %s %s)' % ('BAnd' if e[1] == '&&' else 'BOr', self.b(e[2]), self.b(e[3]))
        if k == 'id' and e[1] in self.bools:
            return '(BVar "%s")' % e[1]
        if k in ('bin', 'cond', 'assign', 'comma', 'call'):
            self.bad('condition not in the subset', e)
        return '(BPtr %s)' % self.p(e)

    def desugar(self, stmts):
        """auto x = std::exchange(a, b);   is   auto x = a; a = b;       (x is new, so it occurs neither in a nor in b)
           for (INIT; COND;) BODY          is   INIT; while (COND) BODY  (one declaration site per name is required anyway)"""
        out = []
        for st in stmts:
            if st[0] == 'for' and st[3] is None and st[1] is not None and st[2] is not None:
                out.extend(self.desugar([st[1]]))
                out.append(('while', st[2], st[4]))
                continue
            if (st[0] == 'decl' and len(st[2]) == 1 and st[2][0][1] is not None and st[2][0][1][0] == 'call'
                    and st[2][0][1][1] == ('id', 'std::exchange') and len(st[2][0][1][2]) == 2):
                a, b = st[2][0][1][2]
                out.append(('decl', st[1], [(st[2][0][0], a)]))
                out.append(('expr', ('assign', '=', a, b)))
                continue
            out.append(st)
        return out

    def seq(self, stmts):
        out = [self.s(x) for x in self.desugar(stmts)]
        out = [x for x in out if x != 'SSkip']
        if not out:
            return 'SSkip'
        r = out[-1]
        for x in reversed(out[:-1]):
            r = '(SSeq %s\n %s)' % (x, r)
        return r

    def s(self, st):
        k = st[0]
        if k == 'block':
            return self.seq(st[1])
        if k == 'using':
            return 'SSkip'
        if k == 'if':
            if st[1]:
                self.bad('if constexpr', st)
            return '(SIf %s %s %s)' % (self.b(st[2]), self.s(st[3]), self.s(st[4]) if st[4] else 'SSkip')
        if k == 'while':
            return '(SWhile %s %s)' % (self.b(st[1]), self.s(st[2]))
        if k == 'return':
            if st[1] is None or st[1] == ('un', '*', ('this',)):
                return 'SReturn'
            self.bad('return with a value', st)
        if k == 'decl' and st[1] in ('const bool', 'bool'):
            if self.depth:
                self.bad('declaration inside an inlined helper', st)
            out = []
            for name, init in st[2]:
                if init is None or name in self.declared or name in ('first', self.param):
                    self.bad('bool local without initialiser / declared twice', st)
                val = self.b(init)
                self.declared[name] = True
                self.bools.add(name)
                out.append('(SDeclB "%s" %s)' % (name, val))
            r = out[-1]
            for x in reversed(out[:-1]):
                r = '(SSeq %s %s)' % (x, r)
            return r
        if k == 'decl':
            if self.depth:
                self.bad('declaration inside an inlined helper', st)
            if st[1] != 'auto':
                self.bad('declaration with a type other than auto', st)
            out = []
            for name, init in st[2]:
                if init is None:
                    self.bad('declaration without initialiser', st)
                if name in self.declared or name in ('first', self.param):
                    self.bad('name declared twice / shadows (one declaration site per name is required)', st)
                val = self.p(init)
                self.declared[name] = True
                self.locals.add(name)
                out.append('(SDecl "%s" %s)' % (name, val))
            r = out[-1]
            for x in reversed(out[:-1]):
                r = '(SSeq %s %s)' % (x, r)
            return r
        if k == 'expr':
            e = st[1]
            if e[0] == 'call' and e[1] == ('id', 'BOOST_ASSERT') and len(e[2]) == 1:
                return '(SAssert %s)' % self.b(e[2][0])
            if e[0] == 'call' and e[1][0] == 'id' and e[1][1] in self.helpers and len(e[2]) == 1:
                # a call of a `static void helper(T& p)` member: its body, with p standing for the argument object
                hp, hbody = self.helpers[e[1][1]]
                arg = e[2][0]
                if arg == ('id', self.param):
                    ptr = self.param_ptr
                elif arg[0] == 'un' and arg[1] == '*':
                    ptr = self.p(arg[2])
                else:
                    self.bad('argument of an inlined helper call', st)
                if self.depth > 3:
                    self.bad('helper calls nested too deep', st)
                sub = Lower(self.fname + '/' + e[1][1], hp, param_ptr=ptr, helpers=self.helpers)
                sub.locals = set(self.locals)
                sub.bools = set(self.bools)
                sub.depth = self.depth + 1
                body = [x for x in hbody[1] if x != ('return', None)]
                if len(body) != len(hbody[1]) and hbody[1][-1] != ('return', None):
                    self.bad('inlined helper returns in the middle', st)
                return sub.seq(body)
            if e[0] == 'assign' and e[1] == '=':
                lhs, rhs = e[2], e[3]
                if lhs == ('id', 'first') and 'first' not in self.locals:
                    return '(SSetFirst %s)' % self.p(rhs)
                if lhs[0] == 'id' and lhs[1] in self.locals:
                    return '(SSetVar "%s" %s)' % (lhs[1], self.p(rhs))
                if lhs[0] == 'member' and lhs[2] in FLD:
                    base = self.param_ptr if (not lhs[3] and lhs[1] == ('id', self.param)) else (self.p(lhs[1]) if lhs[3] else None)
                    if base is None:
                        self.bad('assignment target', st)
                    return '(SSetFld %s %s %s)' % (base, FLD[lhs[2]], self.p(rhs))
            self.bad('expression statement not in the subset', st)
        self.bad('statement not in the subset', st)


def class_region(src, cls):
    """text of `class <cls> { ... }` nested in the header"""
    m = re.search(r'\bclass\s+%s\s*\{' % cls, src)
    if not m:
        die('class %s not found' % cls)
    b = m.end() - 1
    return src[b:mc.balanced(src, b, '{', '}')]


def main():
    try:
        src = mc.strip_comments(open(SRC).read())
    except OSError as e:
        die('cannot read %s: %s' % (SRC, e))
    out = []
    try:
        helpers = {}

        def fn(region, header_re, name, param, prebound=()):
            params, body, line = mc.find_function(region, header_re, name)
            ast = mc.parse_function_body(body)
            lw = Lower(name, param, prebound, helpers=helpers)
            return lw.s(ast), params.strip()

        # the mutators are members of static_list itself: take them from the text outside the nested classes
        outer = src
        for cls in ('static_link', 'iterator', 'const_iterator'):
            outer = outer.replace(class_region(src, cls), '{}')
        # private helpers `static void name(T& p) {...}`: inlined where they are called
        for hm in re.finditer(r'\bstatic\s+void\s+(\w+)\s*\(\s*T\s*&\s*(\w+)\s*\)\s*\{', outer):
            b = hm.end() - 1
            helpers[hm.group(1)] = (hm.group(2), mc.parse_function_body(outer[b:mc.balanced(outer, b, '{', '}')]))
        for name in ('push_back', 'remove'):
            body, params = fn(outer, r'\bvoid\s+%s\b' % name, name, 'node')
            if not re.fullmatch(r'T\s*&\s*node', params):
                raise mc.Unsupported('%s: parameter list is no longer (T& node): %s' % (name, params))
            out.append('Definition %s_body : stmt :=\n %s.\n' % (name, body))
        body, params = fn(outer, r'\bvoid\s+clear\b', 'clear', None)
        if params:
            raise mc.Unsupported('clear: takes parameters now: ' + params)
        out.append('Definition clear_body : stmt :=\n %s.\n' % body)
        # the local the loop of clear() runs on (the one its condition tests)
        cm = re.search(r'\(SWhile \(BPtr \(PVar "(\w+)"\)\)', body)
        if not cm:
            raise mc.Unsupported('clear: the loop condition is no longer a local pointer')
        out.append('Definition clear_cursor : string := "%s".\n' % cm.group(1))

        # bool empty() const { return !first; }   -> the returned condition
        params, body, _ = mc.find_function(outer, r'\bbool\s+empty\b', 'empty')
        ast = mc.parse_function_body(body)
        if len(ast[1]) != 1 or ast[1][0][0] != 'return':
            raise mc.Unsupported('empty: body is not a single return')
        out.append('Definition empty_cond : bexpr := %s.\n' % Lower('empty', None).b(ast[1][0][1]))

        # iteration protocol, for both iterator classes (they must agree)
        protos = []
        for cls in ('iterator', 'const_iterator'):
            reg = class_region(src, cls)
            incr, params = fn(reg, r'\b%s\s*&\s*operator\s*\+\+' % cls, cls + '::operator++', None, prebound=('ptr',))
            if params:
                raise mc.Unsupported(cls + '::operator++(): unexpected parameters ' + params)
            # friend bool operator!=(const X& a, const X& b) { return a.ptr != b.ptr; }
            params, body, _ = mc.find_function(reg, r'\boperator\s*!=', cls + '::operator!=')
            ast = mc.parse_function_body(body)
            want = ('return', ('bin', '!=', ('member', ('id', 'a'), 'ptr', False), ('member', ('id', 'b'), 'ptr', False)))
            if ast[1] != [want]:
                raise mc.Unsupported(cls + '::operator!= is no longer `return a.ptr != b.ptr;`: ' + mc.show(ast))
            # begin() / end()
            ends = []
            for which in ('begin', 'end'):
                params, body, _ = mc.find_function(outer, r'\b%s\s+%s\b' % (cls, which), which)
                ast = mc.parse_function_body(body)
                if len(ast[1]) != 1 or ast[1][0][0] != 'return' or ast[1][0][1][0] != 'call' or ast[1][0][1][1] != ('id', cls) \
                        or len(ast[1][0][1][2]) != 1:
                    raise mc.Unsupported('%s() is no longer `return %s(<pointer>);`: %s' % (which, cls, mc.show(ast)))
                ends.append(Lower(which, None).p(ast[1][0][1][2][0]))
            # explicit X(T* p) : ptr(p) {}
            if not re.search(r'explicit\s+%s\s*\(\s*T\s*\*\s*p\s*\)\s*:\s*ptr\s*\(\s*p\s*\)\s*\{\s*\}' % cls, reg):
                raise mc.Unsupported(cls + ': constructor from T* no longer initialises ptr with its argument')
            protos.append((incr, ends[0], ends[1]))
        if protos[0] != protos[1]:
            raise mc.Unsupported('iterator and const_iterator differ: %r vs %r' % protos)
        incr, beg, end = protos[0]
        out.append('Definition iter_incr_body : stmt :=\n %s.\n' % incr)
        out.append('Definition iter_begin : pexpr := %s.\nDefinition iter_end : pexpr := %s.\n' % (beg, end))
        # size() is std::distance(begin(), end())
        params, body, _ = mc.find_function(outer, r'\bstd::size_t\s+size\b', 'size')
        ast = mc.parse_function_body(body)
        want = ('return', ('call', ('id', 'std::distance'), [('call', ('id', 'begin'), []), ('call', ('id', 'end'), [])]))
        if ast[1] != [want]:
            raise mc.Unsupported('size() is no longer std::distance(begin(), end()): ' + mc.show(ast))
    except mc.Unsupported as e:
        die(str(e))
    text = ('(* GENERATED by translators/staticlist.py from %s - do not edit.\n'
            '   The bodies of static_list<T>::push_back / remove / clear, the iteration protocol and empty(), translated\n'
            '   statement by statement into the pointer language of Model/MiniPtr.v. *)\n'
            'From Coq Require Import String List.\nFrom Y2 Require Import Model.MiniPtr.\nLocal Open Scope string_scope.\n\n'
            % SRC) + '\n'.join(out)
    vlib.write_if_changed(os.path.join(vlib.COQ, 'Gen', 'GenStaticList.v'), text)


if __name__ == '__main__':
    main()
