"""A small C++ reader for the translators: tokenizer + recursive-descent parser for the statement / expression subset
used by the library functions that are translated into Gallina (static_list, the ordering functions of the compiler,
the resolve walk).  It produces a plain tuple AST; each translator *lowers* that AST to the deep embedding of its own
model and refuses (Unsupported) whatever it cannot give a meaning to.  Nothing here guesses: an unknown construct is an
error that names the construct and the source position.

Statements
  ('block', [s...])                      { ... }
  ('if', is_constexpr, cond, then, els)  els may be None; then/els are statements
  ('for', init, cond, step, body)        init: statement or None; cond: expr or None; step: expr or None
  ('rangefor', name, expr, body)         for (auto name : expr)
  ('while', cond, body)
  ('return', expr or None)
  ('decl', type_text, [(name, init or None)...])
  ('expr', e)
  ('continue',) ('break',) ('using',)
Expressions
  ('id', 'a::b')  ('num', n)  ('null',)  ('bool', b)  ('this',)
  ('un', op, e)   ('post', op, e)   ('bin', op, l, r)   ('assign', op, l, r)   ('cond', c, a, b)   ('comma', l, r)
  ('member', e, name, is_arrow)  ('call', f, [args])  ('index', e, i)  ('initlist', [e...])
  ('tmpl', name, [targ_text...])           a template-id such as mp_rest<MethodArgList>; arguments kept as token text
  ('lambda', [captures], [params], body)
  ('cast', kind, type_text, e)             reinterpret_cast<T>(e) and friends
"""
import re


class Unsupported(Exception):
    pass


TOKEN_RE = re.compile(r'''
    (?P<ws>\s+)
  | (?P<num>0[xX][0-9a-fA-F]+[uUlL]*|\d+[uUlL]*)
  | (?P<id>[A-Za-z_]\w*)
  | (?P<str>"(?:[^"\\]|\\.)*")
  | (?P<chr>'(?:[^'\\]|\\.)')
  | (?P<op>\.\.\.|<<=|>>=|->\*|::|->|\+\+|--|<<|>>|<=|>=|==|!=|&&|\|\||\+=|-=|\*=|/=|%=|&=|\|=|\^=|[-+*/%<>=!&|^~?:;,.(){}\[\]])
''', re.X)


_LIT_OR_COMMENT = re.compile(r'''R"\((?:.|\n)*?\)"|"(?:[^"\\\n]|\\.)*"|'(?:[^'\\\n]|\\.)+'|//[^\n]*|/\*(?:.|\n)*?\*/''')


def strip_comments(s):
    """comments out (a block comment keeps its line breaks); string and character literals are left alone, so that
    a `//` inside a literal is not taken for a comment"""
    def rep(m):
        t = m.group(0)
        if t.startswith('//'):
            return ''
        if t.startswith('/*'):
            return re.sub(r'[^\n]', ' ', t)
        return t
    return _LIT_OR_COMMENT.sub(rep, s)


def drop_trace(body):
    """remove what only produces trace output: `++trace << ...;`, `trace << ...;`, `indent _(trace);` and whole
    `if constexpr (trace_enabled) { ... }` blocks (without else)"""
    while True:
        m = re.search(r'\bif\s+constexpr\s*\(\s*trace_enabled\s*\)\s*\{', body)
        if not m:
            break
        e = balanced(body, m.end() - 1, '{', '}')
        if re.match(r'\s*else\b', body[e:]):
            raise Unsupported('`if constexpr (trace_enabled)` with an else branch')
        body = body[:m.start()] + body[e:]
    body = re.sub(r'(?m)^\s*(\+\+trace|trace\s*<<)[^;]*;', '', body)
    body = re.sub(r'(?m)^\s*indent\s+_\w*\(trace\);', '', body)
    return body


def tokenize(text):
    toks = []
    pos = 0
    line = 1
    while pos < len(text):
        m = TOKEN_RE.match(text, pos)
        if not m:
            raise Unsupported('cannot tokenize at line %d: %r' % (line, text[pos:pos + 30]))
        kind = m.lastgroup
        val = m.group(0)
        if kind != 'ws':
            toks.append((kind, val, line))
        line += val.count('\n')
        pos = m.end()
    return toks


_LITERAL = re.compile('R"\\((?:.|\\n)*?\\)"|"(?:[^"\\\\\\n]|\\\\.)*"|\'(?:[^\'\\\\\\n]|\\\\.)\'')


def balanced(text, start, open_ch, close_ch):
    """index just after the bracket that closes the one at text[start]"""
    assert text[start] == open_ch
    depth = 0
    i = start
    lit = _LITERAL
    while i < len(text):
        c = text[i]
        if c in '"\'' or (c == 'R' and text[i:i + 3] == 'R"('):
            m = lit.match(text, i)          # brackets inside a string or character literal do not count
            if m:
                i = m.end()
                continue
        if c == open_ch:
            depth += 1
        elif c == close_ch:
            depth -= 1
            if depth == 0:
                return i + 1
        i += 1
    raise Unsupported('unbalanced %s' % open_ch)


def find_function(src, header_re, what):
    """Find the unique function definition whose header matches header_re (a regex that ends just before the
    parameter list's '('); returns (params_text, body_text_including_braces, line_number).  `src` must be
    comment-stripped."""
    ms = [m for m in re.finditer(header_re, src)]
    found = []
    for m in ms:
        i = m.end()
        while i < len(src) and src[i].isspace():
            i += 1
        if i >= len(src) or src[i] != '(':
            continue
        j = balanced(src, i, '(', ')')
        k = j
        # qualifiers between ')' and '{'
        mm = re.match(r'\s*(const)?\s*(noexcept)?\s*(->\s*[\w:<>\s\*&]+?)?\s*\{', src[k:])
        if not mm:
            continue  # a declaration or a call
        b = k + mm.end() - 1
        e = balanced(src, b, '{', '}')
        found.append((src[i + 1:j - 1], src[b:e], src.count('\n', 0, m.start()) + 1))
    if len(found) != 1:
        raise Unsupported('%s: expected exactly one definition, found %d (header regex %s)' % (what, len(found), header_re))
    return found[0]


TYPE_START = {'auto', 'const', 'bool', 'int', 'unsigned', 'char', 'long', 'short', 'size_t', 'void', 'static', 'constexpr',
              'std::size_t', 'std::uintptr_t', 'std::uint16_t', 'std::uint32_t', 'std::ptrdiff_t', 'uintptr_t', 'type_id', 'std::vector'}

BINARY_PREC = [
    ('||',), ('&&',), ('|',), ('^',), ('&',), ('==', '!='), ('<', '>', '<=', '>='), ('<<', '>>'), ('+', '-'), ('*', '/', '%'),
]
ASSIGN_OPS = {'=', '+=', '-=', '*=', '/=', '%=', '&=', '|=', '^=', '<<=', '>>='}


class Parser:
    def __init__(self, toks, template_names=()):
        self.t = toks
        self.i = 0
        self.template_names = set(template_names)

    # ---- token helpers
    def peek(self, k=0):
        return self.t[self.i + k] if self.i + k < len(self.t) else ('eof', '', -1)

    def at(self, val, k=0):
        return self.peek(k)[1] == val and self.peek(k)[0] != 'str'

    def next(self):
        tok = self.peek()
        self.i += 1
        return tok

    def expect(self, val):
        tok = self.next()
        if tok[1] != val:
            raise Unsupported('line %s: expected %r, found %r' % (tok[2], val, tok[1]))
        return tok

    def err(self, msg):
        tok = self.peek()
        raise Unsupported('line %s: %s (at %r)' % (tok[2], msg, tok[1]))

    # ---- names
    def qualified_name(self):
        """id (:: [template] id)*  -> 'a::b' ; a leading :: is kept"""
        parts = []
        if self.at('::'):
            self.next(); parts.append('')
        tok = self.next()
        if tok[0] != 'id':
            raise Unsupported('line %s: identifier expected, found %r' % (tok[2], tok[1]))
        parts.append(tok[1])
        while self.at('::') and (self.peek(1)[0] == 'id'):
            self.next()
            if self.at('template'):
                self.next()
            parts.append(self.next()[1])
        return '::'.join(parts)

    def template_args(self):
        """at '<' : balanced <...>; returns list of argument texts (split at top-level commas)"""
        self.expect('<')
        depth = 1
        paren = 0
        args = [[]]
        while True:
            tok = self.next()
            if tok[0] == 'eof':
                raise Unsupported('unterminated template argument list')
            v = tok[1]
            if v in '([{' and tok[0] == 'op':
                paren += 1
            elif v in ')]}' and tok[0] == 'op':
                paren -= 1
            elif v == '<' and paren == 0:
                depth += 1
            elif v == '>' and paren == 0:
                depth -= 1
                if depth == 0:
                    break
            elif v == '>>' and paren == 0:
                depth -= 2
                if depth <= 0:
                    if depth < 0:
                        raise Unsupported('line %s: unbalanced >>' % tok[2])
                    args[-1].append('>')
                    break
            elif v == ',' and paren == 0 and depth == 1:
                args.append([])
                continue
            args[-1].append(v)
        return [' '.join(a) for a in args]

    # ---- statements
    def parse_block(self):
        self.expect('{')
        out = []
        while not self.at('}'):
            if self.peek()[0] == 'eof':
                self.err('unterminated block')
            out.append(self.parse_stmt())
        self.expect('}')
        return ('block', out)

    def looks_like_decl(self):
        k, v, _ = self.peek()
        if k != 'id':
            return False
        if v == 'decltype' and self.at('(', 1):
            # decltype(e) name ...
            depth = 0; j = 1
            while True:
                t = self.peek(j)
                if t[0] == 'eof':
                    return False
                if t[1] == '(':
                    depth += 1
                elif t[1] == ')':
                    depth -= 1
                    if depth == 0:
                        break
                j += 1
            return self.peek(j + 1)[0] == 'id' and self.peek(j + 2)[1] in ('=', ';', ',', '(', '{')
        if v in ('auto', 'const', 'bool', 'int', 'unsigned', 'static', 'constexpr', 'type_id'):
            return True
        if v in ('return', 'if', 'for', 'while', 'else', 'break', 'continue', 'this', 'new', 'delete', 'sizeof', 'nullptr', 'true', 'false'):
            return False
        # <type> <name> followed by = ; , ( {   (an expression statement cannot start with two adjacent names)
        save = self.i
        try:
            name = self.qualified_name()
            if name in TYPE_START:
                return True
            if self.at('<'):
                self.template_args()
            while self.at('*') or self.at('&'):
                self.next()
            nm = self.peek()
            fol = self.peek(1)
            return nm[0] == 'id' and fol[0] == 'op' and fol[1] in ('=', ';', ',', '(', '{')
        except Unsupported:
            return False
        finally:
            self.i = save

    def parse_type_text(self):
        """consume a (simple) type; stops before the declared name"""
        parts = []
        while True:
            if self.at('const') or self.at('static') or self.at('constexpr') or self.at('unsigned'):
                parts.append(self.next()[1]); continue
            break
        if self.at('decltype') and self.at('(', 1):
            self.next(); self.next()
            depth = 1; txt = []
            while depth:
                t = self.next()
                if t[1] == '(':
                    depth += 1
                elif t[1] == ')':
                    depth -= 1
                    if depth == 0:
                        break
                txt.append(t[1])
            parts.append('decltype(' + ''.join(txt) + ')')
            while self.at('*') or self.at('&') or self.at('const'):
                parts.append(self.next()[1])
            return ' '.join(parts)
        name = self.qualified_name()
        parts.append(name)
        if self.at('<'):
            parts.append('<' + ', '.join(self.template_args()) + '>')
        while self.at('*') or self.at('&') or self.at('const'):
            parts.append(self.next()[1])
        return ' '.join(parts)

    def parse_decl(self):
        ty = self.parse_type_text()
        decls = []
        while True:
            stars = ''
            while self.at('*') or self.at('&'):
                stars += self.next()[1]
            tok = self.next()
            if tok[0] != 'id':
                raise Unsupported('line %s: declared name expected, found %r' % (tok[2], tok[1]))
            init = None
            if self.at('['):
                # array declarator: name[<size tokens>]
                self.next()
                depth, toks = 1, []
                while depth:
                    tk = self.next()
                    if tk[0] == 'eof':
                        raise Unsupported('unterminated array declarator')
                    if tk[1] == '[':
                        depth += 1
                    elif tk[1] == ']':
                        depth -= 1
                        if depth == 0:
                            break
                    toks.append(tk[1])
                init = ('array', ''.join(toks))
            elif self.at('='):
                self.next()
                init = self.parse_initlist() if self.at('{') else self.parse_assign()
            elif self.at('{'):
                init = self.parse_initlist()
            elif self.at('('):
                self.next()
                args = self.parse_args(')')
                init = ('ctor', args)
            decls.append((tok[1], init) if not stars else (tok[1], init))
            if self.at(','):
                self.next(); continue
            break
        return ('decl', ty, decls)

    def parse_stmt(self):
        k, v, line = self.peek()
        if v == '{' and k == 'op':
            return self.parse_block()
        if v == ';' and k == 'op':
            self.next(); return ('block', [])
        if k == 'id':
            if v == 'if':
                self.next()
                cx = False
                if self.at('constexpr'):
                    self.next(); cx = True
                self.expect('(')
                c = self.parse_expr()
                self.expect(')')
                th = self.parse_stmt()
                el = None
                if self.at('else'):
                    self.next(); el = self.parse_stmt()
                return ('if', cx, c, th, el)
            if v == 'for':
                self.next(); self.expect('(')
                # range-for?
                save = self.i
                if self.looks_like_decl():
                    var = None
                    try:
                        self.parse_type_text()
                        if self.at('['):
                            # structured binding:  for (const auto& [a, b] : e)
                            self.next()
                            names = []
                            while not self.at(']'):
                                t = self.next()
                                if t[0] != 'id':
                                    raise Unsupported('structured binding')
                                names.append(t[1])
                                if self.at(','):
                                    self.next()
                            self.next()
                            if self.at(':'):
                                var = tuple(names)
                        else:
                            nm = self.next()
                            if nm[0] == 'id' and self.at(':'):
                                var = nm[1]
                    except Unsupported:
                        var = None
                    if var is not None:
                        self.next()
                        e = self.parse_expr()
                        self.expect(')')
                        body = self.parse_stmt()
                        return ('rangefor', var, e, body)
                    self.i = save
                init = None
                if not self.at(';'):
                    init = self.parse_decl() if self.looks_like_decl() else ('expr', self.parse_expr())
                self.expect(';')
                cond = None if self.at(';') else self.parse_expr()
                self.expect(';')
                step = None if self.at(')') else self.parse_expr()
                self.expect(')')
                body = self.parse_stmt()
                return ('for', init, cond, step, body)
            if v == 'while':
                self.next(); self.expect('(')
                c = self.parse_expr(); self.expect(')')
                return ('while', c, self.parse_stmt())
            if v == 'return':
                self.next()
                if self.at(';'):
                    self.next(); return ('return', None)
                e = self.parse_initlist() if self.at('{') else self.parse_expr()
                self.expect(';')
                return ('return', e)
            if v == 'continue':
                self.next(); self.expect(';'); return ('continue',)
            if v == 'break':
                self.next(); self.expect(';'); return ('break',)
            if v == 'using':
                self.next()
                toks = []
                while not self.at(';'):
                    toks.append(self.next()[1])
                self.next()
                if toks and toks[0] != 'namespace' and '=' in toks:
                    # using name = type;   -> ('alias', name, type text without blanks)
                    i = toks.index('=')
                    return ('alias', ' '.join(toks[:i]), ''.join(toks[i + 1:]))
                return ('using',)
            if v == 'do':
                self.next()
                body = self.parse_stmt()
                if not self.at('while'):
                    self.err('`while` expected after the body of do')
                self.next(); self.expect('(')
                c = self.parse_expr(); self.expect(')'); self.expect(';')
                return ('dowhile', body, c)
            if v in ('switch', 'try', 'goto', 'throw', 'case'):
                self.err('statement kind not supported')
            if self.looks_like_decl():
                d = self.parse_decl()
                self.expect(';')
                return d
        e = self.parse_expr()
        self.expect(';')
        return ('expr', e)

    # ---- expressions
    def parse_expr(self):
        e = self.parse_assign()
        while self.at(','):
            self.next()
            e = ('comma', e, self.parse_assign())
        return e

    def parse_assign(self):
        l = self.parse_cond()
        if self.peek()[0] == 'op' and self.peek()[1] in ASSIGN_OPS:
            op = self.next()[1]
            r = self.parse_initlist() if self.at('{') else self.parse_assign()
            return ('assign', op, l, r)
        return l

    def parse_cond(self):
        c = self.parse_bin(0)
        if self.at('?'):
            self.next()
            a = self.parse_assign()
            self.expect(':')
            b = self.parse_assign()
            return ('cond', c, a, b)
        return c

    def parse_bin(self, lvl):
        if lvl == len(BINARY_PREC):
            return self.parse_unary()
        l = self.parse_bin(lvl + 1)
        while self.peek()[0] == 'op' and self.peek()[1] in BINARY_PREC[lvl]:
            op = self.next()[1]
            r = self.parse_bin(lvl + 1)
            l = ('bin', op, l, r)
        return l

    def parse_unary(self):
        k, v, _ = self.peek()
        if k == 'op' and v in ('!', '&', '*', '++', '--', '-', '+', '~'):
            self.next()
            return ('un', v, self.parse_unary())
        if k == 'op' and v == '(':
            # C-style cast such as (uintptr_t)x or (char*)(p): recognised only for a parenthesised simple type
            save = self.i
            try:
                self.next()
                ty = self.parse_type_text()
                if self.at(')') and (ty.split()[0] in ('uintptr_t', 'std::uintptr_t', 'uint16_t', 'std::uint16_t', 'uint32_t', 'uint64_t', 'char', 'std::size_t', 'const', 'void', 'int', 'unsigned') or ty.rstrip().endswith('*')):
                    self.next()
                    return ('cast', 'c', ty, self.parse_unary())
            except Unsupported:
                pass
            self.i = save
        return self.parse_postfix()

    def parse_args(self, close):
        args = []
        if not self.at(close):
            while True:
                args.append(self.parse_initlist() if self.at('{') else self.parse_assign())
                if self.at('...'):
                    self.next(); args[-1] = ('pack', args[-1])
                if self.at(','):
                    self.next(); continue
                break
        self.expect(close)
        return args

    def parse_initlist(self):
        self.expect('{')
        return ('initlist', self.parse_args('}'))

    def parse_lambda(self):
        self.expect('[')
        caps = []
        while not self.at(']'):
            caps.append(self.next()[1])
        self.expect(']')
        params = []
        if self.at('('):
            self.next()
            cur = []
            depth = 0
            while not (self.at(')') and depth == 0):
                tok = self.next()
                if tok[1] == '(':
                    depth += 1
                if tok[1] == ')':
                    depth -= 1
                if tok[1] == ',' and depth == 0:
                    params.append(cur); cur = []
                else:
                    cur.append(tok[1])
            if cur:
                params.append(cur)
            self.expect(')')
        if self.at('->'):
            # trailing return type: skipped up to the body
            self.next()
            while not self.at('{'):
                if self.peek()[0] == 'eof':
                    self.err('unterminated lambda')
                self.next()
        body = self.parse_block()
        return ('lambda', [c for c in caps if c != ','], [p[-1] for p in params], body)

    def parse_primary(self):
        k, v, line = self.peek()
        if k == 'num':
            self.next()
            return ('num', int(re.sub(r'[uUlL]+$', '', v), 0))
        if k == 'chr':
            self.next()
            return ('chr', v)
        if k == 'str':
            self.next()
            return ('str', v)
        if k == 'op' and v == '(':
            self.next()
            if self.at('...') and self.at(',', 1):
                # unary left fold over the comma operator: (..., e)
                self.next(); self.next()
                e = self.parse_assign()
                self.expect(')')
                return ('fold', ',', e)
            e = self.parse_expr()
            self.expect(')')
            return e
        if k == 'op' and v == '[':
            return self.parse_lambda()
        if k == 'id' or (k == 'op' and v == '::'):
            if v == 'nullptr':
                self.next(); return ('null',)
            if v in ('true', 'false'):
                self.next(); return ('bool', v == 'true')
            if v == 'this':
                self.next(); return ('this',)
            if v in ('reinterpret_cast', 'static_cast', 'const_cast', 'dynamic_cast'):
                self.next()
                targs = self.template_args()
                self.expect('(')
                e = self.parse_expr()
                self.expect(')')
                return ('cast', v, ', '.join(targs), e)
            if v == 'sizeof':
                self.next()
                if self.at('...'):
                    self.next(); self.expect('(')
                    nm = self.next()
                    self.expect(')')
                    return ('sizeofpack', nm[1])
                self.expect('(')
                depth = 1; txt = []
                while depth:
                    tok = self.next()
                    if tok[1] == '(':
                        depth += 1
                    elif tok[1] == ')':
                        depth -= 1
                        if depth == 0:
                            break
                    txt.append(tok[1])
                return ('sizeof', ' '.join(txt))
            name = self.qualified_name()
            node = ('id', name)
            if self.at('{') and name not in ('do', 'else', 'try'):
                # braced temporary:  vtbl_entry{a, b, c}   range{first, last}
                return ('construct', name, self.parse_initlist()[1])
            # template-id: only for names the caller declared to be templates
            while self.at('<') and name.split('::')[-1] in self.template_names:
                targs = self.template_args()
                node = ('tmpl', name, targs)
                if self.at('::'):
                    # X<...>::member
                    self.next()
                    if self.at('template'):
                        self.next()
                    rest = self.qualified_name()
                    name = rest
                    node = ('scoped', node, rest)
                else:
                    break
            return node
        self.err('expression expected')

    def parse_postfix(self):
        e = self.parse_primary()
        while True:
            k, v, _ = self.peek()
            if k != 'op':
                break
            if v == '.' or v == '->':
                self.next()
                if self.at('template'):
                    self.next()
                nm = self.next()
                if nm[0] != 'id':
                    raise Unsupported('line %s: member name expected' % nm[2])
                node = ('member', e, nm[1], v == '->')
                if self.at('<') and nm[1] in self.template_names:
                    targs = self.template_args()
                    node = ('member_tmpl', e, nm[1], v == '->', targs)
                e = node
            elif v == '(':
                self.next()
                e = ('call', e, self.parse_args(')'))
            elif v == '[':
                self.next()
                i = self.parse_expr()
                self.expect(']')
                e = ('index', e, i)
            elif v == '++' or v == '--':
                self.next()
                e = ('post', v, e)
            else:
                break
        return e


def canon(n):
    """spelling-only normalisation of a parsed body, applied before any translator looks at it (each rule rewrites a
    statement into one with the same meaning for every state):
      if (!c) A else B          ->  if (c) B else A            (both branches present; `if constexpr` too)
      x = x op e;               ->  x op= e;                   (x a plain variable; op one of + - * | &)
      x++;  /  for (..; ..; x++)->  ++x                        (the value of the expression is discarded)
      for (auto it = C.begin(); it != C.end(); ++it) { T x = *it; ... }  with `it` not used again  ->  for (T x : C) { ... }
      ( *p).m  ->  p->m;   !(a == b)  ->  a != b;   { { ... } }  ->  { ... }   (also a nested block that declares nothing)
      a local lambda `[..](params) { return E; }` all of whose uses are calls with plain arguments  ->  E with the arguments
      a local lambda without return that is only ever called as a statement  ->  its body at every call (inline_void_lambdas)"""
    if isinstance(n, list):
        return [canon(x) for x in n]
    if not isinstance(n, tuple):
        return n
    if INLINE_LAMBDAS and len(n) == 2 and n[0] == 'block' and isinstance(n[1], list):
        n = ('block', inline_void_lambdas(n[1]))
    n = tuple(canon(x) for x in n)
    if len(n) == 2 and n[0] == 'block' and isinstance(n[1], list):
        # a nested block that declares nothing at its top level is spliced into its parent
        flat = []
        for x in n[1]:
            if isinstance(x, tuple) and len(x) == 2 and x[0] == 'block' and not any(isinstance(y, tuple) and y and y[0] == 'decl' for y in x[1]):
                flat.extend(x[1])
            else:
                flat.append(x)
        if len(flat) == 1 and isinstance(flat[0], tuple) and len(flat[0]) == 2 and flat[0][0] == 'block':
            flat = flat[0][1]          # { { ... } }  is  { ... }
        n = ('block', flat)
    if len(n) == 3 and n[0] == 'un' and n[1] == '!' and isinstance(n[2], tuple) and len(n[2]) == 4 and n[2][0] == 'bin' and n[2][1] in ('==', '!='):
        return ('bin', '!=' if n[2][1] == '==' else '==', n[2][2], n[2][3])          # !(a == b)  is  a != b
    if len(n) == 4 and n[0] == 'member' and n[3] is False and isinstance(n[1], tuple) and n[1][:2] == ('un', '*'):
        return ('member', n[1][2], n[2], True)          # ( *p).m  is  p->m
    if len(n) == 5 and n[0] == 'if' and n[4] is not None and isinstance(n[2], tuple) and n[2][:2] == ('un', '!'):
        return ('if', n[1], n[2][2], n[4], n[3])
    if len(n) == 2 and n[0] == 'expr' and isinstance(n[1], tuple):
        e = n[1]
        if (len(e) == 4 and e[0] == 'assign' and e[1] == '=' and isinstance(e[3], tuple) and len(e[3]) == 4 and e[3][0] == 'bin'
                and e[3][1] in ('+', '-', '*', '|', '&') and e[3][2] == e[2] and isinstance(e[2], tuple) and e[2][0] == 'id'):
            return ('expr', ('assign', e[3][1] + '=', e[2], e[3][3]))
        if len(e) == 3 and e[0] == 'post' and e[1] in ('++', '--'):
            return ('expr', ('un', e[1], e[2]))
    if len(n) == 5 and n[0] == 'for' and isinstance(n[3], tuple) and len(n[3]) == 3 and n[3][0] == 'post' and n[3][1] in ('++', '--'):
        n = ('for', n[1], n[2], ('un', n[3][1], n[3][2]), n[4])
    # for (auto it = C.begin(); it != C.end(); ++it) { T x = *it; REST }   with `it` not mentioned in REST   ->   for (T x : C) { REST }
    if (len(n) == 5 and n[0] == 'for' and isinstance(n[1], tuple) and n[1][0] == 'decl' and len(n[1][2]) == 1 and isinstance(n[4], tuple)
            and n[4][0] == 'block' and n[4][1]):
        it, init = n[1][2][0]
        first = n[4][1][0]
        if (isinstance(init, tuple) and init[0] == 'call' and init[2] == [] and init[1][0] == 'member' and init[1][2] == 'begin' and not init[1][3]
                and n[2] == ('bin', '!=', ('id', it), ('call', ('member', init[1][1], 'end', False), []))
                and n[3] == ('un', '++', ('id', it))
                and isinstance(first, tuple) and first[0] == 'decl' and len(first[2]) == 1 and first[2][0][1] == ('un', '*', ('id', it))
                and not _mentions(n[4][1][1:], it)):
            return ('rangefor', first[2][0][0], init[1][1], ('block', n[4][1][1:]))
    return n


def _assigned(n, name):
    """is the variable `name` the target of an assignment, ++ or -- somewhere in n"""
    if isinstance(n, list):
        return any(_assigned(x, name) for x in n)
    if isinstance(n, tuple):
        if len(n) == 4 and n[0] == 'assign' and n[2] == ('id', name):
            return True
        if len(n) == 3 and n[0] in ('un', 'post') and n[1] in ('++', '--') and n[2] == ('id', name):
            return True
        return any(_assigned(x, name) for x in n)
    return False


def _declared(n, acc):
    if isinstance(n, list):
        for x in n:
            _declared(x, acc)
    elif isinstance(n, tuple):
        if n and n[0] == 'decl' and len(n) == 3 and isinstance(n[2], list):
            for d in n[2]:
                acc.add(d[0])
        if n and n[0] == 'rangefor':
            if isinstance(n[1], str):
                acc.add(n[1])
            else:
                acc.update(n[1])
        for x in n:
            _declared(x, acc)
    return acc


def _ids(n, acc):
    if isinstance(n, list):
        for x in n:
            _ids(x, acc)
    elif isinstance(n, tuple):
        if len(n) == 2 and n[0] == 'id':
            acc.add(n[1])
        for x in n:
            _ids(x, acc)
    return acc


def _has_return(n):
    if isinstance(n, list):
        return any(_has_return(x) for x in n)
    if isinstance(n, tuple):
        if n and n[0] == 'return':
            return True
        if n and n[0] == 'lambda':
            return False
        return any(_has_return(x) for x in n)
    return False


def _subst_ids(n, env):
    if isinstance(n, list):
        return [_subst_ids(x, env) for x in n]
    if isinstance(n, tuple):
        if len(n) == 2 and n[0] == 'id' and isinstance(n[1], str) and n[1] in env:
            return env[n[1]]
        return tuple(_subst_ids(x, env) for x in n)
    return n


def _simple(e):
    """an argument that can be written in place of the parameter: no call, no assignment"""
    if isinstance(e, tuple):
        if e and e[0] in ('call', 'assign', 'post', 'lambda', 'cond', 'comma', 'fold', 'construct', 'initlist', 'ctor'):
            return False
        if len(e) == 3 and e[0] == 'un' and e[1] in ('++', '--'):
            return False
        return all(_simple(x) for x in e)
    if isinstance(e, list):
        return all(_simple(x) for x in e)
    return True


def _count_calls(n, name):
    """(number of statement-level calls  name(args);  in n,  number of mentions of name in n)"""
    calls = 0
    if isinstance(n, list):
        for x in n:
            calls += _count_calls(x, name)[0]
    elif isinstance(n, tuple):
        if len(n) == 2 and n[0] == 'expr' and isinstance(n[1], tuple) and len(n[1]) == 3 and n[1][0] == 'call' and n[1][1] == ('id', name):
            calls += 1
            for a in n[1][2]:
                calls += _count_calls(a, name)[0]
        else:
            for x in n:
                calls += _count_calls(x, name)[0]
    return calls, sum(1 for _ in _iter_ids(n, name))


def _iter_ids(n, name):
    if isinstance(n, (list, tuple)):
        if isinstance(n, tuple) and n == ('id', name):
            yield n
        else:
            for x in n:
                yield from _iter_ids(x, name)


def _replace_calls(n, name, make):
    if isinstance(n, list):
        return [_replace_calls(x, name, make) for x in n]
    if isinstance(n, tuple):
        if len(n) == 2 and n[0] == 'expr' and isinstance(n[1], tuple) and len(n[1]) == 3 and n[1][0] == 'call' and n[1][1] == ('id', name):
            return make(n[1][2])
        return tuple(_replace_calls(x, name, make) for x in n)
    return n


def inline_void_lambdas(stmts):
    """auto f = [..](params) { BODY };  ...  f(args);      ->      ...  { BODY with the parameters bound to args }
    when every mention of f after its declaration is a call statement, BODY has no return, nothing captured by value is assigned
    afterwards, and no name declared in BODY occurs in an argument.  A parameter is replaced by its argument when the argument is
    a plain expression and the parameter is never assigned; otherwise it becomes a local `auto p = arg;` (a lambda argument
    becomes a local lambda, inlined in turn)."""
    stmts = list(stmts)
    i = 0
    while i < len(stmts):
        st = stmts[i]
        if (isinstance(st, tuple) and st and st[0] == 'decl' and st[1] in ('auto', 'const auto') and len(st[2]) == 1
                and isinstance(st[2][0][1], tuple) and st[2][0][1] and st[2][0][1][0] == 'lambda'):
            name, lam = st[2][0]
            caps, params, body = lam[1], lam[2], lam[3]
            rest = stmts[i + 1:]
            calls, mentions = _count_calls(rest, name)
            byval = [c for j, c in enumerate(caps) if re.fullmatch(r'\w+', c) and c != 'this' and (j == 0 or caps[j - 1] != '&')]
            ok = (calls > 0 and calls == mentions and body[0] == 'block' and not _has_return(body)
                  and not any(_assigned(rest, c) for c in byval) and not _mentions(body, name))
            # auto f = [..](params) { return E; };   every mention of f afterwards being a call with plain arguments:  f(args)  ->  E[params := args]
            if (not ok and mentions > 0 and body[0] == 'block' and len(body[1]) == 1 and isinstance(body[1][0], tuple) and body[1][0][0] == 'return'
                    and body[1][0][1] is not None and not any(_assigned(rest, c) for c in byval) and not _mentions(body, name)
                    and not any(_assigned(body, p_) for p_ in params)):
                E = body[1][0][1]
                bad = []

                def sub(n):
                    if isinstance(n, list):
                        return [sub(x) for x in n]
                    if isinstance(n, tuple):
                        if len(n) == 3 and n[0] == 'call' and n[1] == ('id', name):
                            args = [sub(a) for a in n[2]]
                            if len(args) != len(params) or not all(_simple(a) for a in args):
                                bad.append(1)
                                return n
                            return _subst_ids(E, dict(zip(params, args)))
                        if n == ('id', name):
                            bad.append(1)
                        return tuple(sub(x) for x in n)
                    return n
                new_rest = sub(rest)
                if not bad:
                    stmts = stmts[:i] + new_rest
                    continue
            if ok:
                declared = _declared(body[1], set())
                failed = []

                def make(args):
                    if len(args) != len(params) or (_ids(args, set()) & declared):
                        failed.append(1)
                        return ('expr', ('call', ('id', name), args))
                    env, pre = {}, []
                    for p_, a in zip(params, args):
                        if isinstance(a, tuple) and a and a[0] == 'lambda':
                            pre.append(('decl', 'auto', [(p_, a)]))
                        elif _assigned(body, p_) or not _simple(a) or any(_assigned(body, v) for v in _ids(a, set())):
                            pre.append(('decl', 'auto', [(p_, a)]))
                        else:
                            env[p_] = a
                    return ('block', inline_void_lambdas(pre + _subst_ids(body[1], env)))
                new_rest = _replace_calls(rest, name, make)
                if not failed:
                    stmts = stmts[:i] + new_rest
                    continue
        i += 1
    return stmts


def _mentions(n, name):
    if isinstance(n, (list, tuple)):
        if isinstance(n, tuple) and n == ('id', name):
            return True
        return any(_mentions(x, name) for x in n)
    return n == name


def _body_of(st):
    return [s for s in (st[1] if st[0] == 'block' else [st]) if s != ('block', []) and s != ('using',)]


def _assigns(node, name):
    """does the tree assign / increment the variable `name`?"""
    if isinstance(node, tuple):
        if node[:1] == ('assign',) and node[2] == ('id', name):
            return True
        if node[:1] in (('un',), ('post',)) and len(node) >= 3 and node[1] in ('++', '--') and node[2] == ('id', name):
            return True
        return any(_assigns(x, name) for x in node)
    if isinstance(node, list):
        return any(_assigns(x, name) for x in node)
    return False


def index_to_range(st, bounds_of):
    """for (T i = 0; i < N; ++i) { auto[&] x = C[i]; REST }   with N a spelling of C.size()  (bounds_of(C)), i not written by REST
       ==>   T i = 0; for (x : C) { REST; ++i; }      (what the function was before such a rewrite; same visits, same i)"""
    if isinstance(st, list):
        out = []
        for x in st:
            r = index_to_range(x, bounds_of)
            out.extend(r if isinstance(r, list) else [r])
        return out
    if not isinstance(st, tuple):
        return st
    if st[0] == 'block':
        return ('block', index_to_range(st[1], bounds_of))
    if st[0] == 'rangefor':
        return st[:3] + (index_to_range(st[3], bounds_of),)
    if st[0] == 'if':
        return st[:3] + (index_to_range(st[3], bounds_of), index_to_range(st[4], bounds_of) if st[4] is not None else None)
    if st[0] == 'for':
        body = index_to_range(st[4], bounds_of)
        st = st[:4] + (body,)
        if (st[1] and st[1][0] == 'decl' and len(st[1][2]) == 1 and st[1][2][0][1] == ('num', 0) and st[2] and st[2][0] == 'bin'
                and st[2][1] in ('<', '!=')):
            i = st[1][2][0][0]
            b = _body_of(body)
            if (st[2][2] == ('id', i) and st[3] in (('un', '++', ('id', i)), ('post', '++', ('id', i)), ('assign', '+=', ('id', i), ('num', 1)))
                    and b and b[0][0] == 'decl' and len(b[0][2]) == 1 and b[0][2][0][1] is not None and b[0][2][0][1][0] == 'index'
                    and b[0][2][0][1][2] == ('id', i) and re.sub(r'\s|const', '', b[0][1]) in ('auto', 'auto&', 'auto*')):
                C = b[0][2][0][1][1]
                if st[2][3] in bounds_of(C) and not _assigns(b[1:], i) and not _mentions(b[1:], 'continue') and not _mentions(b[1:], 'break'):
                    return [st[1], ('rangefor', b[0][2][0][0], C, ('block', b[1:] + [('expr', ('un', '++', ('id', i)))]))]
        return st
    return st



EXPAND_ALIASES = True       # a translator that reads the aliases itself (vptrctor.py) switches this off
INLINE_LAMBDAS = True       # a translator that gives the local lambdas a meaning of their own (deferred.py) switches this off


def expand_local_aliases(text):
    """`using NAME = TYPE;` inside a function body: the declaration is dropped and NAME is replaced by TYPE in the rest of
    the body (a type alias is another spelling of the type)"""
    while True:
        m = re.search(r'\busing\s+(\w+)\s*=\s*([^;{}]+);', text)
        if not m:
            return text
        name, ty = m.group(1), m.group(2).strip()
        if re.search(r'\b%s\b' % re.escape(name), ty):
            return text
        rest = re.sub(r'(?<![\w:.>])%s\b' % re.escape(name), lambda _: ty, text[m.end():])
        text = text[:m.start()] + rest


def parse_function_body(body_text, template_names=()):
    if EXPAND_ALIASES:
        body_text = expand_local_aliases(body_text)
    p = Parser(tokenize(body_text), template_names)
    blk = p.parse_block()
    if p.peek()[0] != 'eof':
        p.err('trailing tokens after function body')
    return canon(blk)


def show(e):
    """compact rendering of an AST node for error messages"""
    return repr(e)[:160]
