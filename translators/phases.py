#!/usr/bin/env python3
"""/repo/include/yorel/yomm2/core.hpp, detail/compiler.hpp  ->  coq/Gen/GenPhase.v      (properties C07, C01)

Source-to-Gallina translation of the top of update: yorel::yomm2::update<Policy>() (a fresh compiler object, compiler.update()),
compiler<Policy>::update(), compile() and install_global_tables(): which phases run, in which order, and the compilation_done
guard.  Parsed with translators/_minicpp.py; calls are inlined one level (update -> compile + install_global_tables); print /
trace statements are dropped.  Anything else is refused (exit 3).  Proofs/PhaseSource.v proves that the translated sequence,
with every phase given the meaning of the model function of the same name, is Model.Compile.compile_with.
"""
import os, re, sys

sys.path.insert(0, os.path.dirname(os.path.abspath(__file__)))
sys.path.insert(0, os.path.join(os.path.dirname(os.path.abspath(__file__)), '..', 'tools'))
import vlib
import _minicpp as mc

REPO = os.environ.get('VERIF_REPO', '/repo')
CORE = os.path.join(REPO, 'include/yorel/yomm2/core.hpp')
COMP = os.path.join(REPO, 'include/yorel/yomm2/detail/compiler.hpp')
PHASES = {'resolve_static_type_ids': 'PResolveStaticTypeIds', 'augment_classes': 'PAugmentClasses', 'augment_methods': 'PAugmentMethods',
          'assign_slots': 'PAssignSlots', 'build_dispatch_tables': 'PBuildDispatchTables', 'install_gv': 'PInstallGv'}


def die(msg):
    sys.stderr.write('phases.py: ' + msg + '\n')
    print('phases.py: ' + msg)
    sys.exit(3)


def nonempty(stmts):
    return [s for s in stmts if s != ('block', []) and s != ('using',)]


def body_of(src, name):
    params, body, _ = mc.find_function(src, r'\b(?:auto|void)\s+compiler<Policy>::%s\b' % name, 'compiler::' + name)
    if params.strip():
        raise mc.Unsupported('compiler::%s takes parameters now' % name)
    return nonempty(mc.parse_function_body(mc.drop_trace(body), ())[1])


def lower_stmts(src, name, stmts, depth):
    out = []
    i = 0
    while i < len(stmts):
        st = stmts[i]
        # positive form of the guard:  if (compilation_done) { BODY; return; } abort();
        if (st[0] == 'if' and not st[1] and st[2] == ('id', 'compilation_done') and st[4] is None and i + 1 < len(stmts)
                and stmts[i + 1] == ('expr', ('call', ('id', 'abort'), [])) and i + 2 == len(stmts)):
            inner = nonempty(st[3][1])
            if inner and inner[-1] == ('return', None):
                out.append('PRequireCompilationDone')
                out.extend(lower_stmts(src, name, inner[:-1], depth))
                return out
        out.extend(lower_one(src, name, st, depth))
        i += 1
    return out


def lower(src, name, depth=0):
    return lower_stmts(src, name, body_of(src, name), depth)


def lower_one(src, name, st, depth):
    out = []
    for st in [st]:
        if st[0] == 'expr' and st[1][0] == 'call' and st[1][2] == [] and st[1][1][0] == 'id':
            f = st[1][1][1]
            if f in PHASES:
                out.append(PHASES[f])
                continue
            if f in ('compile', 'install_global_tables') and depth == 0:
                out.extend(lower(src, f, 1))
                continue
        if st == ('expr', ('assign', '=', ('id', 'compilation_done'), ('bool', True))):
            out.append('PSetCompilationDone')
            continue
        if st == ('if', False, ('un', '!', ('id', 'compilation_done')), ('block', [('expr', ('call', ('id', 'abort'), []))]), None):
            out.append('PRequireCompilationDone')
            continue
        if st[0] == 'expr' and st[1][0] == 'call' and st[1][1] == ('id', 'print'):
            continue
        if st[0] == 'return' and st[1] in (('id', 'report'), ('un', '*', ('this',))):
            continue
        raise mc.Unsupported('compiler::%s: statement not in the subset: %s' % (name, mc.show(st)))
    return out


def main():
    try:
        core = mc.strip_comments(open(CORE).read())
        comp = mc.strip_comments(open(COMP).read())
    except OSError as e:
        die('cannot read the headers: %s' % e)
    try:
        phases = lower(comp, 'update')
        # template<class Policy> auto update() -> typename detail::compiler<Policy> { detail::compiler<Policy> compiler; compiler.update(); return compiler; }
        m = re.search(r'template\s*<\s*class\s+Policy\s*>\s*auto\s+update\s*\(\s*\)\s*->\s*typename\s+detail::compiler<Policy>\s*\{', core)
        if not m:
            raise mc.Unsupported('the definition of yorel::yomm2::update<Policy>() was not found in core.hpp')
        b = m.end() - 1
        body = nonempty(mc.parse_function_body(core[b:mc.balanced(core, b, '{', '}')], ('compiler',))[1])
        want = [('decl', 'detail::compiler <Policy>', [('compiler', None)]),
                ('expr', ('call', ('member', ('id', 'compiler'), 'update', False), [])),
                ('return', ('id', 'compiler'))]
        fresh = body == want
        if not fresh:
            raise mc.Unsupported('update<Policy>() is no longer `detail::compiler<Policy> compiler; compiler.update(); return compiler;`: ' + mc.show(body)[:300])
    except mc.Unsupported as e:
        die(str(e))
    out = ('(* GENERATED by translators/phases.py from %s and %s - do not edit.\n'
           '   The phases update runs, in order, in the language of Model/MiniPhase.v. *)\n'
           'From Coq Require Import List.\nFrom Y2 Require Import Model.MiniPhase.\nImport ListNotations.\n\n'
           'Definition gen_update : update_src :=\n  mk_update_src true\n  [%s].\n' % (CORE, COMP, ';\n   '.join(phases)))
    vlib.write_if_changed(os.path.join(vlib.COQ, 'Gen', 'GenPhase.v'), out)


if __name__ == '__main__':
    main()
