#!/usr/bin/env python3
"""/repo/include/yorel/yomm2/detail/compiler.hpp  ->  coq/Gen/GenRep.v      (properties C17, C01, C12)

Source-to-Gallina translation of the arithmetic around the dispatch tables:
    the block of build_dispatch_tables that computes m.strides,
    the block of build_dispatch_tables that computes m.report.cells and m.report.concrete_cells,
    generic_compiler::accumulate(partial, total).
Parsed with translators/_minicpp.py (trace output and the `prefix` strings of the trace dropped) and lowered statement by
statement into the language of coq/Model/MiniRep.v.  Anything else is refused (exit 3).  Proofs/RepSource.v proves that the
translations compute Model.Compile's t_strides, rp_cells / rp_ccells and accumulate.
"""
import os, re, sys

sys.path.insert(0, os.path.dirname(os.path.abspath(__file__)))
sys.path.insert(0, os.path.join(os.path.dirname(os.path.abspath(__file__)), '..', 'tools'))
import vlib
import _minicpp as mc

REPO = os.environ.get('VERIF_REPO', '/repo')
SRC = os.path.join(REPO, 'include/yorel/yomm2/detail/compiler.hpp')
FIELDS = {'cells': 'PCells', 'concrete_cells': 'PConcreteCells', 'not_implemented': 'PNotImplemented',
          'concrete_not_implemented': 'PConcreteNotImplemented', 'ambiguous': 'PAmbiguous', 'concrete_ambiguous': 'PConcreteAmbiguous'}


def die(msg):
    sys.stderr.write('reportarith.py: ' + msg + '\n')
    print('reportarith.py: ' + msg)
    sys.exit(3)


def nonempty(stmts):
    return [s for s in stmts if s != ('block', []) and s != ('using',)]


def q(s):
    return '"%s"' % s


def subst(node, env):
    if isinstance(node, tuple):
        if len(node) == 2 and node[0] == 'id' and node[1] in env:
            return env[node[1]]
        return tuple(subst(x, env) for x in node)
    if isinstance(node, list):
        return [subst(x, env) for x in node]
    return node


class Lower:
    def __init__(self, what, acc=False):
        self.what = what
        self.acc = acc            # inside accumulate(partial, total)
        self.locals = set()
        self.dimvar = None        # the range-for variable over the groups
        self.ignored = set()      # locals that only feed the trace (const char* prefix)
        self.refs = {}            # reference locals: name -> the expression they alias (substituted)
        self.lambdas = {}         # local lambdas: name -> lambda node

    def bad(self, msg, node):
        raise mc.Unsupported('%s: %s: %s' % (self.what, msg, mc.show(node)))

    def e(self, x):
        k = x[0]
        if k == 'num':
            return '(ANum %d)' % x[1]
        if k == 'id' and x[1] in self.locals:
            return '(AVar %s)' % q(x[1])
        if not self.acc and (x == ('call', ('member', ('id', 'm'), 'arity', False), []) or x == ('id', 'dims')):
            return 'AArity'
        if k == 'bin' and x[1] == '-':
            return '(ASub %s %s)' % (self.e(x[2]), self.e(x[3]))
        if not self.acc and k == 'call' and x[2] == [] and x[1][0] == 'member' and x[1][2] == 'size' and x[1][1][0] == 'index' and x[1][1][1] == ('id', 'groups'):
            return '(AGroupsSizeAt %s)' % self.e(x[1][1][2])
        if self.dimvar and x == ('call', ('member', ('id', self.dimvar), 'size', False), []):
            return 'ADimSize'
        if self.dimvar and k == 'call' and x[1] == ('id', 'std::count_if') and len(x[2]) == 3:
            a = x[2]
            if a[2][0] == 'id' and a[2][1] in self.lambdas:
                a = [a[0], a[1], self.lambdas[a[2][1]]]
            if (a[0] == ('call', ('member', ('id', self.dimvar), 'begin', False), []) and a[1] == ('call', ('member', ('id', self.dimvar), 'end', False), [])
                    and a[2][0] == 'lambda' and len(a[2][2]) == 1
                    and a[2][3] == ('block', [('return', ('member', ('member', ('id', a[2][2][0]), 'second', False), 'has_concrete_classes', False))])):
                return 'ADimConcrete'
        if not self.acc and k == 'member' and x[1] == ('member', ('id', 'm'), 'report', False) and x[2] in FIELDS:
            return '(AReport %s)' % FIELDS[x[2]]
        if self.acc and k == 'member' and x[1] == ('id', 'partial') and x[2] in FIELDS:
            return '(APartial %s)' % FIELDS[x[2]]
        if self.acc and k == 'call' and x[1][0] == 'id' and x[1][1] in self.lambdas and len(x[2]) == 1:
            lam = self.lambdas[x[1][1]]
            if len(lam[2]) == 1:
                pv = ('id', lam[2][0])
                nz = ('bin', '!=', pv, ('num', 0))
                if lam[3] in (('block', [('return', nz)]), ('block', [('return', ('cond', nz, ('num', 1), ('num', 0)))])):
                    return self.e(('bin', '!=', x[2][0], ('num', 0)))
        if self.acc and k == 'bin' and x[1] == '!=' and x[3] == ('num', 0) and x[2][0] == 'member' and x[2][1] == ('id', 'partial') and x[2][2] in FIELDS:
            return '(APartialNonZero %s)' % FIELDS[x[2][2]]
        if self.acc and k == 'cond' and x[2] == ('num', 1) and x[3] == ('num', 0) and x[1][0] == 'bin' and x[1][1] == '!=':
            return self.e(x[1])            # b ? 1 : 0  added to a counter is  b  added to it
        self.bad('expression not in the subset', x)

    def lhs(self, x):
        if x[0] == 'id' and x[1] in self.locals:
            return '(LVar %s)' % q(x[1])
        if not self.acc and x[0] == 'member' and x[1] == ('member', ('id', 'm'), 'report', False) and x[2] in FIELDS:
            return '(LReport %s)' % FIELDS[x[2]]
        if self.acc and x[0] == 'member' and x[1] == ('id', 'total') and x[2] in FIELDS:
            return '(LTotal %s)' % FIELDS[x[2]]
        self.bad('left-hand side not in the subset', x)

    def seq(self, stmts):
        out = [self.s(t) for t in nonempty(stmts)]
        out = [t for t in out if t != 'ASkip']
        if not out:
            return 'ASkip'
        r = out[-1]
        for t in reversed(out[:-1]):
            r = '(ASeq %s\n  %s)' % (t, r)
        return r

    def s(self, st):
        if self.refs:
            st = subst(st, self.refs)
        k = st[0]
        if k == 'block':
            return self.seq(st[1])
        if k == 'decl' and len(st[2]) == 1 and st[2][0][1] is not None and st[2][0][1][0] == 'lambda':
            self.lambdas[st[2][0][0]] = st[2][0][1]
            return 'ASkip'
        if k == 'decl' and len(st[2]) == 1 and st[2][0][1] is not None and st[1].rstrip().endswith('&'):
            # auto& r = m.report;   const auto& g = groups[dim - 1];    a reference: every use stands for the expression
            self.refs[st[2][0][0]] = st[2][0][1]
            return 'ASkip'
        if k == 'while' and not self.acc and st[1][0] == 'bin' and st[1][1] == '<' and st[1][2][0] == 'id' and st[1][2][1] in self.locals:
            # size_t x = a; ... while (x < b) { body; ++x; }     is     for (x = <current x>; x < b; ++x) body
            x = st[1][2][1]
            body = nonempty(st[2][1] if st[2][0] == 'block' else [st[2]])
            if body and body[-1] in (('expr', ('un', '++', ('id', x))), ('expr', ('post', '++', ('id', x)))) and repr(('id', x)) not in repr([b for b in body[:-1] if b[0] == 'expr' and b[1][0] == 'assign' and b[1][2] == ('id', x)]):
                upto = self.e(st[1][3])
                b = self.seq(body[:-1])
                return '(AForDim %s (AVar %s) %s\n  %s)' % (q(x), q(x), upto, b)
            self.bad('while loop not of the form `while (x < b) { ...; ++x; }`', st)
        if k == 'decl' and len(st[2]) == 1:
            name, init = st[2][0]
            if re.sub(r'\s', '', st[1]) == 'constchar*':
                self.ignored.add(name)              # the separator of the trace output
                return 'ASkip'
            if init is None:
                self.bad('declaration without initialiser', st)
            v = self.e(init)
            self.locals.add(name)
            return '(ASet (LVar %s) %s)' % (q(name), v)
        if k == 'expr':
            e = st[1]
            if e[0] == 'assign' and e[2][0] == 'id' and e[2][1] in self.ignored and e[3][0] == 'str':
                return 'ASkip'
            if e[0] == 'assign' and e[1] in ('=', '*=', '+='):
                op = {'=': 'ASet', '*=': 'AMul', '+=': 'AAdd'}[e[1]]
                return '(%s %s %s)' % (op, self.lhs(e[2]), self.e(e[3]))
            if not self.acc and e[0] == 'call' and e[1] == ('member', ('member', ('id', 'm'), 'strides', False), 'push_back', False) and len(e[2]) == 1:
                return '(APushStride %s)' % self.e(e[2][0])
            if not self.acc and e[0] == 'call' and e[1] == ('member', ('member', ('id', 'm'), 'strides', False), 'reserve', False):
                return 'ASkip'
            self.bad('expression statement not in the subset', st)
        if k == 'for' and not self.acc:
            init, cond, step, body = st[1], st[2], st[3], st[4]
            ok = (init and init[0] == 'decl' and len(init[2]) == 1 and init[2][0][1] is not None and cond and cond[0] == 'bin' and cond[1] == '<'
                  and step in (('un', '++', ('id', init[2][0][0])), ('post', '++', ('id', init[2][0][0]))))
            shift = None
            if ok and cond[2] == ('id', init[2][0][0]):
                shift = 0
            elif ok and cond[2][0] == 'bin' and cond[2][1] == '+' and cond[2][2] == ('id', init[2][0][0]) and cond[2][3][0] == 'num':
                shift = cond[2][3][1]          # x + c < b   is   x < b - c   (unsigned, b >= c holds when the loop runs at all)
            if shift is not None:
                x = init[2][0][0]
                frm = self.e(init[2][0][1])
                upto = self.e(cond[3]) if shift == 0 else '(ASub %s (ANum %d))' % (self.e(cond[3]), shift)
                self.locals.add(x)
                b = self.s(body)
                return '(AForDim %s %s %s\n  %s)' % (q(x), frm, upto, b)
            self.bad('for loop not of the form `for (size_t x = a; x < b; ++x)`', st)
        if k == 'rangefor' and not self.acc and isinstance(st[1], str) and st[2] == ('id', 'groups') and self.dimvar is None:
            self.dimvar = st[1]
            b = self.s(st[3])
            self.dimvar = None
            return '(AForGroups %s)' % b
        if k == 'if' and not self.acc and not st[1] and st[4] is None:
            ar = ('call', ('member', ('id', 'm'), 'arity', False), [])
            if st[2] in (('bin', '>', ar, ('num', 1)), ('bin', '>=', ar, ('num', 2)), ('bin', '>', ('id', 'dims'), ('num', 1))):
                return '(AIfArityGt1 %s)' % self.s(st[3])
        self.bad('statement not in the subset', st)


def main():
    try:
        src = mc.strip_comments(open(SRC).read())
    except OSError as e:
        die('cannot read %s: %s' % (SRC, e))
    try:
        # ---- accumulate
        params, body, _ = mc.find_function(src, r'\binline\s+void\s+generic_compiler::accumulate\b', 'generic_compiler::accumulate')
        if re.sub(r'\s+', '', params) != 'constupdate_method_report&partial,update_report&total':
            raise mc.Unsupported('accumulate: parameter list changed: ' + params)
        acc = Lower('accumulate', acc=True).s(mc.parse_function_body(body, ()))
        # ---- build_dispatch_tables: per method, the statements at the level of the loop over the methods
        params, body, _ = mc.find_function(src, r'\bvoid\s+compiler<Policy>::build_dispatch_tables\b', 'build_dispatch_tables')
        ast = mc.parse_function_body(mc.drop_trace(body), ('vector',))
        loops = [s for s in nonempty(ast[1]) if s[0] == 'rangefor' and s[2] == ('id', 'methods')]
        if len(loops) != 1 or loops[0][1] != 'm':
            raise mc.Unsupported('build_dispatch_tables is no longer one loop `for (auto& m : methods)`')
        mbody = nonempty(loops[0][3][1])
        if ('decl', 'auto', [('dims', ('call', ('member', ('id', 'm'), 'arity', False), []))]) not in mbody:
            raise mc.Unsupported('build_dispatch_tables: `auto dims = m.arity();` is gone')
        flat = []
        for s in mbody:
            flat.append(s)
        # the block that fills m.strides
        sb = [s for s in flat if s[0] == 'block' and "'strides'" in repr(s) and 'push_back' in repr(s)]
        if len(sb) != 1:
            raise mc.Unsupported('build_dispatch_tables: expected one block that fills m.strides, found %d' % len(sb))
        strides = Lower('strides block').s(sb[0])
        # the statement that computes report.cells / concrete_cells
        cb = []

        def walk(n):
            if isinstance(n, tuple):
                if n and n[0] == 'if' and "'concrete_cells'" in repr(n) and "'cells'" in repr(n) and n[2][0] == 'bin':
                    cb.append(n)
                    return
                for x in n:
                    walk(x)
            elif isinstance(n, list):
                for x in n:
                    walk(x)
        walk(mbody)
        if len(cb) != 1:
            raise mc.Unsupported('build_dispatch_tables: expected one `if (m.arity() > 1)` that computes report.cells and concrete_cells, found %d' % len(cb))
        cells = Lower('cells block').s(cb[0])
        # the method's report is added to the update's
        if "('call', ('id', 'accumulate'), [('member', ('id', 'm'), 'report', False), ('id', 'report')])" not in repr(mbody):
            raise mc.Unsupported('build_dispatch_tables no longer calls accumulate(m.report, report) for every method')
    except mc.Unsupported as e:
        die(str(e))
    out = ('(* GENERATED by translators/reportarith.py from %s - do not edit.\n'
           '   Strides, report.cells / concrete_cells and accumulate, in the language of Model/MiniRep.v. *)\n'
           'From Coq Require Import String.\nFrom Y2 Require Import Model.MiniRep.\nLocal Open Scope string_scope.\n\n'
           'Definition gen_strides : astmt :=\n %s.\n\nDefinition gen_cells : astmt :=\n %s.\n\nDefinition gen_accumulate : astmt :=\n %s.\n'
           % (SRC, strides, cells, acc))
    vlib.write_if_changed(os.path.join(vlib.COQ, 'Gen', 'GenRep.v'), out)


if __name__ == '__main__':
    main()
