#!/usr/bin/env python3
"""/repo/include/yorel/yomm2/detail/compiler.hpp  ->  coq/Gen/GenGrp.v      (properties C01, C04, C17)

Source-to-Gallina translation of the two blocks of compiler<Policy>::build_dispatch_tables() that decide which cell a class
selects: the grouping of the covariant classes of every virtual parameter by the mask of the definitions that accept them
(std::map<bitvec, group>, has_concrete_classes), and the loop that writes (method, dimension, group number) into the v-table
entry of every class of every group.  Parsed with translators/_minicpp.py and lowered, statement by statement, into the two
languages of coq/Model/MiniGrp.v; the names of the locals are free.  Anything outside the subset is refused (exit 3).
Proofs/GrpSource.v proves the translation equal to Model.Compile.groups_of / group_index / write_vtbls, for every order in
which the unordered sets of classes may be walked.
"""
import os, re, sys

sys.path.insert(0, os.path.dirname(os.path.abspath(__file__)))
sys.path.insert(0, os.path.join(os.path.dirname(os.path.abspath(__file__)), '..', 'tools'))
import vlib
import _minicpp as mc

REPO = os.environ.get('VERIF_REPO', '/repo')
SRC = os.path.join(REPO, 'include/yorel/yomm2/detail/compiler.hpp')


def die(msg):
    sys.stderr.write('grouping.py: ' + msg + '\n')
    print('grouping.py: ' + msg)
    sys.exit(3)


def nonempty(stmts):
    return [s for s in stmts if s != ('block', []) and s != ('using',)]


def body_of(st):
    return nonempty(st[1]) if st[0] == 'block' else [st]


def call0(obj, name, arrow=False):
    return ('call', ('member', obj, name, arrow), [])


M = ('id', 'm')
ARITY = call0(M, 'arity')
NSPECS = call0(('member', M, 'specs', False), 'size')


def seq(ctor, out, skip):
    out = [t for t in out if t != skip]
    if not out:
        return skip
    r = out[-1]
    for t in reversed(out[:-1]):
        r = '(%s %s\n   %s)' % (ctor, t, r)
    return r


_assigns = mc._assigns
index_to_range = mc.index_to_range


def _assigns_member(node, member):
    if isinstance(node, tuple):
        if node[:1] == ('assign',):
            t = node[2]
            while isinstance(t, tuple) and t[:1] == ('index',):
                t = t[1]                       # x[i] = ...  writes x
            if isinstance(t, tuple) and t[:1] == ('member',) and t[2] == member:
                return True
        return any(_assigns_member(x, member) for x in node)
    if isinstance(node, list):
        return any(_assigns_member(x, member) for x in node)
    return False

class Groups:
    def __init__(self, arity_names, groups):
        self.arity_names = arity_names
        self.groups = groups
        self.dim = None; self.vp = None; self.dim_group = None; self.cc = None
        self.mask = None; self.gi = None; self.spec = None; self.group = None

    def bad(self, msg, node):
        raise mc.Unsupported('build_dispatch_tables (groups): %s: %s' % (msg, mc.show(node)[:300]))

    def incr(self, st, name):
        return st in (('expr', ('un', '++', ('id', name))), ('expr', ('assign', '+=', ('id', name), ('num', 1))))

    def stmts(self, stmts):
        stmts = nonempty(stmts)
        out = []
        i = 0
        while i < len(stmts):
            st = stmts[i]
            nxt = stmts[i + 1] if i + 1 < len(stmts) else None
            # std::size_t dim = 0; for (auto vp : m.vp) { ...; ++dim; }
            if (st[0] == 'decl' and len(st[2]) == 1 and st[2][0][1] == ('num', 0) and nxt and nxt[0] == 'rangefor' and isinstance(nxt[1], str)
                    and nxt[2] == ('member', M, 'vp', False) and self.dim is None):
                b = body_of(nxt[3])
                if not b or not self.incr(b[-1], st[2][0][0]):
                    self.bad('the loop over the virtual parameters no longer ends with ++%s' % st[2][0][0], nxt)
                self.dim, self.vp = st[2][0][0], nxt[1]
                body = self.stmts(b[:-1])
                self.dim = self.vp = self.dim_group = None
                out.append('(GForParams %s)' % body)
                i += 2
                continue
            # bitvec mask; mask.resize(m.specs.size());     |   bitvec mask(m.specs.size());
            if st[0] == 'decl' and st[1] in ('bitvec', 'boost::dynamic_bitset <>') and len(st[2]) == 1 and self.cc and self.mask is None:
                name, init = st[2][0]
                if init == ('ctor', [NSPECS]):
                    self.mask = name; out.append('GNewMask'); i += 1; continue
                if init is None and nxt == ('expr', ('call', ('member', ('id', name), 'resize', False), [NSPECS])):
                    self.mask = name; out.append('GNewMask'); i += 2; continue
                self.bad('the mask is no longer a bitvec of m.specs.size() cleared bits', st)
            # std::size_t group_index = 0; for (auto& spec : m.specs) { ...; ++group_index; }
            if (st[0] == 'decl' and len(st[2]) == 1 and st[2][0][1] == ('num', 0) and nxt and nxt[0] == 'rangefor' and isinstance(nxt[1], str)
                    and nxt[2] == ('member', M, 'specs', False) and self.mask and self.gi is None):
                b = body_of(nxt[3])
                if not b or not self.incr(b[-1], st[2][0][0]):
                    self.bad('the loop over the definitions no longer ends with ++%s' % st[2][0][0], nxt)
                self.gi, self.spec = st[2][0][0], nxt[1]
                body = self.stmts(b[:-1])
                self.gi = self.spec = None
                out.append('(GForSpecs %s)' % body)
                i += 2
                continue
            out.append(self.s(st))
            i += 1
        return seq('GSeq', out, 'GSkip')

    def spec_set(self):
        return ('member', ('index', ('member', ('id', self.spec), 'vp', False), ('id', self.dim)), 'covariant_classes', True)

    def covers(self, e):
        """spec.vp[dim]->covariant_classes contains covariant_class"""
        if not (self.spec and self.cc and self.dim):
            return False
        S = self.spec_set()
        if getattr(self, 'set_alias', None):
            e = mc._subst_ids(e, {self.set_alias: S})      # const auto& accepted = spec.vp[dim]->covariant_classes;
        arg = [('id', self.cc)]
        find = ('call', ('member', S, 'find', False), arg)
        cnt = ('call', ('member', S, 'count', False), arg)
        end = call0(S, 'end')
        return e in (('bin', '!=', find, end), ('bin', '!=', end, find), ('bin', '!=', cnt, ('num', 0)), ('bin', '>', cnt, ('num', 0)), cnt,
                     ('call', ('member', S, 'contains', False), arg))

    def s(self, st):
        k = st[0]
        if k == 'block':
            return self.stmts(st[1])
        if k == 'decl' and len(st[2]) == 1 and st[1] in ('const auto &', 'auto &') and self.spec and self.dim and st[2][0][1] == self.spec_set():
            self.set_alias = st[2][0][0]
            return 'GSkip'
        if k == 'decl' and len(st[2]) == 1 and st[1] in ('auto &', 'group_map &'):
            name, init = st[2][0]
            if self.dim and init == ('index', ('id', self.groups), ('id', self.dim)) and self.dim_group is None:
                self.dim_group = name
                return 'GSkip'         # a name for groups[dim]
            dg = [('id', self.dim_group)] if self.dim_group else []
            if self.mask and self.dim and self.group is None and init is not None and init[0] == 'index' and init[2] == ('id', self.mask) \
                    and init[1] in dg + [('index', ('id', self.groups), ('id', self.dim))]:
                self.group = name
                return 'GBindGroup'
        if k == 'rangefor' and isinstance(st[1], str) and self.vp and self.cc is None \
                and st[2] == ('member', ('id', self.vp), 'covariant_classes', True):
            self.cc = st[1]
            body = self.stmts(body_of(st[3]))
            self.cc = self.mask = self.group = None
            return '(GForCovariant %s)' % body
        if k == 'if' and not st[1] and st[4] is None and self.covers(st[2]):
            return '(GIfSpecCovers %s)' % self.stmts(body_of(st[3]))
        if k == 'if' and not st[1] and st[4] is None and self.group and self.cc \
                and st[2] == ('un', '!', ('member', ('id', self.cc), 'is_abstract', True)) \
                and body_of(st[3]) == [('expr', ('assign', '=', ('member', ('id', self.group), 'has_concrete_classes', False), ('bool', True)))]:
            return 'GOrConcrete'       # if (!c->is_abstract) g.has_concrete_classes = true;   is   g.hcc = g.hcc || !c->is_abstract;
        if k == 'expr':
            e = st[1]
            if self.mask and self.gi:
                tgt = ('index', ('id', self.mask), ('id', self.gi))
                if e in (('assign', '=', tgt, ('num', 1)), ('assign', '=', tgt, ('bool', True)),
                         ('call', ('member', ('id', self.mask), 'set', False), [('id', self.gi)])):
                    return 'GSetMaskBit'
            if self.group and self.cc:
                G = ('id', self.group)
                if e in (('call', ('member', ('member', G, 'classes', False), 'push_back', False), [('id', self.cc)]),
                         ('call', ('member', ('member', G, 'classes', False), 'emplace_back', False), [('id', self.cc)])):
                    return 'GPushClass'
                hcc = ('member', G, 'has_concrete_classes', False)
                na = ('un', '!', ('member', ('id', self.cc), 'is_abstract', True))
                if e in (('assign', '=', hcc, ('bin', '||', hcc, na)), ('assign', '|=', hcc, na)):
                    return 'GOrConcrete'
        self.bad('statement not in the subset', st)


class Entries:
    def __init__(self, arity_names, groups, mi_names=()):
        self.arity_names = arity_names
        self.groups = groups
        self.mi_names = set(mi_names)      # const locals holding &m - &methods[0]
        self.fields = None                 # the members of vtbl_entry, in declaration order

    def bad(self, msg, node):
        raise mc.Unsupported('build_dispatch_tables (v-table entries): %s: %s' % (msg, mc.show(node)[:300]))

    def loop(self, st):
        ok_bound = [ARITY] + [('id', a) for a in self.arity_names] + [call0(('member', M, 'vp', False), 'size'), call0(('id', self.groups), 'size')]
        if not (st[0] == 'for' and st[1] and st[1][0] == 'decl' and len(st[1][2]) == 1 and st[1][2][0][1] == ('num', 0)):
            self.bad('no longer `for (std::size_t dim = 0; dim < m.arity(); ++dim)`', st)
        dim = st[1][2][0][0]
        if not (st[2] and st[2][0] == 'bin' and st[2][1] in ('<', '!=') and st[2][2] == ('id', dim) and st[2][3] in ok_bound and st[3] == ('un', '++', ('id', dim))):
            self.bad('the loop over the dimensions does not run from 0 to the arity', st[:4])
        b = body_of(st[4])
        SLOT = ('index', ('member', M, 'slots', False), ('id', dim))
        hoisted = [x for x in b if x[0] == 'decl' and x[1].startswith('const') and len(x[2]) == 1 and x[2][0][1] == SLOT]
        if hoisted:        # const std::size_t slot = m.slots[dim];   (m.slots is not written by this loop: checked below)
            b = mc._subst_ids([x for x in b if x not in hoisted], {x[2][0][0]: SLOT for x in hoisted})
            if mc._mentions(b, 'slots') and any(_assigns_member(x, 'slots') for x in b):
                self.bad('m.slots is written inside the loop that reads it', st[4])
        if not (len(b) == 2 and b[0][0] == 'decl' and len(b[0][2]) == 1 and b[0][2][0][1] == ('num', 0) and b[1][0] == 'rangefor'
                and isinstance(b[1][1], tuple) and len(b[1][1]) == 2 and b[1][2] == ('index', ('id', self.groups), ('id', dim))):
            self.bad('the body is no longer `group_num = 0; for (auto& [mask, group] : groups[dim]) {...}`', st[4])
        gn = b[0][2][0][0]
        grp = b[1][1][1]
        gb = body_of(b[1][3])
        if not (len(gb) == 2 and gb[1] in (('expr', ('un', '++', ('id', gn))), ('expr', ('assign', '+=', ('id', gn), ('num', 1))))
                and gb[0][0] == 'rangefor' and isinstance(gb[0][1], str) and gb[0][2] == ('member', ('id', grp), 'classes', False)):
            self.bad('the loop over the groups is no longer `for (cls : group.classes) {...}; ++group_num;`', b[1][3])
        cls = gb[0][1]
        wb = body_of(gb[0][3])
        entry_expr = ('index', ('member', ('id', cls), 'vtbl', True),
                      ('bin', '-', ('index', ('member', M, 'slots', False), ('id', dim)), ('member', ('id', cls), 'first_slot', True)))
        if wb and wb[0][0] == 'decl' and wb[0][1] == 'auto &' and len(wb[0][2]) == 1 and wb[0][2][0][1] == entry_expr:
            ent = ('id', wb[0][2][0][0])
            wb = wb[1:]
        else:
            ent = entry_expr
        want = {('expr', ('assign', '=', ('member', ent, 'method_index', False), ('bin', '-', ('un', '&', M), ('un', '&', ('index', ('id', 'methods'), ('num', 0)))))),
                ('expr', ('assign', '=', ('member', ent, 'vp_index', False), ('id', dim))),
                ('expr', ('assign', '=', ('member', ent, 'group_index', False), ('id', gn)))}
        alt_mi = ('expr', ('assign', '=', ('member', ent, 'method_index', False), ('bin', '-', ('un', '&', M), call0(('id', 'methods'), 'data'))))
        canon_mi = ('expr', ('assign', '=', ('member', ent, 'method_index', False), ('bin', '-', ('un', '&', M), ('un', '&', ('index', ('id', 'methods'), ('num', 0))))))
        if len(wb) == 1 and wb[0][0] == 'expr' and wb[0][1][:3] == ('assign', '=', ent) and wb[0][1][3][0] == 'construct' \
                and wb[0][1][3][1] == 'vtbl_entry' and len(wb[0][1][3][2]) == 3 and self.fields == ['method_index', 'vp_index', 'group_index']:
            # entry = vtbl_entry{a, b, c};   an aggregate: the members in declaration order (read from the struct)
            wb = [('expr', ('assign', '=', ('member', ent, f, False), v)) for f, v in zip(self.fields, wb[0][1][3][2])]
        alts = [alt_mi] + [('expr', ('assign', '=', ('member', ent, 'method_index', False), ('id', nm))) for nm in self.mi_names]
        got = {canon_mi if x in alts else x for x in wb}
        if len(wb) != 3 or got != want:
            self.bad('an entry is no longer written as (method_index = &m - &methods[0], vp_index = dim, group_index = group_num) at vtbl[m.slots[dim] - first_slot]', gb[0][3])
        return '(EForDims (EForGroups (EForGroupClasses EWriteEntry)))'


def main():
    try:
        src = mc.strip_comments(open(SRC).read())
    except OSError as e:
        die('cannot read %s: %s' % (SRC, e))
    try:
        params, body, _ = mc.find_function(src, r'\bvoid\s+compiler<Policy>::build_dispatch_tables\b', 'build_dispatch_tables')
        if params.strip():
            raise mc.Unsupported('build_dispatch_tables takes parameters now')
        top = nonempty(mc.parse_function_body(mc.drop_trace(body), ())[1])
        loops = [t for t in top if t[0] == 'rangefor' and t[2] == ('id', 'methods')]
        if len(loops) != 1 or loops[0][1] != 'm':
            raise mc.Unsupported('build_dispatch_tables is no longer one loop `for (auto& m : methods)`')
        lb = nonempty(loops[0][3][1])
        arity_names, groups = set(), None
        gi = None
        for i, st in enumerate(lb):
            if st[0] == 'decl' and len(st[2]) == 1 and st[2][0][1] == ARITY:
                arity_names.add(st[2][0][0])
            if st[0] == 'decl' and re.sub(r'\s', '', st[1]) == 'std::vector<group_map>' and len(st[2]) == 1:
                groups = st[2][0][0]
                sized = st[2][0][1] is not None and st[2][0][1][0] == 'ctor' and (st[2][0][1][1] == [ARITY] or (len(st[2][0][1][1]) == 1 and st[2][0][1][1][0][0] == 'id' and st[2][0][1][1][0][1] in arity_names))
                nxt = lb[i + 1] if i + 1 < len(lb) else None
                resized = (st[2][0][1] is None and nxt is not None and nxt[0] == 'expr' and nxt[1][0] == 'call' and nxt[1][1] == ('member', ('id', groups), 'resize', False)
                           and len(nxt[1][2]) == 1 and (nxt[1][2][0] == ARITY or (nxt[1][2][0][0] == 'id' and nxt[1][2][0][1] in arity_names)))
                if not (sized or resized):
                    raise mc.Unsupported('build_dispatch_tables: `groups` is no longer a vector of one (empty) map per virtual parameter')
                gi = i + (1 if sized else 2)
        if groups is None:
            raise mc.Unsupported('build_dispatch_tables: no `std::vector<group_map> groups`')
        # the block that fills the groups: the first statement after the declaration
        def bounds_of(C):
            b = [call0(C, 'size')]
            if C == ('member', M, 'vp', False):
                b += [ARITY] + [('id', a) for a in arity_names]
            return b
        gtext = Groups(arity_names, groups).stmts(index_to_range([lb[gi]], bounds_of))
        if not gtext.startswith('(GForParams'):
            raise mc.Unsupported('build_dispatch_tables: the statement after the declaration of `groups` is no longer the loop that fills them')
        # the loop that writes the v-table entries: the for statement whose body walks groups[dim]
        ents = [st for st in lb[gi + 1:] if st[0] == 'for' and mc._mentions(st, 'vtbl')]
        if len(ents) != 1:
            raise mc.Unsupported('build_dispatch_tables: expected exactly one loop that writes v-table entries, found %d' % len(ents))
        MI = ('bin', '-', ('un', '&', M), ('un', '&', ('index', ('id', 'methods'), ('num', 0))))
        mi_names = [st[2][0][0] for st in lb if st[0] == 'decl' and st[1].startswith('const') and len(st[2]) == 1 and st[2][0][1] == MI]
        E = Entries(arity_names, groups, mi_names)
        fm = re.search(r'struct\s+vtbl_entry\s*\{\s*std::size_t\s+([\w\s,]+);\s*\}', src)
        E.fields = [x.strip() for x in fm.group(1).split(',')] if fm else None
        etext = E.loop(ents[0])
        # nothing else may write `groups` or a v-table
        for st in lb[gi + 1:]:
            if st is ents[0]:
                continue
            if mc._mentions(st, 'vtbl'):
                raise mc.Unsupported('build_dispatch_tables: another statement touches the v-tables or `groups`: ' + mc.show(st)[:200])
    except mc.Unsupported as e:
        die(str(e))
    out = ('(* GENERATED by translators/grouping.py from %s - do not edit.\n'
           '   The grouping of classes by mask and the writing of the v-table entries in compiler<Policy>::build_dispatch_tables,\n'
           '   in the languages of Model/MiniGrp.v. *)\n'
           'From Y2 Require Import Model.MiniGrp.\n\n'
           'Definition gen_groups : gstmt :=\n  %s.\n\n'
           'Definition gen_entries : estmt :=\n  %s.\n' % (SRC, gtext, etext))
    vlib.write_if_changed(os.path.join(vlib.COQ, 'Gen', 'GenGrp.v'), out)


if __name__ == '__main__':
    main()
