#!/usr/bin/env python3
"""/repo/include/yorel/yomm2/generator.hpp  ->  coq/Gen/GenWr.v      (property C13)

Source-to-Gallina translation of the part of generator::encode_dispatch_data that WRITES the cells: the loop over the methods
that prints slots and strides, the loop over the classes and their v-table entries, the loop over the multi-method dispatch
tables.  Parsed with translators/_minicpp.py; every `uint16_t(...)` handed to the stream is lowered, in order, into the
language of coq/Model/MiniWr.v; text (indentation, comments, separators) carries no cell and is checked only for the three
separators that close one array and open the next.  Anything else is refused (exit 3).  Proofs/WrSource.v proves the cells
equal to e_slots / e_vtbls / e_dtbls of Model.Codec.encode.
"""
import os, re, sys

sys.path.insert(0, os.path.dirname(os.path.abspath(__file__)))
sys.path.insert(0, os.path.join(os.path.dirname(os.path.abspath(__file__)), '..', 'tools'))
import vlib
import _minicpp as mc

REPO = os.environ.get('VERIF_REPO', '/repo')
SRC = os.path.join(REPO, 'include/yorel/yomm2/generator.hpp')


def die(msg):
    sys.stderr.write('encwrite.py: ' + msg + '\n')
    print('encwrite.py: ' + msg)
    sys.exit(3)


def nonempty(stmts):
    return [s for s in stmts if s != ('block', []) and s != ('using',)]


def body_of(st):
    return nonempty(st[1]) if st[0] == 'block' else [st]


def call0(obj, name, arrow=False):
    return ('call', ('member', obj, name, arrow), [])


def chain(e):
    """os << a << b << c  ->  [a, b, c]   (None when e is not such a chain)"""
    ops = []
    while isinstance(e, tuple) and len(e) == 4 and e[0] == 'bin' and e[1] == '<<':
        ops.append(e[3])
        e = e[2]
    return list(reversed(ops)) if e == ('id', 'os') else None


def is_text(e):
    if e[0] == 'str' or e in (('id', 'indent'), ('id', 'std::hex'), ('id', 'std::showbase'), ('id', 'std::dec')):
        return True
    if e[0] == 'call' and e[1] == ('id', 'boost::core::demangle'):
        return True
    if e[0] == 'cond' and e[2][0] == 'str':
        return True
    return False


def seq(out):
    out = [t for t in out if t != 'WSkip']
    if not out:
        return 'WSkip'
    r = out[-1]
    for t in reversed(out[:-1]):
        r = '(WSeq %s\n   %s)' % (t, r)
    return r


class Lower:
    def __init__(self, section):
        self.section = section
        self.method = None        # loop variable over the methods (pointer in the slots section, reference in the tables section)
        self.cls = None
        self.entry = None
        self.stop = None
        self.bound = None         # auto method = methods[entry.method_index]
        self.spec = None          # auto spec = method->dispatch_table[entry.group_index]
        self.last = None          # auto& last = method.dispatch_table.back()
        self.dt_iter = None

    def bad(self, msg, node):
        raise mc.Unsupported('encode_dispatch_data (%s): %s: %s' % (self.section, msg, mc.show(node)[:300]))

    def e(self, x):
        k = x[0]
        if k == 'num':
            return '(WNum %d)' % x[1]
        if x == ('id', 'stop_bit'):
            return 'WStopBit'
        if x == ('id', 'index_bit'):
            return 'WIndexBit'
        if self.stop and x == ('id', self.stop):
            return 'WStop'
        if k == 'bin' and x[1] == '|':
            return '(WOr %s %s)' % (self.e(x[2]), self.e(x[3]))
        if (k == 'call' and x[1] in (('id', 'uint16_t'), ('id', 'std::uint16_t')) and len(x[2]) == 1):
            return '(WU16 %s)' % self.e(x[2][0])
        if k == 'cast' and x[2] in ('uint16_t', 'std::uint16_t'):
            return '(WU16 %s)' % self.e(x[3])
        if self.cls:
            if x == ('member', ('id', self.cls), 'first_slot', False):
                return 'WFirstSlot'
            if x == ('cond', call0(('member', ('id', self.cls), 'vtbl', False), 'empty'), ('id', 'stop_bit'), ('num', 0)):
                return 'WStopIfVtblEmpty'
        if self.entry:
            if x == ('member', ('id', self.entry), 'group_index', False):
                return 'WEntryGroup'
            if x == ('member', ('id', self.entry), 'method_index', False):
                return 'WEntryMethod'
            if self.bound:
                cell = ('index', ('member', ('id', self.bound), 'dispatch_table', True), ('member', ('id', self.entry), 'group_index', False))
                if x == ('member', cell, 'spec_index', True) or (self.spec and x == ('member', ('id', self.spec), 'spec_index', True)):
                    return 'WCellSpecIndex'
        if self.section == 'tables' and self.method:
            back = call0(('member', ('id', self.method), 'dispatch_table', False), 'back')
            if x == ('member', back, 'spec_index', True) or (self.last and x == ('member', ('id', self.last), 'spec_index', True)):
                return 'WLastSpecIndex'
        self.bad('expression not in the subset', x)

    def emit_chain(self, ops, st):
        out = []
        for o in ops:
            if is_text(o):
                continue
            if o[0] == 'call' and o[1] in (('id', 'uint16_t'), ('id', 'std::uint16_t')) and len(o[2]) == 1:
                out.append('(WEmit %s)' % self.e(o[2][0]))
            else:
                self.bad('something other than text or a uint16_t(...) is handed to the stream', st)
        return seq(out)

    def transform_u16(self, e, seq_expr, elem_field=None):
        """std::transform(S.begin(), S.end()[ - 1], std::ostream_iterator<uint16_t>(os, ", "), [..](auto x) { return uint16_t(x[->f]); })"""
        if not (e[0] == 'call' and e[1] == ('id', 'std::transform') and len(e[2]) == 4):
            return None
        b, en, it, lam = e[2]
        if b != call0(seq_expr, 'begin'):
            return None
        if not (it[0] == 'call' and it[1] == ('tmpl', 'std::ostream_iterator', ['uint16_t']) and len(it[2]) == 2 and it[2][0] == ('id', 'os') and it[2][1][0] == 'str'):
            return None
        if not (lam[0] == 'lambda' and len(lam[2]) == 1):
            return None
        x = ('id', lam[2][0]) if elem_field is None else ('member', ('id', lam[2][0]), elem_field, True)
        rets = [('return', ('call', ('id', 'uint16_t'), [x])), ('return', ('cast', 'c', 'uint16_t', x))]
        if body_of(lam[3]) not in ([rets[0]], [rets[1]]):
            return None
        if en == call0(seq_expr, 'end'):
            return 'all'
        if en == ('bin', '-', call0(seq_expr, 'end'), ('num', 1)):
            return 'butlast'
        return None

    def loop_u16(self, st, seq_expr):
        """for (auto x : S) os << uint16_t(x) << ", ";"""
        if st[0] == 'rangefor' and isinstance(st[1], str) and st[2] == seq_expr:
            b = body_of(st[3])
            if len(b) == 1 and b[0][0] == 'expr':
                ops = chain(b[0][1])
                if ops is not None and [o for o in ops if not is_text(o)] == [('call', ('id', 'uint16_t'), [('id', st[1])])]:
                    return True
        return False

    def stmts(self, sts):
        sts = nonempty(sts)
        # const auto n = cls.vtbl.size();  (the v-table is not modified here)  and the index loop over it, read as the counted range-for
        if self.section == 'vtbls' and self.cls and self.entry is None:
            VT = ('member', ('id', self.cls), 'vtbl', False)
            for st in list(sts):
                if st[0] == 'decl' and st[1].replace(' ', '').startswith('const') and len(st[2]) == 1 and st[2][0][1] == call0(VT, 'size'):
                    sts = mc._subst_ids([x for x in sts if x is not st], {st[2][0][0]: call0(VT, 'size')})
            sts = mc.index_to_range(sts, lambda C: [call0(C, 'size')])
            # std::size_t i = 0; for (entry : cls.vtbl) { ...; ++i; }   -> the loop, its counter remembered
            for k in range(len(sts) - 1):
                a, b = sts[k], sts[k + 1]
                if (a[0] == 'decl' and len(a[2]) == 1 and a[2][0][1] == ('num', 0) and b[0] == 'rangefor' and b[2] == VT and body_of(b[3])
                        and body_of(b[3])[-1] == ('expr', ('un', '++', ('id', a[2][0][0])))
                        and not mc._assigns(body_of(b[3])[:-1], a[2][0][0]) and not mc._mentions(sts[k + 2:], a[2][0][0])):
                    self.counter = a[2][0][0]
                    sts = sts[:k] + [(b[0], b[1], b[2], ('block', body_of(b[3])[:-1]))] + sts[k + 2:]
                    break
        out = []
        i = 0
        while i < len(sts):
            st = sts[i]
            # if (c) continue; REST   ==   if (c) {} else { REST }
            if st[0] == 'if' and not st[1] and st[4] is None and body_of(st[3]) == [('continue',)]:
                out.append('(WIf %s WSkip %s)' % (self.c(st[2]), self.stmts(sts[i + 1:])))
                break
            out.append(self.s(st))
            i += 1
        return seq(out)

    def c(self, x):
        if self.entry and x in (('bin', '>', ('member', ('id', self.entry), 'vp_index', False), ('num', 0)),
                                ('bin', '!=', ('member', ('id', self.entry), 'vp_index', False), ('num', 0))):
            return 'WVpPositive'
        if self.bound and x in (('bin', '==', ('call', ('member', ('member', ('id', self.bound), 'info', True), 'arity', True), []), ('num', 1)),
                                ('bin', '==', call0(('id', self.bound), 'arity', True), ('num', 1))):
            return 'WArityIs1'
        if self.section == 'tables' and self.method and x in (('bin', '<', call0(('id', self.method), 'arity'), ('num', 2)),
                                                              ('bin', '<=', call0(('id', self.method), 'arity'), ('num', 1))):
            return 'WArityLt2'
        self.bad('condition not in the subset', x)

    def s(self, st):
        k = st[0]
        if k == 'block':
            return self.stmts(st[1])
        if k == 'expr':
            ops = chain(st[1])
            if ops is not None:
                return self.emit_chain(ops, st)
            e = st[1]
            if self.section == 'slots' and self.method:
                for field, ctor in (('slots', 'WEmitSlots'), ('strides', 'WEmitStrides')):
                    if self.transform_u16(e, ('member', ('id', self.method), field, True)) == 'all':
                        return ctor
            if self.dt_iter and e[0] == 'assign' and e[1] == '=' and e[2] == ('un', '*', ('id', self.dt_iter)):
                return '(WEmitThroughIterator %s)' % self.e(e[3])
        if k == 'decl' and len(st[2]) == 1:
            name, init = st[2][0]
            if init is not None and self.section == 'slots' and self.method:
                for field, ctor in (('slots', 'WEmitSlots'), ('strides', 'WEmitStrides')):
                    if self.transform_u16(init, ('member', ('id', self.method), field, True)) == 'all':
                        return ctor           # the returned iterator is not used for output
            if (init is not None and self.entry and self.cls and init[0] == 'cond' and init[2] == ('id', 'stop_bit') and init[3] == ('num', 0)
                    and init[1] in [('bin', '==', ('un', '&', ('id', self.entry)), ('un', '&', call0(('member', ('id', self.cls), 'vtbl', False), 'back'))),
                                    ('bin', '==', ('un', '&', call0(('member', ('id', self.cls), 'vtbl', False), 'back')), ('un', '&', ('id', self.entry)))]
                    + ([('bin', '==', ('bin', '+', ('id', self.counter), ('num', 1)), call0(('member', ('id', self.cls), 'vtbl', False), 'size')),
                        ('bin', '==', call0(('member', ('id', self.cls), 'vtbl', False), 'size'), ('bin', '+', ('id', self.counter), ('num', 1)))]
                       if getattr(self, 'counter', None) else [])):        # position + 1 == size: the last entry, position-wise
                self.stop = name
                return 'WSetStopIfLast'
            if init is not None and self.entry and init == ('index', ('id', 'methods'), ('member', ('id', self.entry), 'method_index', False)):
                self.bound = name
                return 'WBindMethodOfEntry'
            if (init is not None and self.entry and self.bound
                    and init == ('index', ('member', ('id', self.bound), 'dispatch_table', True), ('member', ('id', self.entry), 'group_index', False))):
                self.spec = name
                return 'WSkip'            # a name for the cell; its spec_index is read where it is printed
            if init is not None and self.section == 'tables' and self.method:
                DT = ('member', ('id', self.method), 'dispatch_table', False)
                if self.transform_u16(init, DT, 'spec_index') == 'butlast':
                    self.dt_iter = name
                    return 'WEmitTableButLast'
                if init == call0(DT, 'back') and st[1] in ('auto &', 'const auto &', 'auto'):
                    self.last = name
                    return 'WSkip'
        if k == 'rangefor' and isinstance(st[1], str):
            if self.section == 'slots' and self.method:
                for field, ctor in (('slots', 'WEmitSlots'), ('strides', 'WEmitStrides')):
                    if self.loop_u16(st, ('member', ('id', self.method), field, True)):
                        return ctor
            if self.section == 'vtbls' and self.cls and self.entry is None and st[2] == ('member', ('id', self.cls), 'vtbl', False):
                self.entry = st[1]
                b = self.stmts(body_of(st[3]))
                self.entry = self.stop = self.bound = self.spec = None
                return '(WForEntries %s)' % b
        if k == 'if' and not st[1] and st[4] is not None:
            c = self.c(st[2])
            saved = (self.bound, self.spec)
            a = self.stmts(body_of(st[3]))
            self.bound, self.spec = saved
            b = self.stmts(body_of(st[4]))
            self.bound, self.spec = saved
            return '(WIf %s\n   %s\n   %s)' % (c, a, b)
        self.bad('statement not in the subset', st)


def main():
    try:
        src = mc.strip_comments(open(SRC).read())
    except OSError as e:
        die('cannot read %s: %s' % (SRC, e))
    try:
        starts = [m.start() for m in re.finditer(r'void\s+generator::encode_dispatch_data\(', src)]
        if len(starts) != 2:
            raise mc.Unsupported('expected the two overloads of generator::encode_dispatch_data')
        params, body, _ = mc.find_function(src[starts[1]:], r'void\s+generator::encode_dispatch_data', 'encode_dispatch_data')
        cut = body.find('os << prelude;')
        if cut < 0:
            raise mc.Unsupported('`os << prelude;` not found: the writing part no longer follows the prelude')
        top = nonempty(mc.parse_function_body('{' + body[cut + len('os << prelude;'):], ('ostream_iterator', 'std::ostream_iterator'))[1])
        # methods[i] == &compiler.methods[i]
        CM = ('member', ('id', 'compiler'), 'methods', False)
        fill_a = [('decl', 'std::vector <const generic_compiler :: method *>', [('methods', None)]),
                  ('expr', ('call', ('member', ('id', 'methods'), 'resize', False), [call0(CM, 'size')])),
                  ('expr', ('call', ('id', 'std::transform'), [call0(CM, 'begin'), call0(CM, 'end'), call0(('id', 'methods'), 'begin'),
                                                                ('lambda', [], ['method'], ('block', [('return', ('un', '&', ('id', 'method')))]))]))]
        rest = None
        if top[:3] == fill_a:
            rest = top[3:]
        elif (len(top) > 3 and top[0] == fill_a[0] and top[1] == ('expr', ('call', ('member', ('id', 'methods'), 'reserve', False), [call0(CM, 'size')]))
              and top[2][0] == 'rangefor' and isinstance(top[2][1], str) and top[2][2] == CM
              and body_of(top[2][3]) == [('expr', ('call', ('member', ('id', 'methods'), 'push_back', False), [('un', '&', ('id', top[2][1]))]))]):
            rest = top[3:]
        if rest is None:
            raise mc.Unsupported('`methods` is no longer the vector of the addresses of compiler.methods, in order')
        loops = [i for i, st in enumerate(rest) if st[0] == 'rangefor']
        if len(loops) != 3:
            raise mc.Unsupported('expected three top-level loops (slots and strides, v-tables, dispatch tables), found %d' % len(loops))
        # everything between the loops is text; the separators close one array and open the next
        for i, st in enumerate(rest):
            if i in loops:
                continue
            ops = chain(st[1]) if st[0] == 'expr' else None
            if ops is None or not all(is_text(o) for o in ops):
                raise mc.Unsupported('a statement between the loops is not text output: ' + mc.show(st)[:200])

        def text_between(a, b):
            t = ''
            for st in rest[a + 1:b]:
                for o in chain(st[1]):
                    if o[0] == 'str':
                        t += o[1]
            return t
        if '}, {' not in text_between(loops[0], loops[1]) or '} } }, {' not in text_between(loops[1], loops[2]) or '} };' not in text_between(loops[2], len(rest)):
            raise mc.Unsupported('the separators between the three arrays (`}, {`, `} } }, {`, `} };`) are no longer printed between the loops')
        l0, l1, l2 = (rest[i] for i in loops)
        if not (isinstance(l0[1], str) and l0[2] == ('id', 'methods')):
            raise mc.Unsupported('the first loop no longer walks `methods`')
        lo = Lower('slots'); lo.method = l0[1]
        slots = '(WForMethods %s)' % lo.stmts(body_of(l0[3]))
        if not (isinstance(l1[1], str) and l1[2] == ('member', ('id', 'compiler'), 'classes', False)):
            raise mc.Unsupported('the second loop no longer walks compiler.classes')
        lo = Lower('vtbls'); lo.cls = l1[1]
        vtbls = '(WForClasses %s)' % lo.stmts(body_of(l1[3]))
        if not (isinstance(l2[1], str) and l2[2] in (CM, ('call', ('id', 'range'), [call0(CM, 'begin'), call0(CM, 'end')]))):
            raise mc.Unsupported('the third loop no longer walks compiler.methods')
        lo = Lower('tables'); lo.method = l2[1]
        tables = '(WForMethods %s)' % lo.stmts(body_of(l2[3]))
    except mc.Unsupported as e:
        die(str(e))
    out = ('(* GENERATED by translators/encwrite.py from %s - do not edit.\n'
           '   The three loops of generator::encode_dispatch_data that write the cells, in the language of Model/MiniWr.v. *)\n'
           'From Coq Require Import NArith.\nFrom Y2 Require Import Model.MiniWr.\nLocal Open Scope N_scope.\n\n'
           'Definition gen_write_slots : wstmt :=\n  %s.\n\n'
           'Definition gen_write_vtbls : wstmt :=\n  %s.\n\n'
           'Definition gen_write_tables : wstmt :=\n  %s.\n' % (SRC, slots, vtbls, tables))
    vlib.write_if_changed(os.path.join(vlib.COQ, 'Gen', 'GenWr.v'), out)


if __name__ == '__main__':
    main()
