#!/usr/bin/env python3
"""/repo/include/yorel/yomm2/core.hpp  ->  coq/Gen/GenVptr.v      (properties C09 and C15: how a virtual_ptr gets its v-table)

Source-to-Gallina translation of
    template<class Other> virtual_ptr<Class, Policy, Box>::virtual_ptr(Other&& other)     the constructor from an object
    template<class Other> static auto virtual_ptr<...>::final(Other&& obj)
The bodies are parsed (translators/_minicpp.py) and lowered statement by statement into the language of
coq/Model/MiniVptr.v: which virtual_traits the function consults (-> traits_mode), the ids it names, `if` / `if constexpr`
on has_facet<Policy, ...> and on comparisons of ids, the hash_type_id check calls, and the five ways `vptr` is assigned.
Anything else is refused (exit 3, naming the construct).  Proofs/VptrSource.v proves the interpreted translation equal to
Model.VirtualPtr.ctor / final_.
"""
import os, re, sys

sys.path.insert(0, os.path.dirname(os.path.abspath(__file__)))
sys.path.insert(0, os.path.join(os.path.dirname(os.path.abspath(__file__)), '..', 'tools'))
import vlib
import _minicpp as mc
mc.EXPAND_ALIASES = False      # the constructor's local aliases (other_traits, ...) are read by name below

REPO = os.environ.get('VERIF_REPO', '/repo')
SRC = os.path.join(REPO, 'include/yorel/yomm2/core.hpp')
TEMPLATES = ('is_polymorphic_v', 'polymorphic_type', 'remove_reference_t', 'virtual_traits', 'has_facet', 'static_type', 'static_vptr')
FACETS = {'runtime_checks': 'FRuntimeChecks', 'type_hash': 'FTypeHash', 'indirect_vptr': 'FIndirectVptr'}
TRAITS = {'virtual_traits<Policy,conststd::remove_reference_t<Other>&>': 'TConstRef',
          'virtual_traits<Policy,Other&>': 'TOther', 'virtual_traits<Policy,Other>': 'TOther'}


def die(msg):
    sys.stderr.write('vptrctor.py: ' + msg + '\n')
    print('vptrctor.py: ' + msg)
    sys.exit(3)


def norm(t):
    return re.sub(r'\s+', '', t)


class Lower:
    def __init__(self, fname, param):
        self.fname = fname
        self.param = param        # 'other' / 'obj'
        self.traits_alias = None  # name of the alias of the virtual_traits consulted
        self.traits_mode = None
        self.poly_names = set()   # spellings of "the polymorphic type of the traits"
        self.ids = {}             # local name -> IDynamic | IStatic | IIndex
        self.result_var = None
        self.boxed = False
        self.vptr_helpers = set()   # static helpers `template<class T> static vptr_type NAME()` returning &static_vptr<T> / static_vptr<T> under indirect_vptr

    def bad(self, what, node):
        raise mc.Unsupported('%s: %s: %s' % (self.fname, what, mc.show(node)))

    def is_poly(self, text):
        t = norm(text)
        return t in self.poly_names or (self.traits_alias and t == 'typename' + self.traits_alias + '::polymorphic_type')

    def rarg_call(self, e):
        """traits::rarg(param)"""
        return (e[0] == 'call' and e[1] == ('id', '%s::rarg' % self.traits_alias) and e[2] == [('id', self.param)])

    def idinit(self, e):
        """the id an initialiser computes, or None"""
        if e[0] == 'call' and e[1] == ('id', 'Policy::dynamic_type') and len(e[2]) == 1 and self.rarg_call(e[2][0]):
            return 'IDynamic'
        if e[0] == 'call' and e[1][0] == 'tmpl' and e[1][1] == 'Policy::static_type' and e[2] == [] and len(e[1][2]) == 1 and self.is_poly(e[1][2][0]):
            return 'IStatic'
        if e[0] == 'id' and e[1] in self.ids:
            return self.ids[e[1]]
        return None

    def idv(self, e):
        if e[0] == 'id' and e[1] in self.ids:
            return self.ids[e[1]]
        i = self.idinit(e)               # the expression a name would have stood for (naming an id emits nothing)
        if i is not None:
            return i
        self.bad('not an id the function has named', e)

    def cond(self, e):
        k = e[0]
        if k == 'tmpl' and e[1] == 'has_facet' and len(e[2]) == 2 and norm(e[2][0]) == 'Policy' and norm(e[2][1]) in FACETS:
            return '(VHas %s)' % FACETS[norm(e[2][1])]
        if k == 'id' and e[1] in getattr(self, 'indirect_aliases', ()):
            return '(VHas FIndirectVptr)'        # static constexpr bool is_indirect = has_facet<indirect_vptr>;  (checked in main)
        if k == 'bin' and e[1] == '&&':
            return '(VAnd %s %s)' % (self.cond(e[2]), self.cond(e[3]))
        if k == 'un' and e[1] == '!':
            return '(VNot %s)' % self.cond(e[2])
        if k == 'bin' and e[1] in ('==', '!='):
            for a, b in ((e[2], e[3]), (e[3], e[2])):
                if b == ('null',) and self.static_vptr_kind(a) == 'VSetStatic':
                    return 'VStaticVptrNull' if e[1] == '==' else '(VNot VStaticVptrNull)'
            return '(%s %s %s)' % ('VIdEq' if e[1] == '==' else 'VIdNe', self.idv(e[2]), self.idv(e[3]))
        if self.static_vptr_kind(e) == 'VSetStatic':
            return '(VNot VStaticVptrNull)'          # the pointer in a boolean context
        self.bad('condition not in the subset', e)

    def static_vptr_kind(self, e):
        """&Policy::template static_vptr<poly> -> VSetStaticAddr ; Policy::template static_vptr<poly> -> VSetStatic"""
        addr = False
        if e[0] == 'un' and e[1] == '&':
            addr, e = True, e[2]
        if e[0] == 'tmpl' and e[1] == 'Policy::static_vptr' and len(e[2]) == 1 and self.is_poly(e[2][0]):
            return 'VSetStaticAddr' if addr else 'VSetStatic'
        return None

    def helper_vptr(self, r):
        """NAME<poly>()  with NAME a helper checked in main(): the if constexpr (indirect_vptr) choice between the two static forms"""
        if (r[0] == 'call' and r[2] == [] and r[1][0] == 'tmpl' and r[1][1] in self.vptr_helpers and len(r[1][2]) == 1 and self.is_poly(r[1][2][0])):
            return '(VIf (VHas FIndirectVptr)\n  VSetStaticAddr\n  VSetStatic)'
        return None

    def seq(self, stmts):
        out = [self.s(x) for x in stmts]
        out = [x for x in out if x != 'VSkip']
        if not out:
            return 'VSkip'
        r = out[-1]
        for x in reversed(out[:-1]):
            r = '(VSeq %s\n  %s)' % (x, r)
        return r

    def s(self, st):
        k = st[0]
        if k == 'block':
            return self.seq(st[1])
        if k == 'using':
            return 'VSkip'
        if k == 'alias':
            name, ty = st[1], st[2]
            if ty in TRAITS:
                if self.traits_alias:
                    self.bad('two traits aliases', st)
                self.traits_alias, self.traits_mode = name, TRAITS[ty]
                return 'VSkip'
            if self.traits_alias and ty == 'typename' + self.traits_alias + '::polymorphic_type':
                self.poly_names.add(name)
                return 'VSkip'
            self.bad('type alias not understood', st)
        if k == 'if':
            return '(VIf %s\n  %s\n  %s)' % (self.cond(st[2]), self.s(st[3]), self.s(st[4]) if st[4] else 'VSkip')
        if k == 'decl':
            ty = st[1]
            out = []
            for name, init in st[2]:
                if name == 'vptr' and init is not None:
                    hv = self.helper_vptr(init) or self.static_vptr_kind(init)
                    if hv:
                        out.append(hv)
                        continue
                    self.bad('initialiser of vptr not in the subset', st)
                if init is None:
                    if name == 'vptr' or ty in ('virtual_ptr', 'method_table_error'):
                        if ty == 'virtual_ptr':
                            self.result_var = name
                        continue
                    self.bad('declaration without initialiser', st)
                i = self.idinit(init)
                if i is None:
                    self.bad('initialiser is not an id the model knows', st)
                if name == 'index':
                    self.ids[name] = 'IIndex'
                    out.append('(VIndexInit %s)' % i)
                else:
                    self.ids[name] = i
            return self.seq_text(out)
        if k == 'return':
            if st[1] == ('id', self.result_var) and self.result_var:
                return 'VSkip'
            self.bad('return', st)
        if k == 'expr':
            e = st[1]
            if e[0] == 'call' and e[1] == ('id', 'static_assert'):
                return 'VSkip'
            if e[0] == 'call' and e[1] == ('id', 'box') and e[2] == [('id', self.param)]:
                self.boxed = True
                return 'VBox'
            if e[0] == 'call' and self.result_var and e[1] == ('member', ('id', self.result_var), 'box', False) and e[2] == [('id', self.param)]:
                self.boxed = True
                return 'VBox'
            if e[0] == 'call' and e[1] == ('id', 'Policy::hash_type_id') and len(e[2]) == 1:
                return '(VHashCheck %s)' % self.idv(e[2][0])
            if e[0] == 'assign' and e[1] == '=':
                l, r = e[2], e[3]
                if self.result_var and l == ('member', ('id', self.result_var), 'vptr', False) and r == ('id', 'vptr'):
                    return 'VSkip'          # result.vptr = vptr
                if l == ('id', 'index') and r == ('call', ('id', 'Policy::hash_type_id'), [('id', 'index')]) and self.ids.get('index') == 'IIndex':
                    return 'VIndexHash'
                if l == ('id', 'vptr') or (self.result_var and l == ('member', ('id', self.result_var), 'vptr', False)):
                    sk = self.static_vptr_kind(r)
                    if sk:
                        return sk
                    hv = self.helper_vptr(r)
                    if hv:
                        return hv
                    if r == ('index', ('id', 'Policy::indirect_vptrs'), ('id', 'index')) and self.ids.get('index') == 'IIndex':
                        return 'VSetIndirectAt'
                    if r[0] == 'call' and r[1] == ('id', 'Policy::dynamic_vptr') and len(r[2]) == 1 and self.rarg_call(r[2][0]):
                        return 'VSetDynamic'
                if l == ('member', ('id', 'error'), 'type', False):
                    self.err_type = self.idv(r)
                    return 'VSkip'
            if e == ('call', ('id', 'Policy::error'), [('id', 'error')]):
                return 'VSkip'
            if e == ('call', ('id', 'abort'), []):
                if getattr(self, 'err_type', None) is None:
                    self.bad('abort() without a preceding method_table_error', st)
                r = '(VErrorMethodTable %s)' % self.err_type
                self.err_type = None
                return r
            self.bad('expression statement not in the subset', st)
        self.bad('statement not in the subset', st)

    def seq_text(self, out):
        if not out:
            return 'VSkip'
        r = out[-1]
        for x in reversed(out[:-1]):
            r = '(VSeq %s\n  %s)' % (x, r)
        return r


def class_region(src, name):
    m = re.search(r'\bclass\s+%s\s*\{' % name, src)
    if not m:
        raise mc.Unsupported('class %s not found' % name)
    b = m.end() - 1
    return src[b:mc.balanced(src, b, '{', '}')]


def main():
    try:
        src = mc.strip_comments(open(SRC).read())
    except OSError as e:
        die('cannot read %s: %s' % (SRC, e))
    out = {}
    try:
        reg = class_region(src, 'virtual_ptr')
        # template<class T> static vptr_type NAME() { if constexpr (is_indirect | has_facet<Policy, indirect_vptr>) return &Policy::template static_vptr<T>; else return Policy::template static_vptr<T>; }
        helpers = set()
        indirect_names = {'has_facet<Policy,indirect_vptr>', 'has_facet<Policy,policy::indirect_vptr>'}
        if re.search(r'static\s+constexpr\s+bool\s+is_indirect\s*=\s*(?:Policy::template\s+)?has_facet\s*<\s*(?:Policy\s*,\s*)?(?:policy::)?indirect_vptr\s*>\s*;', reg):
            indirect_names.add('is_indirect')
        for m in re.finditer(r'template\s*<\s*class\s+(\w+)\s*>\s*static\s+vptr_type\s+(\w+)\s*\(\s*\)\s*\{', reg):
            T, name = m.group(1), m.group(2)
            b = m.end() - 1
            body = norm(reg[b:mc.balanced(reg, b, '{', '}')])
            forms = ['{ifconstexpr(%s){return&Policy::templatestatic_vptr<%s>;}else{returnPolicy::templatestatic_vptr<%s>;}}' % (c, T, T) for c in indirect_names]
            if body in forms:
                helpers.add(name)
        for fname, header, param in (('ctor', r'\bvirtual_ptr\s*(?=\(\s*Other\s*&&\s*other\s*\))', 'other'),
                                     ('final', r'\bstatic\s+auto\s+final\s*(?=\(\s*Other\s*&&\s*obj\s*\))', 'obj')):
            params, body, line = mc.find_function(reg, header, 'virtual_ptr::' + fname)
            ast = mc.parse_function_body(body, TEMPLATES + tuple(helpers))
            lw = Lower('virtual_ptr::' + fname, param)
            lw.vptr_helpers = helpers
            lw.indirect_aliases = {n for n in indirect_names if '<' not in n}
            text = lw.s(ast)
            if lw.traits_mode is None:
                raise mc.Unsupported('virtual_ptr::%s: no virtual_traits alias found' % fname)
            if not lw.boxed:
                raise mc.Unsupported('virtual_ptr::%s: the object is never boxed' % fname)
            out[fname] = '{| vf_traits := %s;\n   vf_body :=\n %s |}' % (lw.traits_mode, text)
    except mc.Unsupported as e:
        die(str(e))
    text = ('(* GENERATED by translators/vptrctor.py from %s - do not edit.\n'
            '   virtual_ptr(Other&&) and virtual_ptr::final(Other&&), translated into the language of Model/MiniVptr.v. *)\n'
            'From Y2 Require Import Model.VirtualPtr Model.MiniVptr.\n\n'
            'Definition gen_ctor : vfun :=\n  %s.\n\nDefinition gen_final : vfun :=\n  %s.\n' % (SRC, out['ctor'], out['final']))
    vlib.write_if_changed(os.path.join(vlib.COQ, 'Gen', 'GenVptr.v'), text)


if __name__ == '__main__':
    main()
