#!/usr/bin/env python3
"""/repo/include/yorel/yomm2/decode.hpp  ->  coq/Gen/GenDec.v      (property C13)

Source-to-Gallina translation of the control flow of decode_dispatch_data<Policy>(init):
    the loop that decodes one multi-method's dispatch table in place,
    the lambda `fetch`,
    the body of the loop over the classes (first slot, static v-table pointer, the loop over the v-table entries).
The whole function body is parsed (translators/_minicpp.py; trace output and the local `struct record` are dropped first);
the skeleton around the three pieces is matched on the AST (what is iterated, which cursor starts where, the `continue`
for a class that already has a v-table, how method_defs[] is filled: the definitions, then ambiguous, then not_implemented),
the pieces are lowered statement by statement into the language of coq/Model/MiniDec.v.  Anything else is refused (exit 3).
Proofs/DecSource.v proves that the decoder assembled from the translated pieces is Model.Codec.decode.
"""
import os, re, sys

sys.path.insert(0, os.path.dirname(os.path.abspath(__file__)))
sys.path.insert(0, os.path.join(os.path.dirname(os.path.abspath(__file__)), '..', 'tools'))
import vlib
import _minicpp as mc

REPO = os.environ.get('VERIF_REPO', '/repo')
DEC = os.path.join(REPO, 'include/yorel/yomm2/decode.hpp')


def die(msg):
    sys.stderr.write('decoder.py: ' + msg + '\n')
    print('decoder.py: ' + msg)
    sys.exit(3)


def q(s):
    return '"%s"' % s


class Lower:
    """statements over the cursors dtbl_iter / encode_iter / decode_iter, the arrays defs / methods / method_defs /
    dispatch_tables, `last`, fetch(), and value / bool locals"""

    def __init__(self, what, in_dtbl):
        self.what = what
        self.in_dtbl = in_dtbl
        self.nlocals = set()
        self.blocals = set()
        self.method_alias = {}      # local name -> expression text of the method index it was loaded with

    def bad(self, msg, node):
        raise mc.Unsupported('%s: %s: %s' % (self.what, msg, mc.show(node)))

    def e(self, x):
        k = x[0]
        if k == 'num':
            return '(XNum %d)' % x[1]
        if k == 'id' and x[1] == 'stop_bit':
            return 'XStopBit'
        if k == 'id' and x[1] == 'index_bit':
            return 'XIndexBit'
        if k == 'id' and x[1] in self.nlocals:
            return '(XVar %s)' % q(x[1])
        if k == 'un' and x[1] == '*' and x[2] == ('id', 'dtbl_iter') and self.in_dtbl:
            return 'XReadDtbl'
        if k == 'bin' and x[1] == '&':
            for a, b in ((x[2], x[3]), (x[3], x[2])):
                if b[0] == 'un' and b[1] == '~':
                    return '(XBitAndNot %s %s)' % (self.e(a), self.e(b[2]))
            return '(XBitAnd %s %s)' % (self.e(x[2]), self.e(x[3]))
        self.bad('expression not in the subset', x)

    def is_bool(self, x):
        k = x[0]
        return (k == 'bool' or (k == 'un' and x[1] == '!') or (k == 'id' and (x[1] in self.blocals or x[1] == 'last'))
                or (k == 'bin' and x[1] in ('==', '!=', '<', '>', '<=', '>=', '&&', '||')))

    def c(self, x):
        k = x[0]
        if k == 'bool':
            return '(CConst %s)' % ('true' if x[1] else 'false')
        if k == 'un' and x[1] == '!':
            return '(CNot %s)' % self.c(x[2])
        if k == 'id' and x[1] == 'last' and not self.in_dtbl:
            return 'CLast'
        if k == 'id' and x[1] in self.blocals:
            return '(CFlag %s)' % q(x[1])
        if k == 'bin' and x[1] in ('==', '!='):
            for a, b in ((x[2], x[3]), (x[3], x[2])):
                if (b == ('num', 1) and a[0] == 'call' and a[2] == [] and a[1][0] == 'member' and a[1][2] == 'arity' and a[1][3]
                        and a[1][1][0] == 'id' and a[1][1][1] in self.method_alias):
                    r = '(CArityIs1 %s)' % self.method_alias[a[1][1][1]]
                    return r if x[1] == '==' else '(CNot %s)' % r
            self.bad('comparison not in the subset', x)
        if k == 'bin' and x[1] in ('<', '>', '<=', '>=', '&&', '||'):
            self.bad('condition not in the subset', x)
        return '(CNonZero %s)' % self.e(x)

    def seq(self, stmts):
        out = [self.s(t) for t in stmts]
        out = [t for t in out if t != 'SSkip']
        if not out:
            return 'SSkip'
        r = out[-1]
        for t in reversed(out[:-1]):
            r = '(SSeq %s\n  %s)' % (t, r)
        return r

    def store(self, l, r, st):
        # *dtbl_iter++ = defs[e]
        if l == ('un', '*', ('post', '++', ('id', 'dtbl_iter'))) and self.in_dtbl:
            if r[0] == 'index' and r[1] == ('id', 'defs'):
                return '(SStoreDef %s)' % self.e(r[2])
            self.bad('what is stored through dtbl_iter is not defs[...]', st)
        if l == ('un', '*', ('post', '++', ('id', 'decode_iter'))) and not self.in_dtbl:
            if r[0] == 'index' and r[1][0] == 'index' and r[1][1] == ('id', 'method_defs'):
                return '(SPutDef %s %s)' % (self.e(r[1][2]), self.e(r[2]))
            if (r[0] == 'cast' and re.sub(r'\s|std::', '', r[2]) == 'uintptr_t' and r[3][0] == 'bin' and r[3][1] == '+'
                    and r[3][2][0] == 'index' and r[3][2][1] == ('id', 'dispatch_tables')):
                return '(SPutRow %s %s)' % (self.e(r[3][2][2]), self.e(r[3][3]))
            return '(SPutIdx %s)' % self.e(r)
        if l == ('un', '*', ('member', ('id', 'cls'), 'static_vptr', False)) and not self.in_dtbl:
            if r[0] == 'bin' and r[1] == '-' and r[2] == ('id', 'decode_iter'):
                return '(SSetVptr %s)' % self.e(r[3])
            self.bad('static_vptr is not set to decode_iter - <first slot>', st)
        return None

    def s(self, st):
        k = st[0]
        if k == 'block':
            return self.seq(st[1])
        if k == 'using':
            return 'SSkip'
        if k == 'decl':
            ty = st[1].replace('const', '').strip()
            out = []
            for name, init in st[2]:
                if init is None:
                    (self.blocals if ty == 'bool' else self.nlocals).add(name)
                    continue
                if init == ('call', ('id', 'fetch'), []) and not self.in_dtbl:
                    self.nlocals.add(name)
                    out.append('(SLetFetch %s)' % q(name))
                elif init[0] == 'index' and init[1] == ('id', 'methods') and not self.in_dtbl:
                    out.append('(SLoadMethod %s %s)' % (q(name), self.e(init[2])))          # auto method = methods[mi];
                    self.method_alias[name] = '(XVar %s)' % q(name)
                elif ty == 'bool' or self.is_bool(init):
                    c = self.c(init)
                    self.blocals.add(name)
                    out.append('(SLetB %s %s)' % (q(name), c))
                else:
                    v = self.e(init)
                    self.nlocals.add(name)
                    out.append('(SLet %s %s)' % (q(name), v))
            r = 'SSkip'
            for t in reversed(out):
                r = t if r == 'SSkip' else '(SSeq %s %s)' % (t, r)
            return r
        if k == 'if':
            if st[1]:
                self.bad('if constexpr', st)
            return '(SIf %s\n  %s\n  %s)' % (self.c(st[2]), self.s(st[3]), self.s(st[4]) if st[4] else 'SSkip')
        if k == 'while':
            return '(SWhile %s\n  %s)' % (self.c(st[1]), self.s(st[2]))
        if k == 'dowhile':
            return '(SDoWhile %s\n  %s)' % (self.s(st[1]), self.c(st[2]))
        if k == 'expr':
            e = st[1]
            if e[0] == 'assign' and e[1] == '=':
                l, r = e[2], e[3]
                got = self.store(l, r, st)
                if got:
                    return got
                if l[0] == 'id' and l[1] in self.blocals:
                    return '(SLetB %s %s)' % (q(l[1]), self.c(r))
                if l[0] == 'id' and l[1] in self.nlocals:
                    if r == ('call', ('id', 'fetch'), []) and not self.in_dtbl:
                        return '(SLetFetch %s)' % q(l[1])
                    return '(SLet %s %s)' % (q(l[1]), self.e(r))
            self.bad('expression statement not in the subset', st)
        self.bad('statement not in the subset', st)


def lower_fetch(lam):
    if lam[0] != 'lambda' or lam[2] != [] or lam[3][0] != 'block':
        raise mc.Unsupported('fetch is not a lambda without parameters: ' + mc.show(lam))
    if lam[1] != ['&']:
        raise mc.Unsupported('fetch no longer captures by reference ([&]): the cursors it advances would be copies')
    lw = Lower('fetch', False)
    out = []
    want_assert = ('call', ('id', 'BOOST_ASSERT'),
                   [('bin', '>=', ('cast', 'c', 'char *', ('bin', '+', ('id', 'encode_iter'), ('num', 1))), ('cast', 'c', 'char *', ('id', 'decode_iter')))])
    for st in lam[3][1]:
        if st == ('expr', want_assert):
            out.append('FAssertCursor')
        elif st[0] == 'decl' and len(st[2]) == 1 and st[2][0][1] == ('un', '*', ('post', '++', ('id', 'encode_iter'))):
            lw.nlocals.add(st[2][0][0])
            out.append('(FReadInc %s)' % q(st[2][0][0]))
        elif st[0] == 'expr' and st[1][0] == 'assign' and st[1][1] == '=' and st[1][2] == ('id', 'last'):
            out.append('(FSetLast %s)' % lw.c(st[1][3]))
        elif st[0] == 'return' and st[1] is not None:
            out.append('(FReturn %s)' % lw.e(st[1]))
        else:
            raise mc.Unsupported('fetch: statement not in the subset: ' + mc.show(st))
    return '[' + '; '.join(out) + ']'


def nonempty(stmts):
    return [s for s in stmts if s != ('block', []) and s != ('using',)]


def arity_gt1(c, var):
    ar = ('call', ('member', ('id', var), 'arity', False), [])
    return c in (('bin', '>', ar, ('num', 1)), ('bin', '>=', ar, ('num', 2)), ('bin', '!=', ar, ('num', 1)), ('bin', '<', ('num', 1), ar))


def main():
    try:
        src = mc.strip_comments(open(DEC).read())
    except OSError as e:
        die('cannot read %s: %s' % (DEC, e))
    try:
        params, body, line = mc.find_function(src, r'\bvoid\s+decode_dispatch_data\b', 'decode_dispatch_data')
        if re.sub(r'\s+', '', params) != 'Data&init':
            raise mc.Unsupported('decode_dispatch_data: parameter list changed: ' + params)
        b = re.sub(r'(?m)^\s*(\+\+trace|trace\s*<<)[^;]*;', '', body)
        b = re.sub(r'(?m)^\s*indent\s+_\w*\(trace\);', '', b)
        m = re.search(r'\bstruct\s+record\s*\{', b)
        if m:
            e = mc.balanced(b, m.end() - 1, '{', '}')
            b = b[:m.start()] + b[e:].lstrip().lstrip(';')
        ast = mc.parse_function_body(b, ('trace_type', 'static_type', 'has_facet', 'vector'))
        top = nonempty(ast[1])

        def flat(stmts):
            out = []
            for s in stmts:
                if s[0] == 'block':
                    out.extend(flat(nonempty(s[1])))
                else:
                    out.append(s)
            return out
        stmts = flat(top)

        def decl_of(name):
            hits = [(i, init) for i, s in enumerate(stmts) if s[0] == 'decl' for (n, init) in s[2] if n == name]
            if len(hits) != 1:
                raise mc.Unsupported('expected exactly one declaration of `%s` at function level, found %d' % (name, len(hits)))
            return hits[0]

        # ---- cursors
        i_dt, init_dt = decl_of('dtbl_iter')
        if init_dt != ('member', ('id', 'init'), 'dtbls', False):
            raise mc.Unsupported('dtbl_iter does not start at init.dtbls')
        i_enc, init_enc = decl_of('encode_iter')
        if init_enc != ('member', ('member', ('id', 'init'), 'encoded', False), 'vtbls', False):
            raise mc.Unsupported('encode_iter does not start at init.encoded.vtbls')
        i_dec, init_dec = decl_of('decode_iter')
        if init_dec != ('member', ('id', 'init'), 'vtbls', False):
            raise mc.Unsupported('decode_iter does not start at init.vtbls')
        i_last, init_last = decl_of('last')
        i_fetch, lam = decl_of('fetch')
        fetch = lower_fetch(lam)

        # ---- filling of methods[] and method_defs[] (first loop over the methods): the definitions in catalog order, then
        #      ambiguous, then not_implemented; slots and strides: 2 * arity - 1 cells per method
        loops = [(i, s) for i, s in enumerate(stmts) if s[0] == 'rangefor' and s[2] == ('id', 'Policy::methods')]
        fill = [(i, s) for i, s in loops if any(t[0] == 'expr' and t[1][0] == 'call' and t[1][1] == ('id', 'std::copy_n') for t in nonempty(s[3][1]))]
        if len(fill) != 1:
            raise mc.Unsupported('expected one loop over Policy::methods that copies the slots and strides, found %d' % len(fill))
        fb = nonempty(fill[0][1][3][1])
        mv = fill[0][1][1]
        # statement by statement: what may appear, and the order of the stores through `specs`
        order = []
        seen = set()
        spec_var = None
        for st in fb:
            if st == ('expr', ('assign', '=', ('un', '*', ('post', '++', ('id', 'methods_iter'))), ('un', '&', ('id', mv)))):
                seen.add('methods'); continue
            if st[0] == 'rangefor' and st[2] == ('member', ('id', mv), 'specs', False) and nonempty(st[3][1] if st[3][0] == 'block' else [st[3]]) == []:
                continue                                                   # the loop that only traces the definitions
            if st[0] == 'decl' and len(st[2]) == 1 and st[2][0][1] == ('bin', '-', ('bin', '*', ('num', 2), ('call', ('member', ('id', mv), 'arity', False), [])), ('num', 1)):
                count = st[2][0][0]; seen.add('count'); continue
            if 'count' in seen and st == ('expr', ('call', ('id', 'std::copy_n'), [('id', 'packed_slots_iter'), ('id', count), ('member', ('id', mv), 'slots_strides_ptr', False)])):
                seen.add('copy'); continue
            if 'count' in seen and st == ('expr', ('assign', '+=', ('id', 'packed_slots_iter'), ('id', count))):
                seen.add('advance'); continue
            if (st[0] == 'decl' and len(st[2]) == 1 and st[2][0][0] == 'specs' and st[2][0][1] is not None and st[2][0][1][0] == 'cast'
                    and st[2][0][1][3] == ('call', ('id', 'alloca'), [('bin', '*', ('bin', '+', ('call', ('member', ('member', ('id', mv), 'specs', False), 'size', False), []), ('num', 2)), ('id', 'pointer_size'))])):
                seen.add('alloca'); continue
            if st == ('expr', ('assign', '=', ('un', '*', ('post', '++', ('id', 'method_defs_iter'))), ('id', 'specs'))) and 'alloca' in seen and not order:
                seen.add('defs_ptr'); continue
            tr = ('expr', ('assign', '=', ('id', 'specs'), ('call', ('id', 'std::transform'),
                  [('call', ('member', ('member', ('id', mv), 'specs', False), 'begin', False), []), ('call', ('member', ('member', ('id', mv), 'specs', False), 'end', False), []), ('id', 'specs'),
                   ('lambda', [], ['spec'], ('block', [('return', ('cast', 'c', 'uintptr_t', ('member', ('id', 'spec'), 'pf', False)))]))])))
            if st == tr and 'defs_ptr' in seen:
                order.append('defs'); continue
            if (st[0] == 'rangefor' and isinstance(st[1], str) and st[2] == ('member', ('id', mv), 'specs', False) and 'defs_ptr' in seen
                    and nonempty(st[3][1] if st[3][0] == 'block' else [st[3]]) == [('expr', ('assign', '=', ('un', '*', ('post', '++', ('id', 'specs'))), ('cast', 'c', 'uintptr_t', ('member', ('id', st[1]), 'pf', False))))]):
                order.append('defs'); continue
            if st == ('expr', ('assign', '=', ('un', '*', ('post', '++', ('id', 'specs'))), ('cast', 'c', 'uintptr_t', ('member', ('id', mv), 'ambiguous', False)))):
                order.append('amb'); continue
            if st == ('expr', ('assign', '=', ('un', '*', ('post', '++', ('id', 'specs'))), ('cast', 'c', 'uintptr_t', ('member', ('id', mv), 'not_implemented', False)))):
                order.append('ni'); continue
            if st in (('expr', ('un', '++', ('id', 'method_index'))), ('expr', ('post', '++', ('id', 'method_index')))):
                continue                                                   # a counter nobody reads in this loop
            raise mc.Unsupported('the loop that fills methods[] / method_defs[]: statement not in the subset: ' + mc.show(st)[:300])
        need = {'methods', 'count', 'copy', 'advance', 'alloca', 'defs_ptr'}
        if not need <= seen:
            raise mc.Unsupported('the loop that fills methods[] / method_defs[] no longer does: ' + ', '.join(sorted(need - seen)))
        if order != ['defs', 'amb', 'ni']:
            raise mc.Unsupported('method_defs[mi] is no longer <the definitions, ambiguous, not_implemented> in that order: ' + repr(order))

        # ---- the dispatch-table loop
        dloops = [(i, s) for i, s in loops if i > i_dt]
        if len(dloops) != 1:
            raise mc.Unsupported('expected one loop over Policy::methods after the declaration of dtbl_iter, found %d' % len(dloops))
        dl = dloops[0][1]
        dv = dl[1]
        db = nonempty(dl[3][1] if dl[3][0] == 'block' else [dl[3]])
        inc = lambda n: (('expr', ('un', '++', ('id', n))), ('expr', ('post', '++', ('id', n))))
        if not (len(db) == 2 and db[0][0] == 'if' and not db[0][1] and db[0][4] is None and arity_gt1(db[0][2], dv) and db[1] in inc('method_index')):
            raise mc.Unsupported('the loop over the methods is no longer { if (method.arity() > 1) {...} ++method_index; }: ' + mc.show(db)[:300])
        i_mi = [i for i, s in enumerate(stmts) if s[0] == 'decl' and any(n == 'method_index' and init == ('num', 0) for n, init in s[2]) and i < dloops[0][0]]
        if not i_mi:
            raise mc.Unsupported('method_index does not start at 0 before the dispatch-table loop')
        tb = nonempty(db[0][3][1] if db[0][3][0] == 'block' else [db[0][3]])
        want0 = ('expr', ('assign', '=', ('index', ('id', 'dispatch_tables'), ('id', 'method_index')), ('id', 'dtbl_iter')))
        want1 = ('decl', 'auto', [('defs', ('index', ('id', 'method_defs'), ('id', 'method_index')))])
        if len(tb) < 3 or tb[0] != want0 or tb[1] != want1:
            raise mc.Unsupported('a multi-method no longer starts with `dispatch_tables[method_index] = dtbl_iter; auto defs = method_defs[method_index];`')
        lw = Lower('dispatch-table loop', True)
        dtbl = lw.seq(tb[2:])
        lastloop = [s for s in tb[2:] if s[0] in ('while', 'dowhile')]
        if len(lastloop) != 1:
            raise mc.Unsupported('expected exactly one loop per dispatch table')
        extra = 1 if lastloop[0][0] == 'while' else 0

        # ---- the loop over the classes
        cl = [(i, s) for i, s in enumerate(stmts) if s[0] == 'rangefor' and s[2] == ('id', 'Policy::classes') and i > i_fetch]
        if len(cl) < 1:
            raise mc.Unsupported('no loop over Policy::classes after fetch')
        cbody = nonempty(cl[0][1][3][1])
        guard = ('if', False, ('bin', '!=', ('un', '*', ('member', ('id', 'cls'), 'static_vptr', False)), ('null',)), ('block', [('continue',)]), None)
        if cl[0][1][1] != 'cls' or not cbody or cbody[0] != guard:
            raise mc.Unsupported('the loop over the classes no longer starts with `if (*cls.static_vptr != nullptr) continue;`')
        lw2 = Lower('class loop', False)
        cls_body = lw2.seq(cbody[1:])

        # ---- the tail: one record per distinct type id, handed to the policy's publish_vptrs (as update does)
        tail = [s_ for s_ in stmts if s_[0] == 'if' and s_[1] and s_[2][0] == 'tmpl' and s_[2][1] == 'Policy::has_facet'
                and re.sub(r'\s', '', s_[2][2][0]) in ('policy::external_vptr', 'external_vptr')]
        if len(tail) != 1 or tail[0][4] is not None:
            raise mc.Unsupported('the final `if constexpr (Policy::template has_facet<policy::external_vptr>)` block is gone or has an else')
        tb2 = nonempty(tail[0][3][1])
        pub = ('expr', ('call', ('id', 'Policy::publish_vptrs'),
                        [('call', ('member', ('id', 'records'), 'begin', False), []), ('call', ('member', ('id', 'records'), 'end', False), [])]))
        rbeg, rend = ('call', ('member', ('id', 'records'), 'begin', False), []), ('call', ('member', ('id', 'records'), 'end', False), [])

        def same_type_pred(lam, cv):
            """[&cv](const record& r) { return r.info->type == cv.type; }"""
            if lam[0] != 'lambda' or len(lam[2]) != 1:
                return False
            r = lam[2][0]
            same = ('bin', '==', ('member', ('member', ('id', r), 'info', False), 'type', True), ('member', ('id', cv), 'type', False))
            return lam[3] in (('block', [('return', same)]), ('block', [('return', (same[0], same[1], same[3], same[2]))]))

        # a local helper `already(cls)`: any_of over the records with that predicate
        helpers = {}
        body3 = []
        for t in tb2:
            if (t[0] == 'decl' and len(t[2]) == 1 and t[2][0][1] is not None and t[2][0][1][0] == 'lambda' and len(t[2][0][1][2]) == 1):
                lam = t[2][0][1]
                cv = lam[2][0]
                inner = nonempty(lam[3][1])
                if (len(inner) == 1 and inner[0][0] == 'return' and inner[0][1][0] == 'call' and inner[0][1][1] == ('id', 'std::any_of')
                        and inner[0][1][2][:2] == [rbeg, rend] and len(inner[0][1][2]) == 3 and same_type_pred(inner[0][1][2][2], cv)):
                    helpers[t[2][0][0]] = True
                    continue
            body3.append(t)
        rf = [t for t in body3 if t[0] == 'rangefor' and t[2] == ('id', 'Policy::classes') and isinstance(t[1], str)]
        ok = (len(body3) == 3 and body3[0][0] == 'decl' and body3[0][2] == [('records', None)] and len(rf) == 1 and body3[2] == pub)
        if ok:
            cv = rf[0][1]
            body2 = nonempty(rf[0][3][1])
            # auto seen = <expression>; if (... seen ...)   reads as the test on the expression itself
            if (len(body2) == 2 and body2[0][0] == 'decl' and body2[0][1] in ('auto', 'const auto') and len(body2[0][2]) == 1 and body2[0][2][0][1] is not None
                    and body2[1][0] == 'if' and not mc._mentions(body2[1][3:], body2[0][2][0][0])):
                nm, init = body2[0][2][0]

                def inl(n):
                    if isinstance(n, list):
                        return [inl(x) for x in n]
                    if isinstance(n, tuple):
                        return init if n == ('id', nm) else tuple(inl(x) for x in n)
                    return n
                body2 = [('if', body2[1][1], inl(body2[1][2]), body2[1][3], body2[1][4])]
            ok = len(body2) == 1 and body2[0][0] == 'if' and body2[0][4] is None
            if ok:
                c = body2[0][2]
                fresh = ((c[0] == 'call' and c[1] == ('id', 'std::none_of') and c[2][:2] == [rbeg, rend] and len(c[2]) == 3 and same_type_pred(c[2][2], cv))
                         # std::find_if(records.begin(), records.end(), pred) == records.end()   says the same
                         or (c[0] == 'bin' and c[1] == '==' and c[3] == rend and c[2][0] == 'call' and c[2][1] == ('id', 'std::find_if') and len(c[2][2]) == 3
                             and c[2][2][:2] == [rbeg, rend] and same_type_pred(c[2][2][2], cv))
                         or (c[0] == 'un' and c[1] == '!' and c[2][0] == 'call' and c[2][1][0] == 'id' and c[2][1][1] in helpers and c[2][2] == [('id', cv)])
                         # !std::any_of(records.begin(), records.end(), pred)   (also what a local helper lambda is once inlined)
                         or (c[0] == 'un' and c[1] == '!' and c[2][0] == 'call' and c[2][1] == ('id', 'std::any_of') and len(c[2][2]) == 3
                             and c[2][2][:2] == [rbeg, rend] and same_type_pred(c[2][2][2], cv)))
                ok = fresh and nonempty(body2[0][3][1]) == [('expr', ('call', ('member', ('id', 'records'), 'push_back', False), [('initlist', [('un', '&', ('id', cv))])]))]
        if not ok:
            raise mc.Unsupported('the tail no longer publishes exactly one record per distinct class type through Policy::publish_vptrs(records.begin(), records.end())')
    except mc.Unsupported as e:
        die(str(e))
    text = ('(* GENERATED by translators/decoder.py from %s - do not edit.\n'
            '   The control flow of decode_dispatch_data, in the language of Model/MiniDec.v. *)\n'
            'From Coq Require Import NArith String List.\nFrom Y2 Require Import Model.MiniDec.\nImport ListNotations.\nLocal Open Scope string_scope.\nLocal Open Scope N_scope.\n\n'
            'Definition gen_dtbl_loop : dstmt :=\n %s.\n\nDefinition gen_fetch : list fstmt :=\n %s.\n\nDefinition gen_class_body : dstmt :=\n %s.\n\n'
            'Definition gen_dec : dec_src := mk_dec_src gen_dtbl_loop %d%%nat gen_fetch gen_class_body.\n'
            % (DEC, dtbl, fetch, cls_body, extra))
    vlib.write_if_changed(os.path.join(vlib.COQ, 'Gen', 'GenDec.v'), text)


if __name__ == '__main__':
    main()
