#!/usr/bin/env python3
"""/repo/include/yorel/yomm2/detail/compiler.hpp  ->  coq/Gen/GenGv.v      (properties C01, C04, C07)

Source-to-Gallina translation of compiler<Policy>::install_gv(): how Policy::dispatch_data is sized, the loop over the
methods (slots and strides into the method's static array, a multi-method's dispatch table copied at the cursor), the loop
over the classes (static v-table pointer, one word per v-table entry).  The body is parsed (translators/_minicpp.py, trace
output dropped); the two size computations, the resize, the three cursors and the final publish_vptrs are matched on the AST;
the bodies of the loops are lowered statement by statement into the language of coq/Model/MiniGv.v.  Anything else is
refused (exit 3).  Proofs/GvSource.v proves that running the translation yields the image, offsets, static v-table pointers
and slots_strides of Model.Compile.install_with, and that no BOOST_ASSERT on the cursor fails.
"""
import os, re, sys

sys.path.insert(0, os.path.dirname(os.path.abspath(__file__)))
sys.path.insert(0, os.path.join(os.path.dirname(os.path.abspath(__file__)), '..', 'tools'))
import vlib
import _minicpp as mc

REPO = os.environ.get('VERIF_REPO', '/repo')
SRC = os.path.join(REPO, 'include/yorel/yomm2/detail/compiler.hpp')


def die(msg):
    sys.stderr.write('installgv.py: ' + msg + '\n')
    print('installgv.py: ' + msg)
    sys.exit(3)


def nonempty(stmts):
    return [s for s in stmts if s != ('block', []) and s != ('using',)]


def call0(obj, name):
    return ('call', ('member', obj, name, False), [])


def subst(node, env):
    """replace ('id', name) by env[name] everywhere in an AST"""
    if isinstance(node, tuple):
        if len(node) == 2 and node[0] == 'id' and node[1] in env:
            return env[node[1]]
        return tuple(subst(x, env) for x in node)
    if isinstance(node, list):
        return [subst(x, env) for x in node]
    return node


class Lower:
    def __init__(self, where, var):
        self.where = where      # 'method' | 'class' | 'entry'
        self.var = var          # loop variable: m / cls / entry
        self.method = None      # in the entry loop: the local bound to methods[entry.method_index]
        self.spec = None        # in the entry loop: the local bound to method.dispatch_table[entry.group_index]
        self.word = None        # in the entry loop: a local std::uintptr_t
        self.palias = {}        # locals that merely name a pointer the loop variable holds (substituted before matching)

    def bad(self, msg, node):
        raise mc.Unsupported('install_gv (%s loop): %s: %s' % (self.where, msg, mc.show(node)))

    def c(self, x):
        if x[0] == 'un' and x[1] == '!':
            return '(GNot %s)' % self.c(x[2])
        if x[0] == 'bin' and x[1] in ('==', '!='):
            neg = x[1] == '!='
            r = None
            for a, b in ((x[2], x[3]), (x[3], x[2])):
                if self.where == 'method' and b == ('num', 1) and a in (('call', ('member', ('member', ('id', self.var), 'info', False), 'arity', True), []),
                                                                       call0(('id', self.var), 'arity')):
                    r = 'GArityIs1'
                if self.where == 'entry' and b == ('num', 1) and self.method and a == call0(('id', self.method), 'arity'):
                    r = 'GArityIs1'
                if self.where == 'class' and a == ('member', ('id', self.var), 'first_slot', False) and b == ('un', '-', ('num', 1)):
                    r = 'GFirstSlotIsMinus1'
                if self.where == 'entry' and a == ('member', ('id', self.var), 'vp_index', False) and b == ('num', 0):
                    r = 'GVpIndexIs0'
            if r:
                return '(GNot %s)' % r if neg else r
        if self.where == 'entry' and x == ('bin', '>', ('member', ('id', self.var), 'vp_index', False), ('num', 0)):
            return '(GNot GVpIndexIs0)'
        self.bad('condition not in the subset', x)

    def val(self, r):
        m = ('id', self.var)
        gi = ('member', m, 'group_index', False)
        if self.spec and r == ('member', ('id', self.spec), 'pf', True):
            return 'GVSpecPf'
        if self.method and r == ('member', ('index', ('member', ('id', self.method), 'dispatch_table', False), gi), 'pf', True):
            return 'GVSpecPf'
        if self.method and r == ('call', ('id', 'std::uintptr_t'), [('bin', '+', ('member', ('id', self.method), 'gv_dispatch_table', False), gi)]):
            return 'GVRow'
        if r in (gi, ('call', ('id', 'std::uintptr_t'), [gi])):
            return 'GVIdx'
        if self.word and r == ('id', self.word):
            return 'GVLocal'
        if r[0] == 'cond':
            return '(GVIf %s %s %s)' % (self.c(r[1]), self.val(r[2]), self.val(r[3]))
        self.bad('value stored in a v-table slot is not in the subset', r)

    def seq(self, stmts):
        out = []
        stmts = nonempty(stmts)
        i = 0
        while i < len(stmts):
            st = subst(stmts[i], self.palias) if self.palias else stmts[i]
            # auto strides_iter = std::copy(m.slots..., slots_strides_ptr); std::copy(m.strides..., strides_iter);
            if self.where == 'method' and st[0] == 'decl' and len(st[2]) == 1 and st[2][0][1] is not None and st[2][0][1][:2] == ('call', ('id', 'std::copy')):
                name, init = st[2][0]
                m = ('id', self.var)
                want1 = ('call', ('id', 'std::copy'), [call0(('member', m, 'slots', False), 'begin'), call0(('member', m, 'slots', False), 'end'),
                                                       ('member', ('member', m, 'info', False), 'slots_strides_ptr', True)])
                want2 = ('expr', ('call', ('id', 'std::copy'), [call0(('member', m, 'strides', False), 'begin'), call0(('member', m, 'strides', False), 'end'), ('id', name)]))
                if init != want1 or i + 1 >= len(stmts) or stmts[i + 1] != want2:
                    self.bad('slots then strides are no longer copied, in that order, into slots_strides_ptr', st)
                out.append('GCopySlotsStrides')
                i += 2
                continue
            out.append(self.s(st))
            i += 1
        out = [t for t in out if t != 'GSkip']
        if not out:
            return 'GSkip'
        r = out[-1]
        for t in reversed(out[:-1]):
            r = '(GSeq %s\n  %s)' % (t, r)
        return r

    def s(self, st):
        k = st[0]
        if (k == 'decl' and len(st[2]) == 1 and self.where == 'method'
                and st[2][0][1] == ('member', ('member', ('id', self.var), 'info', False), 'slots_strides_ptr', True)):
            self.palias[st[2][0][0]] = st[2][0][1]       # const auto p = m.info->slots_strides_ptr;
            return 'GSkip'
        if self.palias:
            st = subst(st, self.palias)
        k = st[0]
        if k == 'block':
            return self.seq(st[1])
        if (k == 'rangefor' and self.where == 'method' and isinstance(st[1], str) and st[2] == ('member', ('id', self.var), 'dispatch_table', False)
                and nonempty(st[3][1] if st[3][0] == 'block' else [st[3]]) == [('expr', ('assign', '=', ('un', '*', ('post', '++', ('id', 'gv_iter'))), ('member', ('id', st[1]), 'pf', True)))]):
            return 'GEmitTable'                          # for (auto spec : m.dispatch_table) *gv_iter++ = spec->pf;
        if k == 'continue':
            return 'GContinue'
        if k == 'if' and not st[1]:
            return '(GIf %s\n  %s\n  %s)' % (self.c(st[2]), self.s(st[3]), self.s(st[4]) if st[4] else 'GSkip')
        if k == 'decl' and self.where == 'entry' and len(st[2]) == 1:
            name, init = st[2][0]
            if init == ('index', ('id', 'methods'), ('member', ('id', self.var), 'method_index', False)) and re.sub(r'\s', '', st[1]) in ('auto&', 'constauto&'):
                self.method = name
                return 'GSkip'
            if self.method and init == ('index', ('member', ('id', self.method), 'dispatch_table', False), ('member', ('id', self.var), 'group_index', False)):
                self.spec = name
                return 'GSkip'
            if init is None and re.sub(r'\s|std::', '', st[1]) == 'uintptr_t' and self.word is None:
                self.word = name
                return 'GSkip'
            self.bad('declaration not in the subset', st)
        if k == 'rangefor' and self.where == 'class' and isinstance(st[1], str) and st[2] == ('member', ('id', self.var), 'vtbl', False):
            lw = Lower('entry', st[1])
            return '(GForEntries %s)' % lw.seq(st[3][1] if st[3][0] == 'block' else [st[3]])
        if k == 'expr':
            e = st[1]
            if e[0] == 'call' and e[1] == ('id', 'BOOST_ASSERT') and len(e[2]) == 1:
                a = e[2][0]
                if a[0] == 'bin' and a[1] == '<=' and a[3] == ('id', 'gv_last') and a[2][0] == 'bin' and a[2][1] == '+' and a[2][2] == ('id', 'gv_iter'):
                    if a[2][3] == ('num', 1):
                        return '(GAssertRoom ZOne)'
                    if self.where == 'method' and a[2][3] == call0(('member', ('id', self.var), 'dispatch_table', False), 'size'):
                        return '(GAssertRoom ZTable)'
                self.bad('assertion not in the subset', st)
            if e[0] == 'assign' and e[1] == '=':
                l, r = e[2], e[3]
                m = ('id', self.var)
                if self.where == 'method':
                    if l == ('index', ('member', ('member', m, 'info', False), 'slots_strides_ptr', True), ('num', 0)) and r == ('index', ('member', m, 'slots', False), ('num', 0)):
                        return 'GSetSS0'
                    if l == ('member', m, 'gv_dispatch_table', False) and r == ('id', 'gv_iter'):
                        return 'GMarkTable'
                    want = ('call', ('id', 'std::transform'),
                            [call0(('member', m, 'dispatch_table', False), 'begin'), call0(('member', m, 'dispatch_table', False), 'end'), ('id', 'gv_iter'),
                             ('lambda', [], ['spec'], ('block', [('return', ('member', ('id', 'spec'), 'pf', True))]))])
                    if l == ('id', 'gv_iter') and r == want:
                        return 'GEmitTable'
                if self.where == 'class' and l == ('un', '*', ('member', m, 'static_vptr', False)):
                    if r == ('id', 'gv_iter'):
                        return 'GSetVptrHere'
                    if r == ('bin', '-', ('id', 'gv_iter'), ('member', m, 'first_slot', False)):
                        return 'GSetVptrBiased'
                if self.where == 'entry' and l == ('un', '*', ('post', '++', ('id', 'gv_iter'))):
                    return '(GEmit %s)' % self.val(r)
                if self.where == 'entry' and self.word and l == ('id', self.word):
                    return '(GLetWord %s)' % self.val(r)
            self.bad('expression statement not in the subset', st)
        self.bad('statement not in the subset', st)


def main():
    try:
        src = mc.strip_comments(open(SRC).read())
    except OSError as e:
        die('cannot read %s: %s' % (SRC, e))
    try:
        params, body, line = mc.find_function(src, r'\bvoid\s+compiler<Policy>::install_gv\b', 'install_gv')
        if params.strip():
            raise mc.Unsupported('install_gv: parameter list changed')
        ast = mc.parse_function_body(mc.drop_trace(body), ('has_facet',))
        top = nonempty(ast[1])
        # ---- sizing: every method's dispatch_table.size() plus every class's vtbl.size(); two accepted spellings
        lam_m = lambda v: ('lambda', [], ['sum', v], ('block', [('return', ('bin', '+', ('id', 'sum'), call0(('member', ('id', v), 'dispatch_table', False), 'size')))]))
        lam_c = lambda v: ('lambda', [], ['sum', v], ('block', [('return', ('bin', '+', ('id', 'sum'), call0(('member', ('id', v), 'vtbl', False), 'size')))]))
        i = 0
        ok = False
        if (len(top) > 2 and top[0][0] == 'decl' and len(top[0][2]) == 1 and top[0][2][0][1] is not None and top[0][2][0][1][:2] == ('call', ('id', 'std::accumulate'))):
            nm, init = top[0][2][0]
            a = init[2]
            vm = a[3][2][1] if a[3][0] == 'lambda' and len(a[3][2]) == 2 else None
            ok1 = (a[0] == call0(('id', 'methods'), 'begin') and a[1] == call0(('id', 'methods'), 'end') and a[2] == ('call', ('id', 'std::size_t'), [('num', 0)])
                   and vm and a[3] == lam_m(vm))
            s2 = top[1]
            ok2 = False
            if s2[0] == 'expr' and s2[1][0] == 'assign' and s2[1][1] == '=' and s2[1][2] == ('id', nm) and s2[1][3][:2] == ('call', ('id', 'std::accumulate')):
                b = s2[1][3][2]
                vc = b[3][2][1] if b[3][0] == 'lambda' and len(b[3][2]) == 2 else None
                ok2 = (b[0] == call0(('id', 'classes'), 'begin') and b[1] == call0(('id', 'classes'), 'end') and b[2] == ('id', nm) and vc and b[3] == lam_c(vc))
            ok = ok1 and ok2
            size_var = nm
            i = 2
        elif top and top[0][0] == 'decl' and len(top[0][2]) == 1 and top[0][2][0][1] == ('call', ('id', 'std::size_t'), [('num', 0)]) or (top and top[0][0] == 'decl' and len(top[0][2]) == 1 and top[0][2][0][1] == ('num', 0)):
            # std::size_t n = 0; for (auto& m : methods) n += m.dispatch_table.size(); for (auto& cls : classes) n += cls.vtbl.size();
            size_var = top[0][2][0][0]

            def plus_loop(st, coll, field):
                if st[0] != 'rangefor' or not isinstance(st[1], str) or st[2] != ('id', coll):
                    return False
                bd = nonempty(st[3][1] if st[3][0] == 'block' else [st[3]])
                return bd == [('expr', ('assign', '+=', ('id', size_var), call0(('member', ('id', st[1]), field, False), 'size')))]
            ok = len(top) > 3 and plus_loop(top[1], 'methods', 'dispatch_table') and plus_loop(top[2], 'classes', 'vtbl')
            i = 3
        if not ok:
            raise mc.Unsupported('install_gv: dispatch_data is no longer sized as the sum of every method\'s dispatch_table.size() and every class\'s vtbl.size()')
        want = [('expr', ('call', ('member', ('id', 'Policy::dispatch_data'), 'resize', False), [('id', size_var)])),
                ('decl', 'auto', [('gv_first', call0(('id', 'Policy::dispatch_data'), 'data'))]),
                ('decl', 'auto', [('gv_last', ('bin', '+', ('id', 'gv_first'), call0(('id', 'Policy::dispatch_data'), 'size')))]),
                ('decl', 'auto', [('gv_iter', ('id', 'gv_first'))])]
        # after resize(n) the vector's size() is n: gv_first + n is the same pointer
        alt = list(want)
        alt[2] = ('decl', 'auto', [('gv_last', ('bin', '+', ('id', 'gv_first'), ('id', size_var)))])
        if top[i:i + 4] == alt:
            top = top[:i] + want + top[i + 4:]
        if top[i:i + 4] != want:
            raise mc.Unsupported('install_gv: no longer `dispatch_data.resize(size); gv_first = data(); gv_last = gv_first + size(); gv_iter = gv_first;`')
        rest = top[i + 4:]
        loops = []
        for st in rest:
            if st[0] == 'rangefor' and isinstance(st[1], str) and st[2] == ('id', 'methods'):
                loops.append('(LMethods %s)' % Lower('method', st[1]).seq(st[3][1] if st[3][0] == 'block' else [st[3]]))
            elif st[0] == 'rangefor' and isinstance(st[1], str) and st[2] == ('id', 'classes'):
                loops.append('(LClasses %s)' % Lower('class', st[1]).seq(st[3][1] if st[3][0] == 'block' else [st[3]]))
            elif (st[0] == 'if' and st[1] and st[2] == ('tmpl', 'has_facet', ['Policy', 'external_vptr']) and st[4] is None
                  and nonempty(st[3][1]) == [('expr', ('call', ('id', 'Policy::publish_vptrs'), [call0(('id', 'classes'), 'begin'), call0(('id', 'classes'), 'end')]))]
                  and st is rest[-1]):
                pass
            else:
                raise mc.Unsupported('install_gv: statement not in the subset at function level: ' + mc.show(st)[:300])
        if not rest or rest[-1][0] != 'if':
            raise mc.Unsupported('install_gv no longer ends with `if constexpr (has_facet<Policy, external_vptr>) Policy::publish_vptrs(classes.begin(), classes.end());`')
    except mc.Unsupported as e:
        die(str(e))
    out = ('(* GENERATED by translators/installgv.py from %s - do not edit.\n'
           '   compiler<Policy>::install_gv, in the language of Model/MiniGv.v. *)\n'
           'From Coq Require Import List.\nFrom Y2 Require Import Model.MiniGv.\nImport ListNotations.\n\n'
           'Definition gen_install_gv : gfun :=\n  mk_gfun SzTablesPlusVtbls\n  [%s].\n' % (SRC, ';\n   '.join(loops)))
    vlib.write_if_changed(os.path.join(vlib.COQ, 'Gen', 'GenGv.v'), out)


if __name__ == '__main__':
    main()
