#!/usr/bin/env python3
import os, sys
sys.path.insert(0, os.path.dirname(os.path.abspath(__file__)))
import _core_check
from _core_check import vlib, coresuite
ctx = vlib.Ctx('C10')
if ctx.replay:
    _core_check.replay(ctx); sys.exit(0)
vlib.proof_phase(ctx)
_core_check.source_def(ctx)      # resolve_static_type_ids as translated from compiler.hpp (Properties_def_source)
res = coresuite.rtti_suite(ctx.tier, ctx.seed)
cov = coresuite.summarize_groups(ctx, res, 'RTTI flavours x updates of one registry')
vlib.finish(ctx, cov, assumptions=['harness H1 keeps one process alive across all cases: the policies\' persistent state (dispatch_data, v-table pointer vectors, hash parameters, static v-table pointers of removed classes) leaks from case to case on purpose'])
