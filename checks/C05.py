#!/usr/bin/env python3
"""C05 -- the type-id hash is perfect on registered ids; the checked variant rejects the rest.

  ./check C05 [--tier quick|thorough] [--replay file]

1. proof phase: translators -> Gen/GenHashConsts.v, Properties_C05.vo, Print Assumptions, hygiene (vlib.proof_phase)
2. harness/h3/hash_driver.cpp compiled against /repo/include as it is now (-DYOMM2_VERIF, ASan/UBSan),
   extracted model + ocaml/hash_driver.ml
3. corpus/C05/*.case, then generated histories.  For each history:
     A. implementation, updates only         -> found hash parameters (used to construct colliding unregistered ids)
     B. implementation, updates + lookups    -> canonical lines + the recorded multiplier streams
     C. extracted model fed with the recorded streams -> canonical lines;  B == C  (correspondence)
     D. oracle (Python, on B's output only, independent of the model): range, injectivity, vector contents,
        control contents, registered ids found, unregistered ids rejected, error record fields, SIGABRT
4. decision + evidence (vlib.finish)
"""
import concurrent.futures, hashlib, itertools, json, os, re, signal, sys, time
sys.path.insert(0, os.path.join(os.path.dirname(os.path.abspath(__file__)), '..', 'tools'))
import vlib

MASK = (1 << 64) - 1
SENT = MASK
ENV = {'ASAN_OPTIONS': 'detect_leaks=0:abort_on_error=0:handle_abort=0', 'UBSAN_OPTIONS': 'print_stacktrace=1'}
WORK = os.path.join(vlib.BUILD, 'C05')
MODEL_ID_ATTEMPTS = 150000      # above this (sum of ids x attempts) the budgets of a history are lowered
FAMILIES = ['clustered', 'stride', 'high', 'low', 'small', 'random']


# --------------------------------------------------------------------------- constants of the source

def gen_consts():
    """passes / budget as the translator read them from /repo (the oracle's error-record check uses them)"""
    p = os.path.join(vlib.COQ, 'Gen', 'GenHashConsts.v')
    out = {'passes': 4, 'budget_literal': 100000, 'budget_hook_default': 100000, 'growth_num': 5, 'growth_den': 4, 'M_initial': 1}
    if os.path.exists(p):
        for m in re.finditer(r'Definition (\w+) : (?:N|nat) := (\d+)\.', open(p).read()):
            out[m.group(1)] = int(m.group(2))
    return out


def first_M(n, K):
    size = n * K['growth_num'] // K['growth_den']
    M = K['M_initial']
    while True:
        size >>= 1
        if not size:
            return M
        M += 1


# --------------------------------------------------------------------------- cases

def case_text(case, streams=None, with_lookups=True):
    """case = {'variant', 'mode', 'updates': [{'budget', 'classes': [[tag, [ids]]], 'lookups': [ids]}]}"""
    L = ['variant ' + case['variant'], 'mode ' + case['mode']]
    for k, u in enumerate(case['updates']):
        L.append('update %d' % u['budget'])
        for tag, ids in u['classes']:
            L.append('class %d %s' % (tag, ' '.join(map(str, ids))))
        if streams is not None:
            s = streams[k] if k < len(streams) else []
            for i in range(0, len(s), 64):
                L.append('stream ' + ' '.join(map(str, s[i:i + 64])))
        if with_lookups:
            lk = u.get('lookups', [])
            for i in range(0, len(lk), 64):
                L.append('lookup ' + ' '.join(map(str, lk[i:i + 64])))
    return '\n'.join(L) + '\nend\n'


def parse_case(text):
    case = {'variant': 'checked', 'mode': 'throw', 'updates': []}
    for line in text.split('\n'):
        t = line.split()
        if not t or t[0].startswith('#') or t[0] in ('end', 'stream'):
            continue
        if t[0] == 'variant':
            case['variant'] = t[1]
        elif t[0] == 'mode':
            case['mode'] = t[1]
        elif t[0] == 'update':
            case['updates'].append({'budget': int(t[1]), 'classes': [], 'lookups': []})
        elif t[0] == 'class':
            case['updates'][-1]['classes'].append([int(t[1]), [int(x) for x in t[2:]]])
        elif t[0] == 'lookup':
            case['updates'][-1]['lookups'] += [int(x) for x in t[1:]]
        else:
            raise ValueError('bad case line: ' + line)
    return case


def all_ids(u):
    return [t for _, ids in u['classes'] for t in ids]


_tmpn = itertools.count(1)      # next() is atomic: the histories run on a thread pool


def tmp_path(tag):
    os.makedirs(WORK, exist_ok=True)
    return os.path.join(WORK, '%d-%d-%s.case' % (os.getpid(), next(_tmpn), tag))


def parse_output(out):
    """-> list of per-update dicts: {'head', 'stream', 'mseq', 'found'|'error'|'pub_unknown', 'state', 'control', 'vptrs', 'lookups', 'lines'}"""
    ups = []
    cur = None
    junk = []
    for line in out.split('\n'):
        t = line.split()
        if not t:
            continue
        if t[0] == 'update' and len(t) == 8:
            cur = {'head': line, 'lines': [line], 'lookups': [], 'stream': None}
            ups.append(cur)
            continue
        if cur is None:
            junk.append(line)
            continue
        try:
            if t[0] == 'stream':
                cur['stream'] = [int(x) for x in t[1:]]
                continue
            if t[0] == 'mseq':
                cur['mseq'] = [tuple(map(int, x.split(':'))) for x in t[1:]]
                continue
            if t[0] == 'hash' and t[1] == 'found':
                cur['found'] = {'mult': int(t[3]), 'shift': int(t[5]), 'len': int(t[7]), 'min': int(t[9]), 'max': int(t[11]),
                                'attempts': None if t[13] == '?' else int(t[13])}
            elif t[0] == 'hash' and t[1] == 'error':
                cur['error'] = {'attempts': int(t[3]), 'buckets': int(t[5])}
            elif t[0] == 'state':
                cur['state'] = {'mult': int(t[2]), 'shift': int(t[4]), 'len': int(t[6]), 'min': int(t[8]), 'max': int(t[10])}
            elif t[0] == 'control':
                cur['control'] = [SENT if x == '-' else int(x) for x in t[1:]]
            elif t[0] == 'vptrs':
                cur['vptrs'] = [None if x == '-' else int(x) for x in t[1:]]
            elif t[0] == 'lookup' and t[2] == 'idx':
                cur['lookups'].append((int(t[1]), 'idx', int(t[3]), None if t[5] == '-' else int(t[5])))
            elif t[0] == 'lookup' and t[2] == 'unknown':
                cur['lookups'].append((int(t[1]), 'unknown', int(t[3]), None))
            elif t[0] == 'publish' and t[1] == 'unknown':
                cur['pub_unknown'] = int(t[2])
            else:
                junk.append(line)
                continue
        except (ValueError, IndexError):
            junk.append(line)
            continue
        cur['lines'].append(line)
    return ups, junk


def canonical(ups):
    return [l for u in ups for l in u['lines']]


def sanitizer_summary(err):
    """first line that says what went wrong, then the head of the report"""
    m = re.search(r'(ERROR: AddressSanitizer[^\n]*|runtime error: [^\n]*|terminate called[^\n]*)', err)
    head = (m.group(1) + '\n') if m else ''
    return head + err[:1500]


class Runner:
    def __init__(self, impl, model, impl_nohook=None):
        self.impl, self.model, self.impl_nohook = impl, model, impl_nohook

    def run_impl(self, case, with_lookups=True, binary=None, timeout=600):
        p = tmp_path('impl')
        open(p, 'w').write(case_text(case, None, with_lookups))
        rc, out, err = vlib.run2([binary or self.impl, p], timeout=timeout, env=ENV)
        os.remove(p)
        ups, junk = parse_output(out)
        return {'rc': rc, 'ups': ups, 'junk': junk, 'stderr': sanitizer_summary(err)}

    def run_model(self, case, streams, timeout=900):
        p = tmp_path('model')
        open(p, 'w').write(case_text(case, streams, True))
        rc, out, err = vlib.run2([self.model, p], timeout=timeout)
        os.remove(p)
        ups, junk = parse_output(out)
        return {'rc': rc, 'ups': ups, 'junk': junk, 'stderr': err[-1500:]}


# --------------------------------------------------------------------------- oracle (the property, on the implementation's output)

def hidx(mult, shift, t):
    return ((mult * t) & MASK) >> shift if shift < 64 else 0


def oracle(case, res, K):
    """-> list of failure strings (empty: the implementation's own output satisfies the property)"""
    F = []
    ups = res['ups']
    rc = res['rc']
    checked = case['variant'] == 'checked'
    abort_mode = case['mode'] == 'abort'
    if rc not in (0, -signal.SIGABRT):
        F.append('implementation crashed (exit status %s): %s' % (rc, (res['stderr'] or '').strip().split('\n')[0][:300] if rc != 124 else 'timeout'))
    if res['junk']:
        F.append('unexpected output: %r' % res['junk'][:3])
    errored = False       # an error was reported in this process
    prev_max = 0
    for k, u in enumerate(case['updates']):
        if k >= len(ups):
            if not (errored and abort_mode) and rc == 0:
                F.append('update %d: no output' % k)
            break
        o = ups[k]
        ids = all_ids(u)
        reg = {}
        for tag, cids in u['classes']:
            for t in cids:
                reg[t] = tag
        if 'pub_unknown' in o:
            F.append('update %d: publish_vptrs reported registered id %d as an unknown class' % (k, o['pub_unknown']))
            errored = True
            break
        if 'found' in o:
            f = o['found']
            if SENT in ids or len(set(ids)) != len(ids):
                # outside the hypotheses: nothing claimed
                prev_max = max(prev_max, f['max'])
                continue
            idx = {t: hidx(f['mult'], f['shift'], t) for t in ids}
            bad = [t for t in ids if idx[t] >= f['len']]
            if bad:
                F.append('update %d: registered id %d hashes to %d >= hash_length %d' % (k, bad[0], idx[bad[0]], f['len']))
            inv = {}
            for t in ids:
                if idx[t] in inv:
                    F.append('update %d: colliding hash installed: ids %d and %d both hash to %d' % (k, inv[idx[t]], t, idx[t]))
                    break
                inv[idx[t]] = t
            v = o.get('vptrs')
            if v is None:
                if rc == 0:
                    F.append('update %d: no vptrs line' % k)
            else:
                if len(v) < f['len']:
                    F.append('update %d: vptrs has %d entries < hash_length %d' % (k, len(v), f['len']))
                for t in ids:
                    got = v[idx[t]] if idx[t] < len(v) else 'out of range'
                    if got != reg[t]:
                        F.append('update %d: vptrs[hash(%d) = %d] is %s, expected the v-table pointer of its class (%d)' % (k, t, idx[t], got, reg[t]))
                        break
            if checked and 'control' in o:
                c = o['control']
                for t in ids:
                    got = c[idx[t]] if idx[t] < len(c) else 'out of range'
                    if got != t:
                        F.append('update %d: control[hash(%d) = %d] is %s' % (k, t, idx[t], got))
                        break
            if f['attempts'] is not None:
                if not (1 <= f['attempts'] <= K['passes'] * u['budget']):
                    F.append('update %d: found after %d attempts with budget %d' % (k, f['attempts'], u['budget']))
            prev_max = max(prev_max, f['max'])
            # lookups
            seen = set()
            for (t, kind, a, b) in o['lookups']:
                seen.add(t)
                if t in reg:
                    if kind != 'idx':
                        F.append('update %d: registered id %d reported as unknown class' % (k, t))
                        if abort_mode:
                            errored = True
                    elif a != idx[t] or b != reg[t]:
                        F.append('update %d: dynamic_vptr(%d) -> index %d class %s, expected index %d class %d' % (k, t, a, b, idx[t], reg[t]))
                elif t != SENT and checked:
                    if kind != 'unknown':
                        F.append('update %d: unregistered id %d accepted by the checked hash (index %d, v-table pointer of class %s)' % (k, t, a, b))
                    else:
                        if a != t:
                            F.append('update %d: unknown_class_error for %d carries type %d' % (k, t, a))
                        if abort_mode:
                            errored = True
            missing = [t for t in u.get('lookups', []) if t not in seen]
            if missing and not (errored and abort_mode) and rc == 0:
                F.append('update %d: no answer for lookup %d' % (k, missing[0]))
        elif 'error' in o:
            e = o['error']
            errored = True
            if e['attempts'] != K['passes'] * u['budget']:
                F.append('update %d: hash_search_error.attempts = %d, expected passes x budget = %d' % (k, e['attempts'], K['passes'] * u['budget']))
            want = 1 << (first_M(len(u['classes']), K) + K['passes'])
            if e['buckets'] != want:
                F.append('update %d: hash_search_error.buckets = %d, expected %d' % (k, e['buckets'], want))
            if 'state' in o:
                prev_max = max(prev_max, o['state']['max'])
            if abort_mode:
                break
            # the search failed and the handler threw: no hash of this id set was found, so whatever parameters are
            # left behind must not send an id to some other class's (or a stale / null) v-table pointer -- with the
            # checked variant every lookup is either rejected or answers with the id's own class
            if checked and SENT not in ids and len(set(ids)) == len(ids):
                for (t, kind, a, b) in o['lookups']:
                    if kind == 'idx' and (t not in reg or b != reg[t]):
                        F.append('update %d: the hash search failed, yet afterwards %s id %d is accepted by the checked hash '
                                 '(index %d, v-table pointer of class %s)' % (k, 'registered' if t in reg else 'unregistered', t, a, b))
                        break
        else:
            if rc == 0:
                F.append('update %d: neither found nor error' % k)
            break
    if abort_mode:
        if errored and rc != -signal.SIGABRT:
            F.append('an error was reported to a handler that returns, but the process did not abort (exit status %s)' % rc)
        if not errored and rc == -signal.SIGABRT:
            F.append('process aborted without a reported error')
    elif rc == -signal.SIGABRT:
        F.append('process aborted although the handler throws')
    return F


# --------------------------------------------------------------------------- generators

def gen_ids(rng, fam, n):
    """n distinct ids != SENT of the family"""
    s = set()
    if n == 0:
        return []
    if fam == 'clustered':
        base = (0x550000000000 + rng.below(1 << 40)) & ~0xF
        step = rng.choice([8, 16, 16, 24, 32, 40, 48, 64])
        spread = rng.choice([1, 1, 2, 3])
        pool = rng.sample(range(n * spread), n)
        s = set(base + step * k for k in pool)
    elif fam == 'stride':
        base = rng.choice([0, 1, 4096, rng.below(1 << 48), rng.next() >> 1])
        stride = rng.choice([1, 2, 3, 8, 16, 56, 4096, 1 << 20, (rng.below(1 << 32) | 1), 1 << 40])
        s = set((base + k * stride) & MASK for k in range(n))
    elif fam == 'high':
        bits = max(1, (n - 1).bit_length()) + rng.below(3)
        sh = rng.range(40, 64 - bits)
        low = rng.below(1 << 16) if rng.chance(1, 2) else 0
        ks = rng.sample(range(1 << bits), n) if (1 << bits) <= 4096 else None
        while ks is None or len(set(ks)) < n:
            ks = list(set((ks or []) + [rng.below(1 << bits) for _ in range(n)]))[:n]
        s = set(((k << sh) | low) & MASK for k in ks)
    elif fam == 'low':
        bits = max(1, (n - 1).bit_length()) + rng.below(3)
        high = (rng.next() >> bits) << bits
        if rng.chance(1, 4):
            high = 0
        ks = rng.sample(range(1 << bits), n)
        s = set((high | k) & MASK for k in ks)
    elif fam == 'small':
        spread = rng.choice([1, 1, 2, 4])
        pool = rng.sample(range(n * spread + 1), n)
        s = set(pool)
        if rng.chance(2, 3) and 0 not in s:
            s.pop()
            s.add(0)
    else:
        while len(s) < n:
            s.add(rng.next())
    s.discard(SENT)
    l = sorted(s)
    while len(l) < n:          # top up after a wrap-around / sentinel removal
        x = rng.next()
        if x != SENT and x not in s:
            s.add(x); l.append(x)
    rng.shuffle(l)
    return l[:n]


def gen_size(rng):
    r = rng.below(100)
    if r < 8:
        return rng.choice([0, 0, 1, 1, 2])
    if r < 40:
        return rng.range(2, 12)
    if r < 75:
        return rng.range(13, 64)
    if r < 93:
        return rng.range(65, 200)
    return rng.range(201, 400)


def classes_of(rng, ids, kbase):
    """group ids into classes of 1-3 ids; tags unique per update and per history (kbase)"""
    out = []
    i = 0
    multi = rng.chance(1, 3)
    while i < len(ids):
        k = rng.choice([1, 1, 2, 3]) if multi else 1
        out.append([kbase + len(out) + 1, ids[i:i + k]])
        i += k
    if rng.chance(1, 10):
        out.insert(rng.below(len(out) + 1), [kbase + len(out) + 1, []])      # a class without type ids
    return out


def budget_cap(nids):
    return max(2, MODEL_ID_ATTEMPTS // (4 * max(1, nids)))


def gen_budget(rng, fam, nids):
    r = rng.below(100)
    if r < 6:
        return 0
    if r < 14:
        return 1
    if r < 30:
        return rng.choice([2, 3, 5, 8])
    if r < 55:
        return min(rng.choice([20, 50, 200, 1000]), budget_cap(nids))
    if fam in ('stride', 'small', 'low') or nids <= 24:
        return 100000
    return min(100000, budget_cap(nids))


def gen_history(rng, hno):
    fam = rng.choice(FAMILIES)
    variant = 'checked' if rng.chance(2, 3) else 'fast'
    nupd = rng.choice([1, 1, 2, 3, 3, 4, 5])
    shape = rng.choice(['grow', 'shrink', 'updown', 'free'])
    sizes = sorted(gen_size(rng) for _ in range(nupd))
    if shape == 'shrink':
        sizes.reverse()
    elif shape == 'updown':
        sizes = sizes[::2] + sizes[1::2][::-1]
    elif shape == 'free':
        rng.shuffle(sizes)
    pool = gen_ids(rng, fam, max(sizes + [1]))
    ups = []
    for k, n in enumerate(sizes):
        if rng.chance(1, 4):
            f2 = rng.choice(FAMILIES)
            ids = gen_ids(rng, f2, n)
        else:
            f2 = fam
            ids = rng.sample(pool, n) if rng.chance(1, 2) else pool[:n]
        ups.append({'budget': gen_budget(rng, f2, len(ids)), 'classes': classes_of(rng, ids, 1000 * (k + 1)), 'lookups': [], 'family': f2})
    mode = 'throw'
    if rng.chance(1, 8):
        mode = 'abort'
        if rng.chance(1, 2):
            ups[-1]['budget'] = 0
    return {'variant': variant, 'mode': mode, 'updates': ups, 'family': fam, 'shape': shape, 'name': 'gen-%d' % hno}


def colliders(rng, f, ids, want):
    """unregistered ids that hash to the index of a registered id under the installed parameters"""
    out = []
    if not ids:
        return out
    mult, shift = f['mult'], f['shift']
    reg = set(ids)
    try:
        inv = pow(mult, -1, 1 << 64)
    except ValueError:
        inv = None
    tries = 0
    while len(out) < want and tries < 20 * want + 2000:
        tries += 1
        r = rng.choice(ids)
        i = hidx(mult, shift, r)
        if inv is not None:
            t = (inv * ((i << shift) | rng.below(1 << shift))) & MASK if shift < 64 else rng.next()
        else:
            t = rng.next()
        if t not in reg and t != SENT and hidx(mult, shift, t) == i:
            out.append(t)
    return out


def add_lookups(rng, case, resA, nunreg):
    """lookups of every registered id and (checked) of ~nunreg unregistered ids, using run A's parameters"""
    checked = case['variant'] == 'checked'
    for k, u in enumerate(case['updates']):
        ids = all_ids(u)
        reg = set(ids)
        lk = list(ids)
        o = resA['ups'][k] if k < len(resA['ups']) else {}
        if checked:
            un = [0, 1, 2, MASK - 1, 1 << 63, (1 << 63) - 1]
            for t in rng.sample(ids, min(len(ids), 25)):
                un += [(t + 1) & MASK, (t - 1) & MASK, (t + 8) & MASK, (t - 8) & MASK, t ^ (1 << rng.below(64)), (t + (1 << 32)) & MASK]
            if 'found' in o:
                un += colliders(rng, o['found'], ids, 30)
                # ids whose index falls beyond / just below hash_length
                for _ in range(20):
                    un.append(rng.next())
            # ids registered by other updates of the history
            for u2 in case['updates']:
                if u2 is not u:
                    un += rng.sample(all_ids(u2), min(len(all_ids(u2)), 10))
            while len(un) < nunreg:
                un.append(rng.next() >> rng.choice([0, 0, 16, 32, 48, 56]))
            un = [t for t in dict.fromkeys(un) if t not in reg and t != SENT][:nunreg + 40]
            lk += un
            rng.shuffle(lk)
        if case['mode'] == 'abort' and k == len(case['updates']) - 1 and checked and u['budget'] != 0:
            # the history ends with one unregistered id: the handler returns, the process must abort
            lk = [t for t in lk if t in reg]
            x = rng.next()
            while x in reg or x == SENT:
                x = rng.next()
            lk.append(x)
        u['lookups'] = lk


# --------------------------------------------------------------------------- one history through A, B, C, D

def model_cost(res, case):
    c = 0
    for k, u in enumerate(case['updates']):
        if k < len(res['ups']):
            o = res['ups'][k]
            att = (o.get('found') or {}).get('attempts') or (o.get('error') or {}).get('attempts') or 0
            c += att * max(1, len(all_ids(u)))
    return c


def run_history(R, K, case, seed, prepared=False, nunreg=200):
    """-> dict(case, fails, corr, stats).  `prepared`: lookups are already in the case (corpus, replay)"""
    rng = vlib.Rng(seed)
    lowered = False
    if not prepared:
        resA = R.run_impl(case, with_lookups=False)
        if model_cost(resA, case) > MODEL_ID_ATTEMPTS and resA['rc'] in (0, -signal.SIGABRT):
            # too expensive for the extracted model: lower the budgets, the search then fails earlier
            for u in case['updates']:
                u['budget'] = min(u['budget'], budget_cap(len(all_ids(u))))
            lowered = True
            resA = R.run_impl(case, with_lookups=False)
        add_lookups(rng, case, resA, nunreg)
    resB = R.run_impl(case)
    fails = oracle(case, resB, K)
    streams = [u['stream'] or [] for u in resB['ups']]
    corr = None
    resC = None
    if model_cost(resB, case) <= 6 * MODEL_ID_ATTEMPTS or prepared:
        resC = R.run_model(case, streams)
        a, b = canonical(resB['ups']), canonical(resC['ups'])
        if resC['rc'] != 0:
            corr = 'model driver failed: rc %s %s' % (resC['rc'], resC['stderr'][-200:])
        elif a != b:
            i = 0
            while i < min(len(a), len(b)) and a[i] == b[i]:
                i += 1
            corr = 'line %d: implementation %r / model %r' % (i, (a[i] if i < len(a) else '<end>')[:160], (b[i] if i < len(b) else '<end>')[:160])
    st = {'updates': len(resB['ups']), 'lookups': sum(len(o['lookups']) for o in resB['ups']),
          'found': sum(1 for o in resB['ups'] if 'found' in o), 'errors': sum(1 for o in resB['ups'] if 'error' in o),
          'attempts': [(o.get('found') or o.get('error') or {}).get('attempts') for o in resB['ups']],
          'late': sum(1 for o in resB['ups'] if 'found' in o and (o['found']['attempts'] or 0) > 1),
          'later_pass': sum(1 for o in resB['ups'] if len(o.get('mseq', [])) > 1 and 'found' in o),
          'stale_len': sum(1 for k, o in enumerate(resB['ups']) if 'found' in o and k < len(case['updates'])
                           and o['found']['len'] > (1 << (64 - o['found']['shift']))),
          'unknown': sum(1 for o in resB['ups'] for l in o['lookups'] if l[1] == 'unknown'),
          'aborted': resB['rc'] == -signal.SIGABRT, 'lowered': lowered, 'model_run': resC is not None}
    return {'case': case, 'fails': fails, 'corr': corr, 'stats': st, 'impl': resB, 'model': resC}


def strip(case):
    return {'variant': case['variant'], 'mode': case['mode'],
            'updates': [{'budget': u['budget'], 'classes': u['classes'], 'lookups': u.get('lookups', [])} for u in case['updates']]}


def shrink(R, K, case, deadline):
    """smaller history on which the oracle still fails (bounded effort)"""
    def failing(c):
        if time.time() > deadline:
            return False
        return bool(oracle(c, R.run_impl(c), K))

    cur = json.loads(json.dumps(strip(case)))
    if not failing(cur):
        return cur
    # drop updates
    i = 0
    while i < len(cur['updates']) and len(cur['updates']) > 1:
        c = json.loads(json.dumps(cur)); del c['updates'][i]
        if failing(c):
            cur = c
        else:
            i += 1
    # drop lookups, then classes, by halves
    for key in ('lookups', 'classes'):
        for u in range(len(cur['updates'])):
            chunk = max(1, len(cur['updates'][u][key]) // 2)
            while chunk >= 1 and time.time() < deadline:
                i = 0
                while i < len(cur['updates'][u][key]):
                    c = json.loads(json.dumps(cur)); del c['updates'][u][key][i:i + chunk]
                    if failing(c):
                        cur = c
                    else:
                        i += chunk
                chunk //= 2
    return cur


def report_violation(ctx, R, K, r, origin, deadline):
    small = shrink(R, K, r['case'], deadline)
    res = R.run_impl(small)
    fails = oracle(small, res, K) or r['fails']
    ctx.violation('C05 %s: %s' % (origin, fails[0]),
                  {'case': small, 'case_text': case_text(small), 'failures': fails[:10],
                   'expected': 'every registered id at its own index below hash_length holding its class, unregistered ids rejected, '
                               'or hash_search_error{passes*budget, 2^(M0+passes)}',
                   'got': canonical(res['ups'])[-12:] + ['exit status %s' % res['rc']] + ([res['stderr'][-600:]] if res['rc'] not in (0, -6) else []),
                   'origin': origin, 'repo': vlib.REPO})


# --------------------------------------------------------------------------- main

def main():
    ctx = vlib.Ctx('C05')
    K0 = gen_consts()
    vlib.proof_phase(ctx, extra_targets=['Extract/ExtractHash.vo'])
    # the same theorems over hash_initialize / hash_type_id as translated from fast_perfect_hash.hpp on this run
    vlib.proof_phase_extra(ctx, 'Properties_C05_source')
    # vptr_vector::publish_vptrs / dynamic_vptr as translated from policies/vptr_vector.hpp (Gen/GenPub.v)
    vlib.proof_phase_extra(ctx, 'Properties_pub_source')
    K = gen_consts()
    mdl, log1 = vlib.ocaml_driver('hash_model', 'Extract/ExtractHash.vo', ['ocaml/hash_driver.ml'])
    drv, log2 = vlib.build_cpp('h3_hash', ['harness/h3/hash_driver.cpp'])
    if not mdl:
        ctx.broken.append('model driver does not build: ' + log1[-300:])
    if not drv:
        ctx.broken.append('harness does not build against /repo: ' + log2[-300:])
        vlib.finish(ctx, {'evaluations': 0, 'distinct_nontrivial': 0, 'rule': 'harness did not build', 'samples': []})
    nohook = None
    if ctx.thorough:
        nohook, log3 = vlib.build_cpp('h3_hash_nohook', ['harness/h3/hash_driver.cpp'],
                                      flags=['-O1', '-g', '-fsanitize=address,undefined', '-fno-sanitize-recover=all', '-U' + vlib.GUARD])
        if not nohook:
            ctx.broken.append('harness does not build without the hook: ' + log3[-300:])
    R = Runner(drv, mdl, nohook)
    if K['budget_literal'] != K['budget_hook_default']:
        ctx.notes.append('hook default %d differs from the literal budget %d' % (K['budget_hook_default'], K['budget_literal']))

    if ctx.replay:
        obj = json.load(open(ctx.replay))
        case = obj.get('case') or parse_case(obj.get('case_text', ''))
        r = run_history(R, K, case, ctx.seed, prepared=True)
        print('--- implementation (%s), exit status %s' % (vlib.REPO, r['impl']['rc']))
        print('\n'.join(canonical(r['impl']['ups'])))
        if r['impl']['rc'] not in (0, -6):
            print(r['impl']['stderr'])
        print('--- model')
        print('\n'.join(canonical(r['model']['ups'])) if r['model'] else '(not run)')
        print('--- oracle')
        print('\n'.join(r['fails']) if r['fails'] else 'property holds on the implementation\'s output')
        print('--- correspondence: ' + (r['corr'] or 'identical'))
        if r['fails']:
            ctx.violation('C05 replay: ' + r['fails'][0], {'case': strip(case), 'case_text': case_text(case), 'failures': r['fails'], 'origin': 'replay ' + ctx.replay})
        elif r['corr']:
            ctx.broken.append('correspondence (replay): ' + r['corr'])
        vlib.finish(ctx, {'evaluations': 1, 'distinct_nontrivial': 1, 'rule': 'replay of one case', 'samples': [case_text(case)[:600]]})

    rng = vlib.Rng(ctx.seed)
    t_start = time.time()
    deadline = t_start + (2400 if ctx.thorough else 75)
    results = []
    dist = {'family': {}, 'variant': {}, 'mode': {}, 'budget': {}, 'ids_per_update': {}, 'updates_per_history': {}, 'shape': {}}

    def bump(d, k):
        d[str(k)] = d.get(str(k), 0) + 1

    def account(case):
        bump(dist['family'], case.get('family', 'corpus')); bump(dist['variant'], case['variant']); bump(dist['mode'], case['mode'])
        bump(dist['shape'], case.get('shape', 'corpus')); bump(dist['updates_per_history'], len(case['updates']))
        for u in case['updates']:
            b = u['budget']
            bump(dist['budget'], b if b in (0, 1, 100000) else ('2-9' if b < 10 else '10-999' if b < 1000 else '1000+'))
            n = len(all_ids(u))
            bump(dist['ids_per_update'], n if n < 3 else '3-12' if n <= 12 else '13-64' if n <= 64 else '65-200' if n <= 200 else '201-400')

    # 1. corpus
    cdir = os.path.join(vlib.VERIF, 'corpus', 'C05')
    jobs = []
    for f in sorted(os.listdir(cdir)) if os.path.isdir(cdir) else []:
        if f.endswith('.case'):
            c = parse_case(open(os.path.join(cdir, f)).read())
            c['name'] = 'corpus/' + f
            jobs.append((c, True))
    ncorpus = len(jobs)
    # 2. generated histories
    nhist = 150 * (20 if ctx.thorough else 1)
    if ctx.broken:
        nhist *= 2          # something no longer checks: search harder for a concrete failing input
    for i in range(nhist):
        jobs.append((gen_history(rng, i), False))
    seeds = [rng.next() for _ in jobs]

    def work(j):
        (case, prepared), seed = j
        try:
            return run_history(R, K, case, seed, prepared=prepared, nunreg=200)
        except Exception as ex:       # a bug of the check itself must not pass silently
            return {'case': case, 'fails': [], 'corr': 'check script error: %r' % (ex,), 'stats': {}, 'impl': {'rc': 0, 'ups': []}, 'model': None}

    with concurrent.futures.ThreadPoolExecutor(max_workers=vlib.NJOBS) as ex:
        results = list(ex.map(work, zip(jobs, seeds)))

    # 3. thorough: real exhaustion with the default budget, hook on / hook compiled out
    exhaustion = []
    if ctx.thorough and nohook:
        xjobs = []
        for i in range(3):
            n = rng.range(330, 360) if i < 2 else rng.range(280, 300)
            ids = gen_ids(rng, 'random', n)
            case = {'variant': 'checked' if i % 2 == 0 else 'fast', 'mode': 'throw', 'name': 'exhaust-%d' % i, 'family': 'random', 'shape': 'exhaust',
                    'updates': [{'budget': K['budget_hook_default'], 'classes': [[j + 1, [t]] for j, t in enumerate(ids)], 'lookups': []}]}
            xjobs.append(case)

        def xwork(case):
            a = R.run_impl(case, timeout=900)
            b = R.run_impl(case, binary=nohook, timeout=900)
            return case, a, b
        with concurrent.futures.ThreadPoolExecutor(max_workers=6) as ex:
            for case, a, b in ex.map(xwork, xjobs):
                account(case)
                fa = oracle(case, a, K)
                kb = dict(K);
                caseb = json.loads(json.dumps(strip(case))); caseb['updates'][0]['budget'] = K['budget_literal']
                fb = oracle(caseb, b, K)
                la = [l for l in canonical(a['ups']) if not l.startswith('update')]
                lb = [l for l in canonical(b['ups']) if not l.startswith('update')]
                la = [re.sub(r' attempts \d+$', ' attempts ?', l) if l.startswith('hash found') else l for l in la]
                same = (la == lb) or K['budget_literal'] != K['budget_hook_default']
                exhaustion.append({'ids': len(all_ids(case['updates'][0])), 'variant': case['variant'],
                                   'hooked': [l for l in canonical(a['ups']) if l.startswith('hash')], 'no_hook': [l for l in canonical(b['ups']) if l.startswith('hash')],
                                   'same': same})
                if fa or fb:
                    r = {'case': case, 'fails': fa or fb}
                    report_violation(ctx, R, K, r, 'default budget, %s' % ('hooked build' if fa else 'build without the hook'), time.time() + 60)
                elif not same:
                    ctx.broken.append('correspondence: build with the hook at its default and build without the hook differ on %s: %r / %r'
                                      % (case['name'], la[:1], lb[:1]))

    # 4. decide
    nviol = 0
    ncorr = 0
    distinct = set()
    tot = {'updates': 0, 'lookups': 0, 'found': 0, 'errors': 0, 'late': 0, 'later_pass': 0, 'stale_len': 0, 'unknown': 0, 'aborted': 0, 'lowered': 0, 'model_runs': 0}
    att_hist = {}
    samples = []
    for r in results:
        case = r['case']
        account(case)
        st = r['stats']
        for k in ('updates', 'lookups', 'found', 'errors', 'late', 'later_pass', 'stale_len', 'unknown'):
            tot[k] += st.get(k, 0)
        tot['aborted'] += 1 if st.get('aborted') else 0
        tot['lowered'] += 1 if st.get('lowered') else 0
        tot['model_runs'] += 1 if st.get('model_run') else 0
        for a in st.get('attempts', []):
            if a is not None:
                bump(att_hist, '0' if a == 0 else '1' if a == 1 else '2-10' if a <= 10 else '11-100' if a <= 100 else '101-1000' if a <= 1000 else '1001+')
        if sum(len(all_ids(u)) for u in case['updates']) >= 2 or st.get('errors'):
            distinct.add(hashlib.sha1(case_text(case).encode()).hexdigest())
        if r['fails']:
            nviol += 1
            if nviol <= 3:
                report_violation(ctx, R, K, r, case.get('name', '?'), time.time() + (60 if ctx.thorough else 20))
        elif r['corr']:
            ncorr += 1
            if ncorr <= 3:
                p = os.path.join(WORK, 'corr-%d.case' % ncorr)
                open(p, 'w').write(case_text(case, [u['stream'] or [] for u in r['impl']['ups']]))
                ctx.broken.append('correspondence: %s (%s): %s [case saved: %s]' % (case.get('name', '?'), case['variant'], r['corr'], os.path.relpath(p, vlib.VERIF)))
    if nviol > 3:
        vlib.log('  (%d more failing histories not written out)' % (nviol - 3))
    for r in results[:ncorpus][:2] + results[ncorpus:ncorpus + 2]:
        c = r['case']
        samples.append({'name': c.get('name'), 'case': case_text(c)[:700], 'implementation': canonical(r['impl']['ups'])[:4]})
    cov = {
        'evaluations': len(results) + 2 * len(exhaustion),
        'distinct_nontrivial': len(distinct),
        'rule': 'one evaluation = one history of 1-5 updates run through the real publish_vptrs/dynamic_vptr (ASan/UBSan), the extracted model fed '
                'with the recorded multiplier stream, and the Python oracle; histories from corpus/C05 then generated from VERIF_SEED; '
                'distinct_nontrivial = distinct case texts (sha1) with >= 2 registered ids in total or a reported search error',
        'samples': samples,
        'input_distribution': dist,
        'histories': len(results), 'corpus_cases': ncorpus,
        'updates': tot['updates'], 'lookups': tot['lookups'], 'lookups_rejected_unknown': tot['unknown'],
        'searches_found': tot['found'], 'searches_found_after_first_attempt': tot['late'], 'searches_found_in_later_pass': tot['later_pass'],
        'found_with_persisting_hash_max_beyond_table': tot['stale_len'],
        'search_errors': tot['errors'], 'processes_aborted_as_expected': tot['aborted'],
        'histories_with_lowered_budget': tot['lowered'], 'model_runs': tot['model_runs'],
        'attempts_histogram': att_hist,
        'oracle_failures': nviol, 'correspondence_differences': ncorr,
        'constants_from_source': K,
        'default_budget_exhaustion': exhaustion,
        'notes': ctx.notes,
    }
    ass = ['ids are 64-bit (uintptr_t); type_id(-1) is excluded from registered and looked-up ids (theorem hypothesis)',
           'the model follows the C++ only while `1 << M` does not overflow int (fewer than ~2^25 classes)',
           'the multiplier stream is whatever the implementation recorded through verif::hash_observer; the theorems hold for every stream',
           'sets are <= 400 ids per update; default-budget exhaustion (thorough) is checked by the oracle and against a build without the hook, not by the model']
    vlib.finish(ctx, cov, assumptions=ass)


if __name__ == '__main__':
    main()
