#!/usr/bin/env python3
"""C13 -- encoded dispatch data decodes to the tables update built.

  ./check C13 [--tier quick|thorough] [--replay file]

1. proof phase: translators -> Gen/GenCodecConsts.v (stop_bit, index_bit, cell sizes, anchors of the encoder / decoder
   loops), Properties_C13.vo, Print Assumptions, hygiene
2. harness/h3/codec_driver.cpp against /repo/include as it is now (ASan/UBSan); extracted model + ocaml/codec_driver.ml
3. corpus/C13/*.case, then generated registries aimed at the decoder's case splits: classes whose first used slot is
   not 0, classes no method uses, classes with empty v-tables registered last / first, many classes with few methods,
   uni- and multi-methods with error cells, several registration records per class.  Per registry:
     implementation: real compiler, real encode_dispatch_data (text parsed into exactly sized heap blocks laid out like
        the emitted struct), real decode_dispatch_data on them, every legal tuple re-walked / re-resolved / re-called
     model: encode / decode on compile R                                          -> line diff (correspondence)
     oracle (independent of the model): array bounds >= 1 and initializers fit; decoded image == update's image modulo
        base address; slots_strides and static v-table pointers equal; every legal tuple dispatches identically before
        and after decode; decoded words <= declared bound; no sanitizer report / assertion; and a Python replay of the
        cursors over the EMITTED cells: every write lands below the read cursor and inside vtbls[D]
4. a sample of the emitted texts compiled to object code with g++ and clang++; generated PROGRAMS (public front end)
   that include the emitted text and decode instead of calling update, built with g++ and clang++
5. decision + evidence (vlib.finish)
"""
import concurrent.futures, hashlib, json, os, re, shutil, sys, time
sys.path.insert(0, os.path.join(os.path.dirname(os.path.abspath(__file__)), '..', 'tools'))
sys.path.insert(0, os.path.dirname(os.path.abspath(__file__)))
import vlib, corelib
import C12 as base

PREFIXES = ('codec sizes', 'codec cells', 'codec decoded', 'codec ss', 'codec vptr', 'codec error', 'codec decode-error', 'codec bad-bound',
            'codec decoded-beyond-declared', 'codec unparsed')


def consts():
    out = {'stop_bit': 1 << 15, 'index_bit': 1 << 14, 'decode_size': 8, 'encode_size': 2}
    p = os.path.join(vlib.COQ, 'Gen', 'GenCodecConsts.v')
    if os.path.exists(p):
        t = open(p).read()
        m = re.search(r'Definition stop_bit : N := N\.shiftl 1 (\d+)\.', t)
        if m:
            out['stop_bit'] = 1 << int(m.group(1))
        m = re.search(r'Definition index_bit : N := N\.shiftr stop_bit (\d+)\.', t)
        if m:
            out['index_bit'] = out['stop_bit'] >> int(m.group(1))
        for k in ('decode_size', 'encode_size'):
            m = re.search(r'Definition %s : nat := (\d+)\.' % k, t)
            if m:
                out[k] = int(m.group(1))
    return out


# --------------------------------------------------------------------------- generators

def add_unused(rng, reg, where, k):
    """k extra classes no method uses (and no class derives from), registered first / last / in the middle"""
    n = reg['n']
    new = []
    for j in range(k):
        c = n + 1 + j
        if c > base.MAX_CLASS:
            break
        reg['parents'][str(c)] = []
        new.append([c, 1 if rng.chance(1, 5) else 0, [c] if rng.chance(1, 2) else []])
    reg['n'] = n + len(new)
    if where == 'last':
        reg['records'] = reg['records'] + new
    elif where == 'first':
        reg['records'] = new + reg['records']
    else:
        for r in new:
            reg['records'].insert(rng.below(len(reg['records']) + 1), r)
    return reg


def gen_join(rng):
    """k roots, classes deriving from several of them, a method per root: the second, third ... root's v-table does not
    start at slot 0"""
    k = rng.range(2, 4)
    parents = {c: [] for c in range(1, k + 1)}
    n = k
    for _ in range(rng.range(1, 3)):
        n += 1
        parents[n] = sorted(rng.sample(range(1, k + 1), rng.range(2, k)))
    for _ in range(rng.range(0, 3)):
        n += 1
        parents[n] = [rng.range(1, n - 1)]
    anc = corelib.ancestors(parents, n)
    order = list(range(1, n + 1))
    if rng.chance(1, 2):
        rng.shuffle(order)
    recs = []
    for c in order:
        lst = sorted(anc[c]) if rng.chance(2, 3) else list(parents[c])
        recs.append([c, 0, lst])
    roots = list(range(1, k + 1)); rng.shuffle(roots)
    avail = list(base.SHAPES)
    ms = []
    desc = {c: sorted(d for d in range(1, n + 1) if c in anc[d]) for c in range(1, n + 1)}
    for r in roots:
        for _ in range(rng.range(1, 2)):
            shape = rng.choice([x for x in avail if x.count('v') <= 3] or ['v'])
            if shape in avail:
                avail.remove(shape)
            ar = shape.count('v')
            vp = [r] + [rng.range(1, n) for _ in range(ar - 1)]
            rng.shuffle(vp)
            defs = [{'vp': [rng.choice(desc[p]) for p in vp], 'next': 1} for _ in range(rng.range(0, 3))]
            ms.append({'shape': shape, 'vp': vp, 'defs': defs})
    return {'n': n, 'parents': {str(a): b for a, b in parents.items()}, 'abstract': [], 'records': recs, 'methods': ms[:5], 'alias': {},
            'kind': 'join', 'style': 'join'}


def gen_c13(rng, i):
    fam = rng.choice(['lattice_first', 'lattice_first', 'tail_empty', 'tail_empty', 'many_classes', 'errors', 'general', 'dup_records'])
    if fam == 'lattice_first' and rng.chance(1, 2):
        reg = gen_join(rng)
        if rng.chance(1, 3):
            add_unused(rng, reg, rng.choice(['last', 'first', 'middle']), rng.range(1, 3))
    elif fam == 'lattice_first':
        # several roots joined below: the slots of a root's methods start after the slots reserved for the other roots
        reg = corelib.gen_registry(rng, shapes=base.SHAPES, max_classes=rng.choice([5, 7, 9]), max_methods=rng.choice([2, 3, 4, 5]),
                                   kind=rng.choice(['comb', 'diamond', 'random', 'si_above_mi', 'mi_above_si']))
        if rng.chance(1, 3):
            add_unused(rng, reg, rng.choice(['last', 'first', 'middle']), rng.range(1, 3))
    elif fam == 'tail_empty':
        reg = corelib.gen_registry(rng, shapes=base.SHAPES, max_classes=rng.choice([2, 3, 5]), max_methods=rng.choice([1, 1, 2, 3]),
                                   style=rng.choice(['full', 'direct']))
        add_unused(rng, reg, rng.choice(['last', 'last', 'last', 'first', 'middle']), rng.choice([1, 2, 4, 8, 12, 20]))
    elif fam == 'many_classes':
        reg = corelib.gen_registry(rng, shapes=['v', 'v', 'vv'], max_classes=rng.choice([15, 20, 30, 38]), max_methods=rng.choice([1, 1, 2]),
                                   kind=rng.choice(['tree', 'forest', 'forest', 'random', 'chain']), style=rng.choice(['full', 'direct']))
        # gen_registry caps the class count at its own menu: grow with unused / leaf classes
        extra = rng.choice([5, 10, 20])
        add_unused(rng, reg, rng.choice(['last', 'middle']), min(extra, base.MAX_CLASS - reg['n']))
    elif fam == 'errors':
        reg = corelib.gen_registry(rng, shapes=['v', 'vv', 'vv', 'vvv', 'vnv'], max_classes=rng.choice([4, 6, 8]), max_methods=rng.choice([1, 2, 3]),
                                   kind=rng.choice(['diamond', 'random', 'comb', 'tree']))
        for m in reg['methods']:      # few definitions, none for the base case: cells without definition, ambiguous cells
            m['defs'] = [d for d in m['defs'] if d['vp'] != m['vp']][:rng.choice([0, 1, 2, 2, 3])]
    elif fam == 'dup_records':
        reg = corelib.gen_registry(rng, shapes=base.SHAPES, max_classes=rng.choice([3, 5, 7]), max_methods=rng.choice([1, 2, 3]),
                                   style=rng.choice(['split', 'mixed']))
        if rng.chance(1, 2) and reg['records']:
            r = rng.choice(reg['records']); reg['records'].insert(rng.below(len(reg['records']) + 1), [r[0], r[1], list(r[2])])
    else:
        reg = corelib.gen_registry(rng, shapes=base.SHAPES, max_classes=10, max_methods=5)
    reg['family'] = fam
    return reg


# --------------------------------------------------------------------------- oracle

def replay_cursors(K, H, S, E, D, vt, arities, ncls):
    """the decoder's two cursors over the EMITTED v-table cells (independent of the Coq model and of the C++ decoder):
    -> (failure or None, writes, tightest margin)"""
    ratio = K['decode_size'] // K['encode_size']
    stop, index = K['stop_bit'], K['index_bit']
    st = {'rd': 0, 'wr': 0, 'margin': None}
    lead = H + S

    class Fail(Exception):
        pass

    def fetch():
        if st['rd'] >= E or st['rd'] >= len(vt):
            raise Fail('read of encoded.vtbls[%d] with E = %d (%d initializers)' % (st['rd'], E, len(vt)))
        if lead + st['rd'] < ratio * st['wr']:
            raise Fail('read of union cell %d after decoded word %d overwrote it' % (lead + st['rd'], st['wr'] - 1))
        c = vt[st['rd']]; st['rd'] += 1
        return c & ~stop & 0xffff, bool(c & stop)

    def put():
        if st['wr'] >= D:
            raise Fail('decoded word %d written to std::uintptr_t vtbls[%d]' % (st['wr'], D))
        m = lead + st['rd'] - ratio * (st['wr'] + 1)
        if m < 0:
            raise Fail('decoded word %d overwrites union cells up to %d while the read cursor is at %d' % (st['wr'], ratio * (st['wr'] + 1) - 1, lead + st['rd']))
        st['margin'] = m if st['margin'] is None else min(st['margin'], m)
        st['wr'] += 1

    try:
        for _ in range(ncls):
            _, last = fetch()
            guard = 0
            while not last:
                guard += 1
                if guard > 100000:
                    raise Fail('no stop bit')
                code, last = fetch()
                if code & index:
                    put()
                else:
                    if code >= len(arities):
                        raise Fail('method index %d of %d methods' % (code, len(arities)))
                    _, last = fetch()
                    put()
        if st['rd'] != len(vt):
            raise Fail('%d encoded cells emitted, %d consumed' % (len(vt), st['rd']))
    except Fail as f:
        return str(f), st['wr'], st['margin']
    return None, st['wr'], st['margin']


def parse_cells(v):
    m = re.match(r'slots(.*?) vtbls(.*?) dtbls(.*)$', v)
    if not m:
        return None
    return [[int(x) for x in g.split()] for g in m.groups()]


def oracle_c13(reg, res, K=None):
    K = K or consts()
    F = []
    o = base.kv(res['lines'])
    if o.get('update', '').startswith('error'):
        return []
    if res['crashed']:
        where = 'in decode_dispatch_data' if 'decoding' in o and 'codec decoded' not in o else ('after decoding' if 'decoding' in o else 'before decoding')
        return ['driver crashed %s: %s' % (where, res['stderr'].split('\n')[0][:300])]
    if o.get('update') != 'ok':
        return ['no update line']
    if 'other' in o:
        F.append('unexpected output: %r' % o['other'][:2])
    for k in ('codec unparsed', 'codec bad-bound', 'codec decode-error', 'codec decoded-beyond-declared'):
        if k in o:
            F.append('%s %s' % (k, o[k]))
    sz = re.match(r'H (-?\d+) S (-?\d+) E (-?\d+) D (-?\d+) T (-?\d+)$', o.get('codec sizes', ''))
    if not sz:
        return F + ['no sizes line']
    H, S, E, D, T = [int(x) for x in sz.groups()]
    nm = len(reg['methods'])
    ncls = len(set(c for c, _, _ in reg['records']))
    if H < 1 or D < 1 or T < 1 or S < (1 if nm else 0) or E < (1 if ncls else 0):
        F.append('array bound < 1 in the emitted struct: headroom[%d] slots[%d] vtbls[%d] / vtbls[%d] dtbls[%d]' % (H, S, E, D, T))
    cells = parse_cells(o.get('codec cells', ''))
    if cells:
        if len(cells[0]) > S or len(cells[1]) > E or len(cells[2]) > T:
            F.append('more initializers than the array bound: slots %d/%d vtbls %d/%d dtbls %d/%d' % (len(cells[0]), S, len(cells[1]), E, len(cells[2]), T))
        fail, writes, margin = replay_cursors(K, H, S, E, D, cells[1], [base.arity(m) for m in reg['methods']], ncls)
        if fail:
            F.append('in-place decoding of the emitted cells: ' + fail)
        res['margin'] = margin
        res['writes'] = writes
    else:
        F.append('no cells line')
    if 'codec decoded' not in o:
        F.append('decoder did not finish')
        return F
    if o.get('codec decoded') != o.get('image'):
        a = o.get('image', '').split(); b = o.get('codec decoded', '').split()
        i = next((i for i in range(min(len(a), len(b))) if a[i] != b[i]), min(len(a), len(b)))
        F.append('decoded image differs from the image update wrote at word %d: update %s, decoded %s (%d / %d words)'
                 % (i, a[i] if i < len(a) else '<end>', b[i] if i < len(b) else '<end>', len(a), len(b)))
    for mi in range(nm):
        if o.get('codec ss %d' % mi) != o.get('ssinst %d' % mi):
            F.append('method %d: decoded slots_strides %s, update installed %s' % (mi, o.get('codec ss %d' % mi), o.get('ssinst %d' % mi)))
    for k, v in o.items():
        if k.startswith('vptr0 '):
            c = k.split()[1]
            if o.get('codec vptr ' + c) != v:
                F.append('class %s: decoded static v-table pointer at offset %s from the v-tables, update installed %s' % (c, o.get('codec vptr ' + c), v))
    rw = re.match(r'tuples (\d+) mismatches (\d+)(.*)$', o.get('rewalk', ''))
    if not rw:
        F.append('no re-walk of the decoded tables')
    elif int(rw.group(2)):
        F.append('%s of %s legal tuples dispatch differently on the decoded tables%s' % (rw.group(2), rw.group(1), rw.group(3)))
    return F


# --------------------------------------------------------------------------- emitted texts compiled

WRAP = '''#include <cstdint>
#include <cstddef>
namespace yorel { namespace yomm2 { template<class Policy, typename Data> void decode_dispatch_data(Data& init) { (void)sizeof(init.encoded.headroom); (void)sizeof(init.dtbls); } } }
namespace h1 { struct pol_cd; }
void install_%s() {
%s
}
'''


def compile_texts(textdir, tags, rng, nsample):
    """-> (failures, stats): the emitted text as the body of a function, compiled to object code by both compilers"""
    F = []
    pick = rng.sample(tags, min(nsample, len(tags)))
    jobs = []
    for t in pick:
        p = os.path.join(textdir, t + '.txt')
        if not os.path.exists(p):
            continue
        src = os.path.join(textdir, t + '.cpp')
        open(src, 'w').write(WRAP % (t, open(p).read()))
        for cc in ('g++', 'clang++'):
            jobs.append((t, cc, src))

    def work(j):
        t, cc, src = j
        rc, out = vlib.run([cc, '-std=c++17', '-O0', '-c', src, '-o', src + '.' + cc + '.o'], timeout=120)
        return t, cc, rc, out
    with concurrent.futures.ThreadPoolExecutor(max_workers=base.NJ) as ex:
        rs = list(ex.map(work, jobs))
    for t, cc, rc, out in rs:
        if rc != 0:
            F.append((t, '%s rejects the emitted dispatch data: %s' % (cc, out.strip().split('\n')[0][:300])))
    return F, {'texts_compiled': len(pick), 'compilers': ['g++', 'clang++']}


# --------------------------------------------------------------------------- programs

def dup_scenario():
    """the replay of the publication defect (fixed in 3362c80), as a program scenario with repeated registration"""
    return {'n': 3, 'parents': {'1': [], '2': [1], '3': [1]}, 'methods': [{'vp': [1], 'defs': [[2], [3]]}, {'vp': [1, 1], 'defs': [[2, 3], [1, 1]]}],
            'extra_registrations': [[1, 2], [1, 3], [1]]}


def prog_source13(sc):
    src, ncalls = base.prog_source(sc)
    extra = ''.join('register_classes(%s);\n' % ', '.join('C%d' % c for c in grp) for grp in sc.get('extra_registrations', []))
    if extra:
        src = src.replace('declare_method(int, m0,', extra + 'declare_method(int, m0,', 1)
    return src, ncalls


def run_programs_c13(sc):
    F = []
    src_text, ncalls = prog_source13(sc)
    key = hashlib.sha1((src_text + vlib.repo_hash() + 'c13').encode()).hexdigest()[:20]
    d = vlib.cache_dir('c12prog-' + key)
    src = os.path.join(d, 'prog.cpp')
    if not os.path.exists(src):
        open(src, 'w').write(src_text)
    off = os.path.join(d, 'offsets.hpp'); tab = os.path.join(d, 'tables.hpp')
    gen = base.compile_run({'dir': d, 'name': 'gen', 'src': src, 'compiler': 'g++', 'defs': ['-DGEN'], 'args': [off, tab]})
    if not gen['compiled'] or gen['rc'] != 0 or not os.path.exists(tab):
        return ['generator program failed: ' + (gen['log'] or gen['out'])[-400:]], {'programs': 1}
    q = base.quote
    jobs = [
        {'dir': d, 'name': 'base_release', 'src': src, 'compiler': 'g++', 'defs': []},
        {'dir': d, 'name': 'dec_release', 'src': src, 'compiler': 'g++', 'defs': ['-DTABLES_FILE=' + q(tab)]},
        {'dir': d, 'name': 'dec_release_clang', 'src': src, 'compiler': 'clang++', 'defs': ['-DTABLES_FILE=' + q(tab)]},
        {'dir': d, 'name': 'dec_checked', 'src': src, 'compiler': 'g++', 'defs': ['-DCHECKED', '-DTABLES_FILE=' + q(tab)]},
        {'dir': d, 'name': 'dec_offsets_checked', 'src': src, 'compiler': 'g++', 'defs': ['-DCHECKED', '-DTABLES_FILE=' + q(tab), '-DOFFSETS_FILE=' + q(off)]},
    ]
    with concurrent.futures.ThreadPoolExecutor(max_workers=base.NJ) as ex:
        rs = list(ex.map(base.compile_run, jobs))
    by = {j['name']: r for j, r in zip(jobs, rs)}
    for k, r in by.items():
        if not r['compiled']:
            F.append('program %s does not compile: %s' % (k, r['log'][-300:]))
        elif r['rc'] != 0:
            F.append('program %s exits with status %s: %s' % (k, r['rc'], (r['log'] or r['out'])[-300:]))
    if F:
        return F, {'programs': 1 + len(jobs)}
    ref = by['base_release']['out']
    for k in ('dec_release', 'dec_release_clang', 'dec_checked', 'dec_offsets_checked'):
        if by[k]['out'] != ref:
            a = ref.split('\n'); b = by[k]['out'].split('\n')
            i = next((i for i in range(min(len(a), len(b))) if a[i] != b[i]), min(len(a), len(b)))
            F.append('program that decodes the emitted data (%s) behaves differently from the one that calls update: %r vs %r'
                     % (k, a[i] if i < len(a) else '<end>', b[i] if i < len(b) else '<end>'))
    return F, {'programs': 1 + len(jobs), 'calls': ncalls, 'emitted_text': open(tab).read()[:700]}


# --------------------------------------------------------------------------- main

def main():
    ctx = vlib.Ctx('C13')
    vlib.proof_phase(ctx, extra_targets=['Extract/ExtractCodec.vo'])
    # the decoder's control flow as translated from decode.hpp on this run (Gen/GenDec.v): it IS Codec.decode
    vlib.proof_phase_extra(ctx, 'Properties_C13_source')
    # the array bounds the encoder prints, as translated from generator.hpp (Gen/GenEnc.v): they ARE e_H .. e_T of Codec.encode
    vlib.proof_phase_extra(ctx, 'Properties_C13_enc_source')
    vlib.proof_phase_extra(ctx, 'Properties_C13_wr_source')      # the loops of the encoder that write the cells (translators/encwrite.py)
    K = consts()
    mdl, drv = base.build_binaries(ctx)
    if ctx.replay:
        base.replay(ctx, mdl, drv, lambda reg, res: oracle_c13(reg, res, K), PREFIXES, (), prog_runner=run_programs_c13)
    if not drv:
        vlib.finish(ctx, {'evaluations': 0, 'distinct_nontrivial': 0, 'rule': 'harness did not build', 'samples': []})
    rng = vlib.Rng(ctx.seed)
    cases = base.load_corpus('C13')
    ncorpus = len(cases)
    ngen = 20000 if ctx.thorough else 1200
    if ctx.broken:
        ngen *= 2
    for i in range(ngen):
        r = gen_c13(rng, i); r['name'] = 'gen-%d' % i
        cases.append(r)
    queries = [('c%d' % i, base.query_of('c%d' % i, r)) for i, r in enumerate(cases)]
    textdir = os.path.join(vlib.BUILD, 'C13', 'texts-%d' % os.getpid())
    shutil.rmtree(textdir, ignore_errors=True)
    os.makedirs(textdir, exist_ok=True)
    t0 = time.time()
    impl = base.run_parallel(drv, queries, textdir=textdir)
    model = base.run_model(mdl, queries) if mdl else {}
    t_run = time.time() - t0

    nviol = ncorr = 0
    distinct = set()
    dist = {'family': {}, 'kind': {}, 'classes': {}, 'methods_per_registry': {}, 'headroom': {}, 'tightest_margin_cells': {}}
    tot = {'first_slot_nonzero': 0, 'classes_with_empty_vtbl': 0, 'registries_with_empty_vtbl_last': 0, 'registries_with_first_slot_nonzero': 0,
           'registries_with_duplicate_records': 0, 'decoded_words': 0, 'rewalked_tuples': 0, 'error_cells': 0, 'headroom_gt1': 0, 'tight': 0}
    samples = []

    def bump(dd, k):
        dd[str(k)] = dd.get(str(k), 0) + 1

    def report(reg, fails, origin):
        def failing(r2):
            rr = base.run_driver(drv, [('s', base.query_of('s', r2))]).get('s', {'lines': [], 'crashed': True, 'stderr': ''})
            return bool(oracle_c13(r2, rr, K))
        small = base.shrink(reg, failing, time.time() + (60 if ctx.thorough else 15))
        rr = base.run_driver(drv, [('s', base.query_of('s', small))]).get('s', {'lines': [], 'crashed': True, 'stderr': ''})
        f2 = oracle_c13(small, rr, K) or fails
        ctx.violation('C13 %s: %s' % (origin, f2[0]),
                      {'case_text': base.query_of('replay', small), 'registry': small, 'failures': f2[:10],
                       'expected': 'decode(encode(update)) = update: same image modulo base address, same slots_strides, same static v-table '
                                   'pointers, same dispatch for every legal tuple; all reads and writes inside the emitted struct',
                       'got': [l for l in rr['lines'] if l.startswith(('codec', 'image', 'rewalk', 'vptr0'))][:14] + ([rr['stderr'][:700]] if rr['crashed'] else []),
                       'model': [l for l in base.run_model(mdl, [('s', base.query_of('s', small))]).get('s', []) if l.startswith('codec')][:10] if mdl else [],
                       'origin': origin, 'repo': vlib.REPO})

    ok_tags = []
    for i, reg in enumerate(cases):
        tag = 'c%d' % i
        res = impl.get(tag, {'lines': [], 'crashed': True, 'stderr': 'no output'})
        fails = oracle_c13(reg, res, K)
        o = base.kv(res['lines'])
        m = base.kv(model.get(tag, []))
        bump(dist['family'], reg.get('family', 'corpus')); bump(dist['kind'], reg.get('kind')); bump(dist['methods_per_registry'], len(reg['methods']))
        n = reg['n']
        bump(dist['classes'], n if n <= 10 else '11-20' if n <= 20 else '21-39')
        cells = parse_cells(o.get('codec cells', ''))
        if cells:
            # first-slot cells: the cell that follows a stop bit (or the first one)
            vt = cells[1]; firsts = []; k = 0; expect_first = True
            stop = K['stop_bit']; index = K['index_bit']
            while k < len(vt):
                if expect_first:
                    firsts.append(vt[k]); expect_first = bool(vt[k] & stop); k += 1
                else:
                    c = vt[k]
                    if c & index or c & stop:
                        expect_first = bool(c & stop); k += 1
                    else:
                        expect_first = bool(vt[k + 1] & stop) if k + 1 < len(vt) else True; k += 2
            nz = sum(1 for f in firsts if f & ~stop & 0xffff)
            empty = sum(1 for f in firsts if f & stop)
            tot['first_slot_nonzero'] += nz; tot['classes_with_empty_vtbl'] += empty
            tot['registries_with_first_slot_nonzero'] += 1 if nz else 0
            tot['registries_with_empty_vtbl_last'] += 1 if firsts and firsts[-1] & stop else 0
        if len(set(c for c, _, _ in reg['records'])) != len(reg['records']):
            tot['registries_with_duplicate_records'] += 1
        sz = re.match(r'H (\d+)', o.get('codec sizes', ''))
        if sz:
            h = int(sz.group(1)); bump(dist['headroom'], h if h <= 4 else '5-16' if h <= 16 else '17+')
            tot['headroom_gt1'] += 1 if h > 1 else 0
        if res.get('margin') is not None:
            mg = res['margin']; bump(dist['tightest_margin_cells'], mg if mg <= 3 else '4+')
            tot['tight'] += 1 if mg == 0 else 0
        tot['decoded_words'] += len(o.get('codec decoded', '').split())
        tot['error_cells'] += sum(1 for w in o.get('image', '').split() if w.startswith(('ni', 'amb')))
        rw = re.match(r'tuples (\d+)', o.get('rewalk', ''))
        if rw:
            tot['rewalked_tuples'] += int(rw.group(1))
        if reg['methods'] and n >= 2:
            distinct.add(corelib.reg_hash(reg))
        if i < 2 or ncorpus <= i < ncorpus + 2:
            samples.append({'name': reg.get('name'), 'case': base.query_of(tag, reg)[:500],
                            'implementation': [l for l in res['lines'] if l.startswith(('codec sizes', 'codec cells'))][:2]})
        if fails:
            nviol += 1
            if nviol <= 3:
                report(reg, fails, reg.get('name'))
        else:
            ok_tags.append(tag)
            if mdl:
                diffs = base.diff_keys(o, m, PREFIXES, ())
                if diffs:
                    ncorr += 1
                    if ncorr <= 3:
                        p = os.path.join(vlib.BUILD, 'C13', 'corr-%d.case' % ncorr)
                        open(p, 'w').write(base.query_of('corr', reg))
                        ctx.broken.append('correspondence: %s: %s implementation %r / model %r [case saved: %s]'
                                          % (reg.get('name'), diffs[0][0], (diffs[0][1] or '')[:120], (diffs[0][2] or '')[:120], os.path.relpath(p, vlib.VERIF)))

    # 4a. emitted texts through both compilers
    t1 = time.time()
    tags_all = ['c%d' % i for i in range(len(cases))]
    TF, tstats = compile_texts(textdir, tags_all, vlib.Rng(ctx.seed + 17), 200 if ctx.thorough else 24)
    for t, msg in TF[:3]:
        nviol += 1
        reg = cases[int(t[1:])]
        ctx.violation('C13 %s: %s' % (reg.get('name'), msg),
                      {'case_text': base.query_of('replay', reg), 'registry': reg, 'failures': [msg],
                       'emitted_text': open(os.path.join(textdir, t + '.txt')).read()[:1500], 'origin': reg.get('name'), 'repo': vlib.REPO})
    shutil.rmtree(textdir, ignore_errors=True)
    # 4b. programs
    pstats = []
    scs = [dup_scenario()] + [base.prog_scenario(vlib.Rng(ctx.seed * 104729 + k), arities=(1, 2, 3) if k % 2 else (1, 1, 2, 4))
                              for k in range(6 if ctx.thorough else 1)]
    for k, sc in enumerate(scs):
        try:
            F, st = run_programs_c13(sc)
        except Exception as ex:
            F, st = [], {'error': repr(ex)}
            ctx.broken.append('check script error in the program stage: %r' % (ex,))
        pstats.append(st)
        if F:
            nviol += 1
            ctx.violation('C13 program %d: %s' % (k, F[0]), {'scenario': sc, 'program': prog_source13(sc)[0], 'failures': F[:10],
                                                              'expected': 'same output as the program that calls update', 'origin': 'generated program', 'repo': vlib.REPO})
    t_prog = time.time() - t1

    cov = {
        'evaluations': len(cases) + tstats['texts_compiled'] * 2 + sum(s.get('programs', 0) for s in pstats),
        'distinct_nontrivial': len(distinct),
        'rule': 'one evaluation = one registry run through the real compiler, encode_dispatch_data, decode_dispatch_data on exactly sized heap '
                'blocks (ASan/UBSan) and the extracted model, judged by the Python oracle; or one emitted text compiled by one compiler; or one '
                'generated program compiled and run. Registries from corpus/C13 then six families (VERIF_SEED). distinct_nontrivial = distinct '
                'registries (sha1 of records+methods) with at least one method and two classes',
        'samples': samples,
        'input_distribution': dist,
        'registries': len(cases), 'corpus_cases': ncorpus,
        'classes_whose_first_slot_is_not_0': tot['first_slot_nonzero'], 'registries_with_such_a_class': tot['registries_with_first_slot_nonzero'],
        'classes_with_empty_vtable': tot['classes_with_empty_vtbl'], 'registries_ending_with_an_empty_vtable': tot['registries_with_empty_vtbl_last'],
        'registries_with_several_records_per_class': tot['registries_with_duplicate_records'],
        'registries_with_headroom_above_1': tot['headroom_gt1'], 'registries_where_a_write_reaches_the_read_cursor': tot['tight'],
        'decoded_words_compared': tot['decoded_words'], 'error_cells_in_images': tot['error_cells'], 'tuples_rewalked_after_decode': tot['rewalked_tuples'],
        'oracle_failures': nviol, 'correspondence_differences': ncorr,
        'emitted_texts': tstats, 'programs': sum(st.get('programs', 0) for st in pstats), 'generated_programs': pstats, 'seconds': {'drivers': round(t_run, 1), 'texts_and_programs': round(t_prog, 1)},
        'constants_from_source': K,
    }
    ass = ['the decoding process holds the same registrations in the same order as the encoding one, with null static v-table pointers '
           '(the driver resets them); publication of the v-table pointers (publish_vptrs at the end of decode) is exercised by the real calls '
           'but is not part of the Coq model of the decoder',
           'small registries: every emitted number < 2^14 (theorem hypothesis `small`); <= 39 classes, <= 5 methods in the differential runs',
           'compilability of the emitted text is observed on samples with g++ 12 and clang++ 14 only (not proved); a registry without methods '
           'emits `uint16_t slots[0]`, a GNU extension both compilers accept']
    vlib.finish(ctx, cov, assumptions=ass)


if __name__ == '__main__':
    main()
