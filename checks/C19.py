#!/usr/bin/env python3
"""C19 -- forward declarations are well formed and name exactly the requested classes.

    ./check C19 [--tier quick|thorough] [--replay replay/C19-n.json]

What runs (DESIGN.md sections 7 and 8/C19):
  1. translators -> coq/Gen/GenFwdDeclConsts.v; Properties_C19.vo (obligations, Print Assumptions, hygiene)
  2. H3 driver harness/h3/fwddecl_driver.cpp compiled from /repo as it is now (ASan/UBSan), extracted model driver
  3. corpus/C19/*.case, then generated cases:
       W  name sets (identifiers that collide at character level, depth 0-5, 0-12 names, a class named like a
          namespace, string-prefix identifiers) -> real add_forward_declaration + write_forward_declarations
       S  type descriptions printed from generated type trees (and hand-written texts in the corpus)
          -> real add_forward_declaration(description)
     every case: implementation vs extracted model (canonical lines), and, independently of the model,
       W: a Python parser of the emitted text: balanced, nothing left open, declared == requested, each once
          (+ the extracted Coq `parse` on the implementation's own text; + g++ -fsyntax-only on a sample, with a
          use of every requested class)
       S: the expected names computed in Python from the type tree
     the printers: Coq `show` == Python printer on every tree, and Python printer == boost::core::demangle of the
     real type (compiled sample; its forward declarations are the real writer's output for the real scanner's names)
  4. thorough: 10-20x the volume + exhaustive small scope (all sets of <= 3 names over {a, ab, abc, b}, depth <= 2)
"""
import hashlib, itertools, json, os, re, sys, tempfile, time
sys.path.insert(0, os.path.join(os.path.dirname(os.path.abspath(__file__)), '..', 'tools'))
import vlib

PID = 'C19'
ASAN = {'ASAN_OPTIONS': 'detect_leaks=0:abort_on_error=0', 'UBSAN_OPTIONS': 'print_stacktrace=1'}
TMP = os.path.join(vlib.BUILD, 'tmp')

# ------------------------------------------------------------------------------------------ type trees

FUND = {
    'void': ['void'], 'bool': ['bool'], 'char': ['char'], 'schar': ['signed', 'char'], 'uchar': ['unsigned', 'char'],
    'wchar_t': ['wchar_t'], 'char8_t': ['char8_t'], 'char16_t': ['char16_t'], 'char32_t': ['char32_t'],
    'short': ['short'], 'ushort': ['unsigned', 'short'], 'int': ['int'], 'uint': ['unsigned', 'int'],
    'long': ['long'], 'ulong': ['unsigned', 'long'], 'llong': ['long', 'long'], 'ullong': ['unsigned', 'long', 'long'],
    'float': ['float'], 'double': ['double'], 'ldouble': ['long', 'double'],
}
FUND_CXX = {'schar': 'signed char', 'uchar': 'unsigned char', 'ushort': 'unsigned short', 'uint': 'unsigned int',
            'ulong': 'unsigned long', 'llong': 'long long', 'ullong': 'unsigned long long', 'ldouble': 'long double'}
ORIGIN = {'U': '', 'S': 'std::', 'Y': 'yorel::'}


def show(t):
    """what boost::core::demangle (g++/libstdc++) prints for the type"""
    k = t[0]
    if k == 'F':
        return ' '.join(FUND[t[1]])
    if k == 'L':
        return t[1]
    if k == 'N':
        return ORIGIN[t[1]] + t[2]
    if k == 'A':
        body = ', '.join(show(a) for a in t[3])
        return ORIGIN[t[1]] + t[2] + '<' + body + (' >' if body.endswith('>') else '>')
    if k == 'P':
        return show(t[1]) + '*'
    if k == 'R':
        return show(t[1]) + '&'
    if k == 'RR':
        return show(t[1]) + '&&'
    if k == 'C':
        return show(t[1]) + ' const'
    if k == 'V':
        return show(t[1]) + ' volatile'
    if k == 'FN':
        return show(t[1]) + ' (' + ', '.join(show(a) for a in t[2]) + ')'
    if k == 'FP':
        return show(t[1]) + ' (*)(' + ', '.join(show(a) for a in t[2]) + ')'
    raise ValueError(k)


def class_names(t):
    """the classes a forward declaration is wanted for, in print order"""
    k = t[0]
    if k in ('F', 'L'):
        return []
    if k == 'N':
        return [t[2]] if t[1] == 'U' else []
    if k == 'A':
        return [n for a in t[3] for n in class_names(a)]
    if k in ('P', 'R', 'RR', 'C', 'V'):
        return class_names(t[1])
    return class_names(t[1]) + [n for a in t[2] for n in class_names(a)]


def tokens(t):
    """prefix form read by ocaml/fwddecl_driver.ml"""
    k = t[0]
    if k in ('F', 'L'):
        return [k, t[1]]
    if k == 'N':
        return ['N', t[1], t[2]]
    if k == 'A':
        return ['A', t[1], t[2], str(len(t[3]))] + [x for a in t[3] for x in tokens(a)]
    if k in ('P', 'R', 'RR', 'C', 'V'):
        return [k] + tokens(t[1])
    return [k, str(len(t[2]))] + tokens(t[1]) + [x for a in t[2] for x in tokens(a)]


def cxx(t):
    """C++ source of the type, through the alias templates of namespace v_ (no declarator syntax needed)"""
    k = t[0]
    if k == 'F':
        return FUND_CXX.get(t[1], t[1])
    if k == 'L':
        return t[1]
    if k == 'N':
        return '::' + ORIGIN[t[1]] + t[2]
    if k == 'A':
        return '::' + ORIGIN[t[1]] + t[2] + '<' + ', '.join(cxx(a) for a in t[3]) + ' >'
    al = {'P': 'Ptr', 'R': 'LRef', 'RR': 'RRef', 'C': 'Const', 'V': 'Volatile'}
    if k in al:
        return 'v_::%s<%s >' % (al[k], cxx(t[1]))
    return 'v_::%s<%s >' % ('Fn' if k == 'FN' else 'FnPtr', ', '.join([cxx(t[1])] + [cxx(a) for a in t[2]]))


def subtrees(t):
    k = t[0]
    if k in ('F', 'L', 'N'):
        return []
    if k == 'A':
        return list(t[3])
    if k in ('P', 'R', 'RR', 'C', 'V'):
        return [t[1]]
    return [t[1]] + list(t[2])


def depth(t):
    s = subtrees(t)
    return 1 + (max(depth(x) for x in s) if s else 0)


def constructors(t, acc):
    acc[t[0]] = acc.get(t[0], 0) + 1
    for s in subtrees(t):
        constructors(s, acc)


# ------------------------------------------------------------------------------------------ generators

# identifiers chosen so that prefixes collide at character level
IDS = ['a', 'ab', 'abc', 'b', 'a1', 'N', 'NN', 'ab_c', 'x', 'Ns']
# pools for the compiled samples: namespace, class and template identifiers are disjoint, so every set compiles
NS_IDS = ['a', 'ab', 'abc', 'N']
CL_IDS = ['X', 'Y', 'X1', 'Animal', 'ab_c', 'Q', 'abX']
TP_IDS = ['tp', 'tq']
STD_NAMES = ['ostream', 'string', '__cxx11::basic_string', 'istream', 'nullptr_t', 'chrono::seconds']
STD_TEMPLATES = ['shared_ptr', 'unique_ptr', 'vector', 'char_traits', 'allocator', 'pair']
YOREL_NAMES = ['yomm2::policy::debug', 'yomm2::policy::release', 'yomm2::default_policy']
YOREL_TEMPLATES = ['yomm2::virtual_', 'yomm2::virtual_ptr', 'yomm2::method', 'yomm2::detail::types']


def gen_name(rng, maxdepth=5):
    d = rng.choice([0, 0, 1, 1, 1, 2, 2, 3, 4, maxdepth])
    return '::'.join(rng.choice(IDS) for _ in range(min(d, maxdepth) + 1))


def derive_name(rng, name):
    segs = name.split('::')
    op = rng.below(6)
    if op == 0:                                  # sibling class
        segs[-1] = rng.choice(IDS)
    elif op == 1:                                # same position, identifier that is a string prefix / extension
        i = rng.below(len(segs))
        s = segs[i]
        segs[i] = rng.choice([s + 'c', s + '1', s[:-1] if len(s) > 1 else s + 'b', s + '_c', s + s])
    elif op == 2:                                # the class of the other entry is a namespace here
        segs = segs + [rng.choice(IDS)]
    elif op == 3:                                # a namespace of the other entry is the class here
        if len(segs) > 1:
            segs = segs[:-1]
        else:
            segs = segs + [rng.choice(IDS)]
    elif op == 4:                                # diverge in the middle
        i = rng.below(len(segs))
        segs = segs[:i] + [rng.choice(IDS)] + [rng.choice(IDS) for _ in range(rng.below(3))]
    else:                                        # deeper
        segs = segs[:-1] + [rng.choice(IDS) for _ in range(1 + rng.below(2))] + [segs[-1]]
    segs = segs[:6]
    return '::'.join(segs)


def gen_name_set(rng):
    n = rng.choice([0, 1, 2, 2, 3, 3, 4, 5, 6, 8, 10, 12])
    names = []
    while len(names) < n:
        if names and rng.chance(3, 5):
            c = derive_name(rng, rng.choice(names))
        else:
            c = gen_name(rng)
        if c not in names:
            names.append(c)
        elif rng.chance(1, 4):
            names.append(gen_name(rng))          # (duplicates are dropped by the set anyway)
    rng.shuffle(names)
    return names


def gen_compilable_set(rng):
    n = rng.range(1, 10)
    names = set()
    for _ in range(n):
        d = rng.choice([0, 1, 1, 2, 2, 3, 4])
        names.add('::'.join([rng.choice(NS_IDS) for _ in range(d)] + [rng.choice(CL_IDS)]))
    return sorted(names)


def compilable(names):
    """no class named like a namespace of the same scope (C++ rejects that whatever the writer does)"""
    paths = set()
    for n in names:
        segs = n.split('::')
        for i in range(1, len(segs)):
            paths.add('::'.join(segs[:i]))
    return not any(n in paths for n in names)


def user_name(rng):
    return '::'.join([rng.choice(IDS) for _ in range(rng.choice([0, 0, 1, 1, 2, 3]))] + [rng.choice(IDS + CL_IDS)])


def gen_wild(rng, d):
    """any tree of the grammar (the theorem covers every nesting, also those C++ has no type for)"""
    if d <= 0 or rng.chance(1, 5):
        k = rng.below(10)
        if k < 3:
            return ('F', rng.choice(sorted(FUND)))
        if k < 4:
            return ('L', rng.choice(['0', '1', '42', '7ul', '1u', '123456']))
        if k < 8:
            return ('N', 'U', user_name(rng))
        if k < 9:
            return ('N', 'S', rng.choice(STD_NAMES))
        return ('N', 'Y', rng.choice(YOREL_NAMES))
    k = rng.below(12)
    if k < 3:
        o = rng.choice(['U', 'U', 'S', 'Y'])
        q = user_name(rng) if o == 'U' else rng.choice(STD_TEMPLATES if o == 'S' else YOREL_TEMPLATES)
        return ('A', o, q, [gen_wild(rng, d - 1) for _ in range(rng.choice([0, 1, 1, 2, 3]))])
    if k < 9:
        return (rng.choice(['P', 'R', 'RR', 'C', 'V', 'C', 'R']), gen_wild(rng, d - 1))
    return (rng.choice(['FN', 'FN', 'FP']), gen_wild(rng, d - 1),
            [gen_wild(rng, d - 1) for _ in range(rng.choice([0, 1, 2, 2, 3]))])


def valid_class(rng):
    return ('N', 'U', '::'.join([rng.choice(NS_IDS) for _ in range(rng.choice([0, 0, 1, 2, 3]))] + [rng.choice(CL_IDS)]))


def gen_valid(rng, d, ctx):
    """a tree that is a C++ type, in the canonical form the demangler prints.
    ctx: 'arg' template argument, 'param', 'ret', 'pointee', 'referee', 'object' (cv-qualified / shared_ptr element)"""
    def obj(dd):                                  # object type without top-level cv
        k = rng.below(10)
        if dd <= 0 or k < 3:
            return valid_class(rng)
        if k < 5:
            return ('F', rng.choice([f for f in sorted(FUND) if f != 'void']))
        if k < 7:
            return ('P', gen_valid(rng, dd - 1, 'pointee'))
        if k < 8:
            return ('A', 'S', 'shared_ptr', [gen_valid(rng, dd - 1, 'object')])
        if k < 9:
            return ('A', 'U', '::'.join([rng.choice(NS_IDS) for _ in range(rng.below(3))] + [rng.choice(TP_IDS)]),
                    [gen_valid(rng, dd - 1, 'arg') for _ in range(rng.range(0, 3))])
        return ('A', 'U', 'pol', [('L', rng.choice(['0', '1', '42']))])

    def cv(t):
        k = rng.below(6)
        if k == 0:
            return ('C', t)
        if k == 1:
            return ('V', t)
        if k == 2:
            return ('V', ('C', t))
        return t

    if ctx == 'object':
        return cv(obj(d))
    if ctx == 'pointee':
        if rng.chance(1, 8):
            return cv(('F', 'void'))
        return cv(obj(d))
    if ctx == 'referee':
        return cv(obj(d))
    if ctx == 'ret':
        k = rng.below(8)
        if k < 2:
            return ('F', 'void')
        if k < 4:
            return (rng.choice(['R', 'RR']), gen_valid(rng, d - 1, 'referee'))
        return obj(d)
    if ctx == 'param':
        k = rng.below(10)
        if k < 3:
            return (rng.choice(['R', 'R', 'RR']), gen_valid(rng, d - 1, 'referee'))
        if k < 4 and d > 0:
            return ('FP', gen_valid(rng, d - 1, 'ret'), [gen_valid(rng, d - 1, 'param') for _ in range(rng.range(0, 2))])
        if k < 6:
            return ('A', 'Y', 'yomm2::virtual_', [(rng.choice(['R', 'R', 'RR']), gen_valid(rng, d - 1, 'referee'))])
        if k < 7:
            return ('R', ('N', 'S', 'ostream'))
        return obj(d)
    # template argument: anything
    k = rng.below(12)
    if k < 3 and d > 0:
        return ('FN', gen_valid(rng, d - 1, 'ret'), [gen_valid(rng, d - 1, 'param') for _ in range(rng.range(0, 3))])
    if k < 4 and d > 0:
        return ('FP', gen_valid(rng, d - 1, 'ret'), [gen_valid(rng, d - 1, 'param') for _ in range(rng.range(0, 2))])
    if k < 6:
        return (rng.choice(['R', 'RR']), gen_valid(rng, d - 1, 'referee'))
    if k < 7:
        return ('F', 'void')
    if k < 8:
        return ('N', 'Y', 'yomm2::policy::debug')
    return gen_valid(rng, d, 'object')


def gen_method(rng, d):
    """what add_forward_declarations scans: the demangled method class"""
    params = [('A', 'Y', 'yomm2::virtual_', [('R', gen_valid(rng, 1, 'referee'))])]
    params += [gen_valid(rng, d - 2, 'param') for _ in range(rng.range(0, 3))]
    return ('A', 'Y', 'yomm2::method',
            [valid_class(rng), ('FN', gen_valid(rng, d - 2, 'ret'), params), ('N', 'Y', 'yomm2::policy::debug')])


# ------------------------------------------------------------------------------------------ oracles

TOKEN_RE = re.compile(r'\s*(?:(\w+)|([{};]))')


def parse_decls(text):
    """independent recogniser: -> (list of qualified names declared, None) or (None, what is wrong)"""
    pos, toks = 0, []
    text = text.rstrip()
    while pos < len(text):
        m = TOKEN_RE.match(text, pos)
        if not m:
            return None, 'unexpected character %r at offset %d' % (text[pos:pos + 10], pos)
        toks.append(m.group(1) or m.group(2))
        pos = m.end()
    stack, out, i = [], [], 0
    while i < len(toks):
        t = toks[i]
        if t == '}':
            if not stack:
                return None, 'closing brace with no namespace open (token %d)' % i
            stack.pop()
            i += 1
        elif t == 'namespace' and i + 2 < len(toks) + 0 and re.fullmatch(r'\w+', toks[i + 1]) and toks[i + 2] == '{':
            stack.append(toks[i + 1])
            i += 3
        elif t == 'class' and i + 2 < len(toks) + 0 and re.fullmatch(r'\w+', toks[i + 1]) and toks[i + 2] == ';':
            out.append('::'.join(stack + [toks[i + 1]]))
            i += 3
        else:
            return None, 'unexpected token %r (token %d)' % (t, i)
    if stack:
        return None, 'namespace(s) left open at the end: %s' % '::'.join(stack)
    return out, None


def unescape(s):
    return s.replace('\\n', '\n').replace('\\\\', '\\')


def judge_w(names, got_line):
    """names: requested; got_line: the implementation's `W ...` line or None. -> None or (what, expected, got)"""
    want = sorted(set(names))
    if got_line is None:
        return ('no output (crash or hang)', want, None)
    text = unescape(got_line[2:])
    decl, err = parse_decls(text)
    if decl is None:
        return ('the text written is not a balanced sequence of namespace / class declarations: ' + err, want, text)
    if sorted(decl) != want:
        extra = sorted(set(decl) - set(want))
        missing = sorted(set(want) - set(decl))
        twice = sorted(set(d for d in decl if decl.count(d) > 1))
        what = 'declared classes differ from the requested ones'
        if missing:
            what += '; missing: ' + ' '.join(missing)
        if extra:
            what += '; not requested: ' + ' '.join(extra)
        if twice:
            what += '; declared more than once: ' + ' '.join(twice)
        return (what, want, text)
    return None


def judge_s(expected, got_line):
    want = sorted(set(expected))
    if got_line is None:
        return ('no output (crash or hang)', want, None)
    got = got_line[2:].split()
    if got != want:
        extra = sorted(set(got) - set(want))
        missing = sorted(set(want) - set(got))
        what = 'names extracted differ from the class names of the description'
        if missing:
            what += '; missing: ' + ' '.join(missing)
        if extra:
            what += '; extracted but not a user class: ' + ' '.join(extra)
        return (what, want, got)
    return None


# ------------------------------------------------------------------------------------------ running the drivers

def case_line(c):
    if c['kind'] == 'W':
        return 'W ' + ' '.join(c['names'])
    return 'S ' + c['description']


def write_tmp(lines, tag):
    os.makedirs(TMP, exist_ok=True)
    fd, p = tempfile.mkstemp(prefix='c19-%s-' % tag, suffix='.case', dir=TMP)
    with os.fdopen(fd, 'w') as f:
        f.write('\n'.join(lines) + '\n')
    return p


SKIPPED = '!skipped'


def run_keep(cmd, timeout, env=None):
    """like vlib.run2, but what was printed before a timeout is kept: (rc, out, err), rc 124 on timeout"""
    import subprocess
    e = dict(os.environ)
    e.update(env or {})
    p = subprocess.Popen(cmd, env=e, stdout=subprocess.PIPE, stderr=subprocess.PIPE, universal_newlines=True, errors='replace')
    try:
        so, se = p.communicate(timeout=timeout)
        return p.returncode, so, se
    except subprocess.TimeoutExpired:
        p.kill()
        so, se = p.communicate()
        return 124, so, se


def run_impl(impl, cases, crashes, per_case_timeout=3, max_failures=3):
    """-> list of answer lines (None where the implementation crashed or hung); crashes: index -> what happened.
    After max_failures crashes / hangs the remaining cases are not run (SKIPPED)."""
    out = [None] * len(cases)
    start = 0
    while start < len(cases):
        if len(crashes) >= max_failures or any('time limit' in v for v in crashes.values()):
            for i in range(start, len(cases)):
                out[i] = SKIPPED
            break
        p = write_tmp([case_line(c) for c in cases[start:]], 'impl')
        rc, so, se = run_keep([impl, p], 10 + (len(cases) - start) // 100, env=ASAN)
        os.remove(p)
        lines = [l for l in so.split('\n') if l.startswith(('W ', 'S ')) or l in ('W', 'S')]
        lines = [l if len(l) > 1 else l + ' ' for l in lines]
        n = min(len(lines), len(cases) - start)
        for i in range(n):
            out[start + i] = lines[i]
        if n >= len(cases) - start:
            break
        bad = start + n
        # confirm on its own (a hang must not be blamed on the batch timeout)
        p1 = write_tmp([case_line(cases[bad])], 'one')
        rc1, so1, se1 = run_keep([impl, p1], per_case_timeout, env=ASAN)
        os.remove(p1)
        l1 = [l for l in so1.split('\n') if l.startswith(('W', 'S'))]
        if rc1 == 0 and l1:
            out[bad] = l1[0] if len(l1[0]) > 1 else l1[0] + ' '
        else:
            crashes[bad] = crash_text(rc1, se1 or se)
        start = bad + 1
    return out


def run_model(model, lines):
    p = write_tmp(lines, 'model')
    rc, so, se = vlib.run2([model, p], timeout=1800)
    os.remove(p)
    return rc, so.split('\n'), se


def one_impl(impl, c):
    cr = {}
    r = run_impl(impl, [c], cr)
    return r[0], cr.get(0)


def crash_text(rc, err):
    if rc == 124:
        return 'no answer within the time limit (the loop does not terminate)'
    keep = [l.strip() for l in err.split('\n')
            if re.search(r'ERROR: AddressSanitizer|runtime error|SUMMARY:|^\s*#[0-5] ', l)]
    return 'exit status %d: %s' % (rc, ' | '.join(keep)[:900] if keep else err[-600:])


# ------------------------------------------------------------------------------------------ shrinking

def shrink_w(impl, names):
    def fails(ns):
        got, _ = one_impl(impl, {'kind': 'W', 'names': ns})
        return judge_w(ns, got) is not None
    names = sorted(set(names))
    changed = True
    budget = 150
    t0 = time.time()
    while changed and budget > 0 and time.time() - t0 < 20:
        changed = False
        for i in range(len(names)):
            cand = names[:i] + names[i + 1:]
            budget -= 1
            if fails(cand):
                names, changed = cand, True
                break
        if changed:
            continue
        for i in range(len(names)):               # drop one namespace level of one name
            segs = names[i].split('::')
            for j in range(len(segs) - 1):
                cand = sorted(set(names[:i] + ['::'.join(segs[:j] + segs[j + 1:])] + names[i + 1:]))
                budget -= 1
                if len(cand) == len(names) and fails(cand):
                    names, changed = cand, True
                    break
            if changed:
                break
    return names


def shrink_s(impl, tree):
    def fails(t):
        got, _ = one_impl(impl, {'kind': 'S', 'description': show(t)})
        return judge_s(class_names(t), got) is not None
    changed = True
    budget = 150
    t0 = time.time()
    while changed and budget > 0 and time.time() - t0 < 20:
        changed = False
        for s in subtrees(tree):
            budget -= 1
            if fails(s):
                tree, changed = s, True
                break
        if changed:
            continue
        if tree[0] in ('A', 'FN', 'FP'):
            args = tree[3] if tree[0] == 'A' else tree[2]
            for i in range(len(args)):
                na = args[:i] + args[i + 1:]
                cand = (tree[0], tree[1], tree[2], na) if tree[0] == 'A' else (tree[0], tree[1], na)
                budget -= 1
                if fails(cand):
                    tree, changed = cand, True
                    break
    return tree


# ------------------------------------------------------------------------------------------ corpus

def load_corpus():
    """corpus/C19/*.case: `W names...`, `S description` followed by `= expected names...`, `T tree` (prefix form),
    `#` comments"""
    d = os.path.join(vlib.VERIF, 'corpus', PID)
    cases = []
    if not os.path.isdir(d):
        return cases
    for f in sorted(os.listdir(d)):
        if not f.endswith('.case'):
            continue
        last = None
        for ln, line in enumerate(open(os.path.join(d, f)), 1):
            line = line.rstrip('\n')
            if not line or line.startswith('#'):
                continue
            src = 'corpus/%s/%s:%d' % (PID, f, ln)
            if line.startswith('W'):
                cases.append({'kind': 'W', 'names': line[2:].split(), 'src': src})
            elif line.startswith('S '):
                last = {'kind': 'S', 'description': line[2:], 'expected': None, 'src': src}
                cases.append(last)
            elif line.startswith('=') and last is not None:
                last['expected'] = line[1:].split()
            elif line.startswith('T '):
                t, rest = parse_tokens(line[2:].split())
                cases.append({'kind': 'S', 'description': show(t), 'expected': class_names(t), 'tree': t, 'src': src})
    return cases


def parse_tokens(toks):
    k = toks[0]
    if k in ('F', 'L'):
        return (k, toks[1]), toks[2:]
    if k == 'N':
        return ('N', toks[1], toks[2]), toks[3:]
    if k == 'A':
        n, rest, args = int(toks[3]), toks[4:], []
        for _ in range(n):
            a, rest = parse_tokens(rest)
            args.append(a)
        return ('A', toks[1], toks[2], args), rest
    if k in ('P', 'R', 'RR', 'C', 'V'):
        t, rest = parse_tokens(toks[1:])
        return (k, t), rest
    n = int(toks[1])
    r, rest = parse_tokens(toks[2:])
    ps = []
    for _ in range(n):
        a, rest = parse_tokens(rest)
        ps.append(a)
    return (k, r, ps), rest


# ------------------------------------------------------------------------------------------ compiled samples

def syntax_only(source):
    return vlib.run(['g++', '-std=c++17', '-fsyntax-only', '-x', 'c++', '-'], stdin=source, timeout=300)


def compile_sample(ctx, sample, stats):
    """sample: list of (names, text written by the implementation).  Each text in its own namespace, followed by a
    use of every requested class: the compiler is the judge of `balanced C++ that declares each requested class in
    exactly its namespace`."""
    def unit(i, names, text):
        uses = ''.join('using use_%d_%d = ::case_%d::%s*;\n' % (i, j, i, n) for j, n in enumerate(sorted(set(names))))
        return 'namespace case_%d {\n%s}\n%s' % (i, text, uses)
    if not sample:
        return
    src = ''.join(unit(i, n, t) for i, (n, t) in enumerate(sample))
    rc, out = syntax_only(src)
    stats['compiled_outputs'] += len(sample)
    if rc == 0:
        return
    for i, (n, t) in enumerate(sample):
        rc1, out1 = syntax_only(unit(i, n, t))
        if rc1 != 0:
            ctx.violation('the text written for %s does not compile as forward declarations of these classes' % ' '.join(n),
                          {'case': {'kind': 'W', 'names': n}, 'expected': 'g++ -fsyntax-only accepts the text and a use of every class',
                           'got': t, 'compiler': out1[-800:], 'replay_cmd': './check C19 --replay <this file>'})
            return
    ctx.broken.append('compiled sample: the combined translation unit fails but no single case does: ' + out[-300:])


DEMANGLE_PRELUDE = r'''
#include <cstdio>
#include <cstdlib>
#include <iosfwd>
#include <memory>
#include <string>
#include <typeinfo>
#include <cxxabi.h>
// --- forward declarations written by the real generator for the names the real scanner extracted
%s
// --- what the library does not declare: template names are skipped by the scanner
%s
template<int...> struct pol;
namespace yorel { namespace yomm2 {
template<class...> struct virtual_; template<class...> struct method;
namespace policy { struct debug; }
} }
namespace v_ {
template<class...> struct W {};
template<class T> using Ptr = T*;
template<class T> using LRef = T&;
template<class T> using RRef = T&&;
template<class T> using Const = const T;
template<class T> using Volatile = volatile T;
template<class R, class... A> using Fn = R(A...);
template<class R, class... A> using FnPtr = R (*)(A...);
}
int main() {
    const std::type_info* types[] = {
%s
    };
    for (auto t : types) {
        int status = 0;
        char* s = abi::__cxa_demangle(t->name(), nullptr, nullptr, &status);
        std::puts(status == 0 ? s : "?");
        std::free(s);
    }
}
'''


def demangle_sample(ctx, impl, trees, impl_names, stats):
    """the printer against the real demangler, and the feature end to end: the forward declarations of the
    translation unit are the real writer's output for the union of the names the real scanner extracted"""
    if not trees or not impl:
        return
    union = sorted(set(n for ns in impl_names for n in ns))
    got, crash = one_impl(impl, {'kind': 'W', 'names': union})
    if got is None:
        ctx.violation('writer crashed on the names extracted from the compiled sample', {'case': {'kind': 'W', 'names': union}, 'got': crash})
        return
    fwd = unescape(got[2:])
    tps = set()

    def heads(t):
        if t[0] == 'A' and t[1] == 'U' and t[2] != 'pol':
            tps.add(t[2])
        for s in subtrees(t):
            heads(s)
    for t in trees:
        heads(t)
    tdecl = ''
    for q in sorted(tps):
        segs = q.split('::')
        tdecl += ''.join('namespace %s { ' % s for s in segs[:-1]) + 'template<class...> struct %s;' % segs[-1] + ' }' * (len(segs) - 1) + '\n'
    src = DEMANGLE_PRELUDE % (fwd, tdecl, ',\n'.join('        &typeid(v_::W<%s >)' % cxx(t) for t in trees))
    os.makedirs(TMP, exist_ok=True)
    key = hashlib.sha1(src.encode()).hexdigest()[:16]
    cpp = os.path.join(TMP, 'c19-demangle-%s.cpp' % key)
    exe = os.path.join(TMP, 'c19-demangle-%s' % key)
    open(cpp, 'w').write(src)
    rc, out = vlib.run(['g++', '-std=c++20', '-O0', cpp, '-o', exe], timeout=600)
    if rc != 0:
        # which part does not compile: the declarations written by the implementation, or our own scaffolding?
        rc2, out2 = syntax_only(fwd)
        if rc2 != 0:
            ctx.violation('the text written for the names extracted from the compiled sample does not compile',
                          {'case': {'kind': 'W', 'names': union}, 'got': fwd, 'compiler': out2[-800:]})
        else:
            m = re.search(r"error: [^\n]*", out)
            ctx.violation('a type description sample does not compile with the forward declarations written for the names extracted from it: %s' % (m.group(0) if m else ''),
                          {'case': {'kind': 'W', 'names': union}, 'descriptions': [show(t) for t in trees][:20],
                           'got': fwd, 'compiler': out[-1200:]})
        for p in (cpp,):
            os.remove(p)
        return
    rc, so, se = vlib.run2([exe], timeout=60)
    for p in (cpp, exe):
        try:
            os.remove(p)
        except OSError:
            pass
    lines = so.strip('\n').split('\n')
    if rc != 0 or len(lines) != len(trees):
        ctx.broken.append('demangle sample: program failed (%d) %s' % (rc, se[-200:]))
        return
    for t, l in zip(trees, lines):
        m = re.fullmatch(r'v_::W<(.*?) ?>', l)
        real = m.group(1) if m else l
        stats['demangled'] += 1
        if real != show(t):
            ctx.broken.append('printer: show(tree) = %r but the demangler prints %r (tree %s)' % (show(t), real, ' '.join(tokens(t))))
            return


# ------------------------------------------------------------------------------------------ one round

def nontrivial(c):
    if c['kind'] == 'W':
        ns = sorted(set(c['names']))
        for a, b in zip(ns, ns[1:]):
            if a[0] == b[0]:
                return True
        return False
    d = c['description']
    return bool(c.get('expected')) and bool(re.search(r'const|volatile|<|std::|unsigned|char|\(', d))


def char_collision(names):
    """two consecutive names (sorted) whose common character prefix does not end on a `::`"""
    ns = sorted(set(names))
    for a, b in zip(ns, ns[1:]):
        i = 0
        while i < len(a) and i < len(b) and a[i] == b[i]:
            i += 1
        if i > 0 and not a[:i].endswith('::'):
            return True
    return False


def class_is_namespace(names):
    return not compilable(names)


def run_round(ctx, impl, model, cases, stats, seen, samples, compile_n, label):
    """cases: dicts kind W|S (+ expected, tree).  Runs implementation, model, oracles; reports."""
    if not cases:
        return
    crashes = {}
    got = run_impl(impl, cases, crashes) if impl else [None] * len(cases)
    # model: one batch (W -> 2 lines, S -> 1 line, T -> 1 line, O -> 1 line)
    mlines = []
    for i, c in enumerate(cases):
        mlines.append(case_line(c))
        if c.get('tree') is not None:
            mlines.append('T ' + ' '.join(tokens(c['tree'])))
        if c['kind'] == 'W' and got[i] is not None and got[i] != SKIPPED:
            mlines.append('O ' + got[i][2:])
    mout = []
    if model:
        rc, mout, se = run_model(model, mlines)
        if rc != 0:
            ctx.broken.append('model driver failed (%d): %s' % (rc, se[-300:]))
            mout = []
    mi = 0

    def nxt():
        nonlocal mi
        l = mout[mi] if mi < len(mout) else None
        mi += 1
        return l
    compile_pool = []
    for i, c in enumerate(cases):
        if got[i] == SKIPPED:
            break
        stats['evaluations'] += 1
        h = hashlib.sha1(case_line(c).encode()).hexdigest()
        if h not in seen:
            seen.add(h)
            stats['distinct'] += 1
            if nontrivial(c):
                stats['distinct_nontrivial'] += 1
        if nontrivial(c) and ((label == 'corpus' and len(samples) < 2 and i % 9 == 0) or
                              (label != 'corpus' and len(samples) < 10 and i % 97 == 0)):
            samples.append({'from': c.get('src', label), 'case': case_line(c), 'implementation': got[i]})
        if c['kind'] == 'W':
            names = c['names']
            stats['W'] += 1
            stats['W_sizes'][min(len(set(names)), 12)] = stats['W_sizes'].get(min(len(set(names)), 12), 0) + 1
            for n in set(names):
                dd = n.count('::')
                stats['W_depths'][dd] = stats['W_depths'].get(dd, 0) + 1
            if char_collision(names):
                stats['W_char_collisions'] += 1
            if class_is_namespace(names):
                stats['W_class_is_namespace'] += 1
            j = judge_w(names, got[i])
            mW, mP = nxt(), nxt()
            mO = nxt() if got[i] is not None else None
            want_p = 'P ' + ' '.join(sorted(set(names)))
            if j is not None:
                small = shrink_w(impl, names) if impl else names
                g2, cr2 = one_impl(impl, {'kind': 'W', 'names': small}) if impl else (None, None)
                j2 = judge_w(small, g2) or j
                ctx.violation('write_forward_declarations on {%s}: %s%s' % (' '.join(small), j2[0], (' -- ' + (cr2 or crashes.get(i))[:300]) if (cr2 or crashes.get(i)) else ''),
                              {'case': {'kind': 'W', 'names': small}, 'expected': j2[1], 'got': j2[2],
                               'sanitizer_or_exit': cr2 or crashes.get(i), 'found_in': c.get('src', label),
                               'original_case': names, 'model_on_original_case': mW, 'replay_cmd': './check C19 --replay <this file>'})
                stats['oracle_failures'] += 1
            else:
                if len(compile_pool) < compile_n and compilable(names) and names:
                    compile_pool.append((names, unescape(got[i][2:])))
            if model and mout:
                if mP != want_p:
                    ctx.broken.append('model: parse (write names) is %r, requested %r' % (mP, want_p))
                if got[i] is not None and mW != got[i] and j is None:
                    ctx.broken.append('correspondence: writer model and implementation differ on {%s}: model %r implementation %r'
                                      % (' '.join(names), mW, got[i]))
                if got[i] is not None and j is None and mO != want_p:
                    ctx.broken.append('extracted Coq parse on the implementation text gives %r, Python oracle accepts %r' % (mO, want_p))
                if got[i] is not None and j is not None and mO == want_p:
                    ctx.broken.append('extracted Coq parse accepts a text the Python oracle rejects: %r' % got[i])
        else:
            stats['S'] += 1
            mS = nxt()
            mT = nxt() if c.get('tree') is not None else None
            exp = c.get('expected')
            if c.get('tree') is not None:
                constructors(c['tree'], stats['S_constructors'])
                dd = depth(c['tree'])
                stats['S_depths'][dd] = stats['S_depths'].get(dd, 0) + 1
                if model and mout:
                    wantT = 'T %s | %s | wf' % (show(c['tree']), ' '.join(class_names(c['tree'])))
                    if mT != wantT:
                        ctx.broken.append('printer/spec: Coq show / class_names / wf_ty give %r, Python %r' % (mT, wantT))
            j = judge_s(exp, got[i]) if exp is not None else (None if got[i] is not None else ('no output (crash or hang)', None, None))
            if j is not None:
                desc, small_tree = c['description'], c.get('tree')
                if small_tree is not None and impl:
                    small_tree = shrink_s(impl, small_tree)
                    desc = show(small_tree)
                    exp2 = class_names(small_tree)
                    g2, cr2 = one_impl(impl, {'kind': 'S', 'description': desc})
                    j = judge_s(exp2, g2) or j
                    exp = exp2
                ctx.violation('add_forward_declaration("%s"): %s%s' % (desc, j[0], (' -- ' + crashes[i][:300]) if crashes.get(i) else ''),
                              {'case': {'kind': 'S', 'description': desc, 'expected': sorted(set(exp or []))},
                               'expected': j[1], 'got': j[2], 'sanitizer_or_exit': crashes.get(i),
                               'found_in': c.get('src', label), 'original_case': c['description'],
                               'tree': ' '.join(tokens(small_tree)) if small_tree is not None else None,
                               'model_on_original_case': mS, 'replay_cmd': './check C19 --replay <this file>'})
                stats['oracle_failures'] += 1
            if model and mout and got[i] is not None:
                if exp is not None and j is None and mS != 'S ' + ' '.join(sorted(set(exp))):
                    ctx.broken.append('model: scan gives %r, expected names %r for %r' % (mS, sorted(set(exp)), c['description']))
                if mS != got[i] and j is None:
                    ctx.broken.append('correspondence: scanner model and implementation differ on %r: model %r implementation %r'
                                      % (c['description'], mS, got[i]))
        if len(ctx.violations) >= 3:
            break
    if len(ctx.broken) > 12:
        del ctx.broken[12:]
    compile_sample(ctx, compile_pool, stats)


# ------------------------------------------------------------------------------------------ replay

def replay(ctx, impl, model):
    obj = json.load(open(ctx.replay))
    case = obj.get('case')
    print('replay %s: %s' % (ctx.replay, obj.get('summary', '')))
    if not case:
        print('this replay file names broken obligations, not an input: %s' % obj.get('broken'))
        sys.exit(1)
    got, crash = one_impl(impl, case)
    mlines = [case_line(case)] + (['O ' + got[2:]] if (case['kind'] == 'W' and got) else [])
    rc, mout, se = run_model(model, mlines)
    print('case:           %s' % case_line(case))
    print('implementation: %s' % (got if got is not None else 'no output'))
    if crash:
        print('implementation failure: %s' % crash)
    if case['kind'] == 'W':
        print('model:          %s' % (mout[0] if mout else '?'))
        print('model parse:    %s' % (mout[1] if len(mout) > 1 else '?'))
        if got:
            print('Coq parse of the implementation text: %s' % (mout[2] if len(mout) > 2 else '?'))
        j = judge_w(case['names'], got)
        print('oracle:         declared classes must be exactly: %s' % ' '.join(sorted(set(case['names']))))
    else:
        print('model:          %s' % (mout[0] if mout else '?'))
        exp = case.get('expected')
        j = judge_s(exp, got) if exp is not None else None
        print('oracle:         names must be exactly: %s' % (' '.join(sorted(set(exp))) if exp is not None else '(no expectation recorded)'))
    if j is None:
        same = got is not None and mout and got == mout[0]
        print('verdict: ok' + ('' if same else ' (but implementation and model lines differ)'))
        sys.exit(0 if same else 1)
    print('verdict: property violated: %s' % j[0])
    sys.exit(1)


# ------------------------------------------------------------------------------------------ main

def exhaustive_cases():
    ids = ['a', 'ab', 'abc', 'b']
    names = []
    for d in range(0, 3):
        for segs in itertools.product(ids, repeat=d + 1):
            names.append('::'.join(segs))
    for k in range(0, 4):
        for s in itertools.combinations(names, k):
            yield {'kind': 'W', 'names': list(s)}


def main():
    ctx = vlib.Ctx(PID)
    if not ctx.replay:
        vlib.proof_phase(ctx, extra_targets=['Extract/ExtractFwdDecl.vo'])
        vlib.proof_phase_extra(ctx, 'Properties_C19_source')      # write_forward_declarations as translated from generator.hpp (translators/fwdwrite.py)
    model, log1 = vlib.ocaml_driver('fwddecl_model', 'Extract/ExtractFwdDecl.vo', ['ocaml/fwddecl_driver.ml'])
    impl, log2 = vlib.build_cpp('h3_fwddecl', ['harness/h3/fwddecl_driver.cpp'])
    if ctx.replay:
        if not (model and impl):
            print('drivers do not build:\n%s\n%s' % (log1[-600:], log2[-600:]))
            sys.exit(2)
        replay(ctx, impl, model)
    if not model:
        ctx.broken.append('model driver does not build: ' + log1[-300:])
    if not impl:
        ctx.broken.append('harness fwddecl_driver.cpp does not build against %s: %s' % (vlib.REPO, log2[-600:]))
    rng = vlib.Rng(ctx.seed)
    stats = {'evaluations': 0, 'distinct': 0, 'distinct_nontrivial': 0, 'W': 0, 'S': 0, 'W_sizes': {}, 'W_depths': {},
             'W_char_collisions': 0, 'W_class_is_namespace': 0, 'S_constructors': {}, 'S_depths': {},
             'oracle_failures': 0, 'compiled_outputs': 0, 'demangled': 0, 'exhaustive_sets': 0}
    seen, samples = set(), []
    T = ctx.thorough

    # 1. corpus
    corpus = [] if os.environ.get('VERIF_C19_SKIP_CORPUS') else load_corpus()   # (skipping: to try the generators alone)
    run_round(ctx, impl, model, corpus, stats, seen, samples, 0, 'corpus')
    stats['corpus_cases'] = len(corpus)

    # 2. generated
    def generated(nW, nC, nwild, nvalid, nmethod):
        cs = []
        for _ in range(nW):
            cs.append({'kind': 'W', 'names': gen_name_set(rng)})
        for _ in range(nC):
            cs.append({'kind': 'W', 'names': gen_compilable_set(rng)})
        for _ in range(nwild):
            t = gen_wild(rng, rng.range(1, 5))
            cs.append({'kind': 'S', 'description': show(t), 'expected': class_names(t), 'tree': t})
        valid = []
        for _ in range(nvalid):
            t = gen_valid(rng, rng.range(1, 4), 'arg')
            valid.append(t)
        for _ in range(nmethod):
            valid.append(gen_method(rng, rng.range(2, 5)))
        for t in valid:
            cs.append({'kind': 'S', 'description': show(t), 'expected': class_names(t), 'tree': t, 'valid': True})
        return cs, valid

    def round_generated(scale, compile_n, label):
        cs, valid = generated(400 * scale, 60 * scale, 300 * scale, 25 * scale if scale < 4 else 250, 10 * scale if scale < 4 else 60)
        run_round(ctx, impl, model, cs, stats, seen, samples, compile_n, label)
        if impl and not ctx.violations:
            # the names the real scanner extracted from the compiled sample
            vc = [c for c in cs if c.get('valid')]
            cr = {}
            got = run_impl(impl, vc, cr)
            if all(g is not None and g != SKIPPED for g in got):
                demangle_sample(ctx, impl, valid, [g[2:].split() for g in got], stats)

    if not ctx.violations:
        round_generated(12 if T else 1, 200 if T else 5, 'generated')

    # 3. exhaustive small scope
    if T and not ctx.violations:
        batch = []
        for c in exhaustive_cases():
            batch.append(c)
            stats['exhaustive_sets'] += 1
            if len(batch) >= 20000:
                run_round(ctx, impl, model, batch, stats, seen, samples, 0, 'exhaustive')
                batch = []
                if ctx.violations:
                    break
        if batch and not ctx.violations:
            run_round(ctx, impl, model, batch, stats, seen, samples, 0, 'exhaustive')

    # 4. something no longer checks, and no failing input yet: search harder (decision rule, DESIGN section 7)
    if ctx.broken and not ctx.violations and not T and impl:
        vlib.log('C19: %d broken obligation(s)/correspondence(s), searching for a failing input' % len(ctx.broken))
        t0 = time.time()
        while time.time() - t0 < 40 and not ctx.violations:
            round_generated(3, 20, 'search')

    dist = {'W_cases': stats['W'], 'S_cases': stats['S'], 'W_set_sizes': stats['W_sizes'], 'W_name_depths': stats['W_depths'],
            'W_sets_with_character_level_prefix_collision': stats['W_char_collisions'],
            'W_sets_with_a_class_named_like_a_namespace': stats['W_class_is_namespace'],
            'S_tree_constructors': stats['S_constructors'], 'S_tree_depths': stats['S_depths'],
            'corpus_cases': stats.get('corpus_cases', 0), 'exhaustive_sets_le3_names_4_idents_depth_le2': stats['exhaustive_sets'],
            'outputs_compiled_with_gxx_fsyntax_only': stats['compiled_outputs'],
            'descriptions_compared_with_the_real_demangler': stats['demangled']}
    vlib.finish(ctx, {
        'evaluations': stats['evaluations'], 'distinct_nontrivial': stats['distinct_nontrivial'],
        'distinct_cases': stats['distinct'],
        'rule': 'cases = corpus + name sets (W) and type descriptions printed from generated type trees (S), all from '
                'vlib.Rng(VERIF_SEED); distinct = distinct canonical case lines (sha1); non-trivial W = two names of the set start '
                'with the same character (shared or colliding prefix), non-trivial S = at least one class expected and at '
                'least one keyword / template / std:: / function type in the description',
        'samples': samples[:10], 'input_distribution': dist, 'exhaustive': bool(T and stats['exhaustive_sets'] > 0),
        'oracle_failures': stats['oracle_failures'],
    }, assumptions=[
        'the hand-written scanner of Model/FwdDecl.v stands for std::regex on `(\\w+(?:::\\w+)*)( *<)?` (C locale): tied by differential runs and C19_regex_unchanged only',
        'names reach the writer through generator::add_forward_declaration only (the member `names` is private): valid names by C19_scanned_names_are_written_well',
        'outside the claim: anonymous namespaces, decltype(nullptr), identifiers starting with `_`, members of class templates, arrays, pointers to members',
    ])


if __name__ == '__main__':
    main()
