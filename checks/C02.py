#!/usr/bin/env python3
import os, sys, re
sys.path.insert(0, os.path.dirname(os.path.abspath(__file__)))
import _core_check
from _core_check import vlib, corelib, coresuite

ctx = vlib.Ctx('C02')
if ctx.replay:
    _core_check.replay(ctx); sys.exit(0)
vlib.proof_phase(ctx)
_core_check.source_ordering(ctx)
# the record built by the error stubs, as translated from core.hpp / detail.hpp on this run (Gen/GenErr.v)
vlib.proof_phase_extra(ctx, 'Properties_C02_source')
# which cell (definition / ambiguity stub / not-implemented stub) build_dispatch_table writes, as translated from compiler.hpp
_core_check.source_tab(ctx)
res = coresuite.dispatch_suite(ctx.tier, ctx.seed)
cov = coresuite.summarize(ctx, res, 'C02')
if ctx.broken and not ctx.violations:
    for extra in range(2 if ctx.tier == 'quick' else 6):
        res2 = coresuite.dispatch_suite('thorough', ctx.seed * 1000 + 100 + extra)
        saved = list(ctx.broken); cov2 = coresuite.summarize(ctx, res2, 'C02'); ctx.broken = saved
        cov['search_evaluations'] = cov.get('search_evaluations', 0) + cov2['evaluations']
        if ctx.violations: break

# "if the handler returns, the program aborts rather than continuing": child processes with a handler that returns
binp, _ = corelib.h1_binary()
aborts = 0; tried = 0
if binp:
    want = 4 if ctx.tier == 'quick' else 40
    for e in res['cases']:
        if tried >= want: break
        if e['crashed']: continue
        for pol, r in e['results'].items():
            if pol not in ('vec', 'hash', 'chk', 'map', 'ind') or not r['err_tuples']: continue
            # find an erroring tuple of a method with a real method<> behind it, from the specification lines
            reg = e['reg']; slots = corelib.slot_assignment(reg, corelib.shapes_of(pol))
            mdl, _ = corelib.model_binary()
            m = corelib.run_model(mdl, [('x', corelib.query_text('x', reg))]).get('x', [])
            tup = None
            for l in m:
                mm = re.match(r'spec (\d+) ([\d ]+) = (ni|amb)$', l)
                if mm and slots[int(mm.group(1))]:
                    tup = (int(mm.group(1)), mm.group(2), mm.group(3)); break
            if not tup: continue
            text = 'case abort\nids small\n' + '\n'.join(corelib.case_lines(reg, pol)) + '\n@%s sethandler returning\n@%s callx %d %s\n@%s callx %d %s\nend\n' % (pol, pol, tup[0], tup[1], pol, tup[0], tup[1])
            out = corelib.run_h1(binp, text)
            r1 = out.get('abort', {'lines': [], 'crashed': False, 'stderr': ''})
            tried += 1
            returned = [l for l in r1['lines'] if 'handler-returned' in l]
            after = [l for l in r1['lines'] if re.search(r'callx .*= ?(ran|error|threw)', l)]
            status = re.search(r'\[exit status (-?\d+)\]', r1['stderr'] or '')
            if r1['crashed'] and returned and not after and status and int(status.group(1)) in (-6, 134):
                aborts += 1
            else:
                ctx.violation('the error handler returned for call %d %s (%s) and the program did not abort: crashed=%s exit=%s lines after=%s'
                              % (tup[0], tup[1], tup[2], r1['crashed'], status.group(1) if status else None, after[:2]),
                              {'registry': reg, 'policy': pol, 'replay_case': text})
            break
# every parameter kind (virtual_<T&>, virtual_<T*>, virtual_ptr, const virtual_ptr&, shared pointers ...) and signatures with
# non-virtual parameters before / between / after: generated programs through the real method<> / macro front ends
try:
    import importlib
    kinds = importlib.import_module('C02_kinds')
    cov['error_record_by_parameter_kind'] = kinds.run(ctx)
except Exception as e:
    ctx.broken.append('C02_kinds harness failed: %r' % (e,))
cov['handler_returns_abort_checked'] = tried
cov['handler_returns_aborted'] = aborts
vlib.finish(ctx, cov, assumptions=['the Gallina model of update/resolve is tied to /repo by differential runs of harness H1 on generated registries',
                                   'abort after a returning handler and exception propagation are runtime behaviour: observed on child processes / in-process catches, not modelled'])
