#!/usr/bin/env python3
import os, sys
sys.path.insert(0, os.path.dirname(os.path.abspath(__file__)))
import _core_check
from _core_check import vlib, coresuite
ctx = vlib.Ctx('C08')
if ctx.replay:
    _core_check.replay(ctx); sys.exit(0)
vlib.proof_phase(ctx)
_core_check.source_lat(ctx)      # the class table, the listed bases and the closure loop, as translated from compiler.hpp
res = coresuite.present_suite(ctx.tier, ctx.seed)
cov = coresuite.summarize_groups(ctx, res, 'presentations of one inheritance graph')

# the registration front end: real use_classes / class_declaration statements on real C++ hierarchies (virtual and
# non-virtual inheritance, abstract classes); the records they push are compared with Model/UseClasses.v evaluated
# inside Coq (vm_compute on a generated cases file) and with a direct computation
sys.path.insert(0, os.path.join(vlib.VERIF, 'harness', 'h2'))
import gen_useclasses as guc
rng = vlib.Rng(ctx.seed * 2654435761 % (1 << 31) + 8)
scs = [guc.gen_scenario(rng, i) for i in range(10 if ctx.tier == 'quick' else 120)]
progs = guc.run_programs(scs)
cq, cqerr = guc.coq_records(scs)
if cq is None:
    ctx.broken.append('Model/UseClasses.v could not be evaluated on the scenarios: ' + cqerr[-300:])
uc_fail = 0; uc_diff = 0
for sc in scs:
    exp = guc.expected_records(sc); got = progs.get(sc['name'])
    if got != exp:
        uc_fail += 1
        if uc_fail <= 2:
            ctx.violation('use_classes / class_declaration registered %s, expected one record per listed class with exactly its listed bases: %s'
                          % (str(got)[:300], str(exp)[:300]), {'scenario': sc, 'program': guc.program_text(sc)})
    exp_use = sorted((c, b) for (c, a, b) in guc.expected_records({**sc, 'stmts': [s for s in sc['stmts'] if s[0] == 'use']}))
    if cq is not None and cq.get(sc['name']) != exp_use:
        uc_diff += 1
        if uc_diff <= 2:
            ctx.broken.append('correspondence: Model/UseClasses.v evaluated in Coq gives %s for scenario %s, the direct computation %s' % (str(cq.get(sc['name']))[:200], sc['name'], str(exp_use)[:200]))
cov['use_classes_programs'] = len(scs); cov['use_classes_failures'] = uc_fail
cov['use_classes_samples'] = [{'stmts': sc['stmts'], 'parents': sc['parents']} for sc in scs[:2]]
vlib.finish(ctx, cov, assumptions=['the acceptance relation, dispatch, next and the cell validator are observed on the real library under 6-8 presentations of each generated graph and compared across presentations and with the graph itself',
                                   'registries are acyclic (C++ inheritance is)'])
