#!/usr/bin/env python3
import os, sys
sys.path.insert(0, os.path.dirname(os.path.abspath(__file__)))
import _core_check
from _core_check import vlib, coresuite
ctx = vlib.Ctx('C08')
if ctx.replay:
    _core_check.replay(ctx); sys.exit(0)
vlib.proof_phase(ctx)
res = coresuite.present_suite(ctx.tier, ctx.seed)
cov = coresuite.summarize_groups(ctx, res, 'presentations of one inheritance graph')
vlib.finish(ctx, cov, assumptions=['the acceptance relation, dispatch, next and the cell validator are observed on the real library under 6-8 presentations of each generated graph and compared across presentations and with the graph itself',
                                   'registries are acyclic (C++ inheritance is)'])
