#!/usr/bin/env python3
"""Common body of the checks served by the H1 dispatch suite."""
import os, sys, json
sys.path.insert(0, os.path.join(os.path.dirname(os.path.abspath(__file__)), '..', 'tools'))
import vlib, corelib, coresuite


def replay(ctx):
    obj = json.load(open(ctx.replay))
    if vlib.replay_program(obj):
        return
    text = obj.get('replay_case')
    if not text:
        print('replay file has no replay_case: %s' % json.dumps(obj)[:500]); return
    binp, _ = corelib.h1_binary(); mdl, _ = corelib.model_binary()
    impl = corelib.run_h1(binp, text)
    print('--- implementation'); [print(l) for v in impl.values() for l in v['lines']]
    reg = obj.get('registry')
    if reg:
        m = corelib.run_model(mdl, [('replay', corelib.query_text('replay', reg))])
        print('--- model and specification'); [print(l) for l in m.get('replay', [])]


# properties whose theorems rest on compiler::is_more_specific / is_base / best: the same theorems over the functions as
# translated from detail/compiler.hpp on this run (translators/ordering.py -> Gen/GenOrdering.v)
SOURCE_ORDERING = ('C01', 'C02', 'C03', 'C06', 'C17')


def source_ordering(ctx):
    vlib.proof_phase_extra(ctx, 'Properties_core_source')


# properties that rest on the call-time walk of core.hpp (resolve_uni / resolve_multi_first / resolve_multi_next):
# translators/walk.py -> Gen/GenWalk.v -> Properties_walk_source
SOURCE_WALK = ('C01', 'C04', 'C12')


def source_walk(ctx):
    vlib.proof_phase_extra(ctx, 'Properties_walk_source')


# properties that rest on how the policies publish v-table pointers and find them again by type id
# (vptr_vector / vptr_map publish_vptrs, dynamic_vptr): translators/publish.py -> Gen/GenPub.v -> Properties_pub_source
SOURCE_PUB = ('C01', 'C07')


def source_pub(ctx):
    vlib.proof_phase_extra(ctx, 'Properties_pub_source')


# properties that rest on what the registration objects' constructors register (the `next` slot of a definition):
# translators/registration.py -> Gen/GenReg.v -> Properties_reg_source
SOURCE_REG = ('C03',)


def source_reg(ctx):
    vlib.proof_phase_extra(ctx, 'Properties_reg_source')


# properties that rest on which cell build_dispatch_table writes for a tuple of groups and on the counters it increments:
# translators/tablebuild.py -> Gen/GenTab.v -> Properties_tab_source
SOURCE_TAB = ('C01', 'C02', 'C03', 'C17')


def source_tab(ctx):
    vlib.proof_phase_extra(ctx, 'Properties_tab_source')


# properties that rest on what install_gv writes into Policy::dispatch_data, the methods' slots_strides and the classes'
# static v-table pointers: translators/installgv.py -> Gen/GenGv.v -> Properties_gv_source
SOURCE_GV = ('C01', 'C04')


def source_gv(ctx):
    vlib.proof_phase_extra(ctx, 'Properties_gv_source')


# properties that rest on the strides, on report.cells / concrete_cells and on how a method's report is accumulated:
# translators/reportarith.py -> Gen/GenRep.v -> Properties_rep_source
SOURCE_REP = ('C01', 'C17')


def source_rep(ctx):
    vlib.proof_phase_extra(ctx, 'Properties_rep_source')


# the phases update<Policy>() runs, in order: translators/phases.py -> Gen/GenPhase.v -> Properties_phase_source
SOURCE_PHASE = ('C01',)


def source_phase(ctx):
    vlib.proof_phase_extra(ctx, 'Properties_phase_source')


# slot allocation in a multiple-inheritance lattice: translators/slots.py -> Gen/GenSlot.v -> Properties_slot_source
SOURCE_SLOT = ('C01', 'C04')


def source_slot(ctx):
    vlib.proof_phase_extra(ctx, 'Properties_slot_source')


# deferred static type ids: translators/deferred.py -> Gen/GenDef.v -> Properties_def_source
SOURCE_DEF = ('C10',)


def source_def(ctx):
    vlib.proof_phase_extra(ctx, 'Properties_def_source')


# augment_methods (classes of the virtual parameters, update-time unknown_class_error): translators/augmeth.py -> Gen/GenMeth.v
SOURCE_METH = ('C01',)


def source_meth(ctx):
    vlib.proof_phase_extra(ctx, 'Properties_meth_source')


# augment_classes (class table, listed bases, closure): translators/lattice.py -> Gen/GenLat.v -> Properties_lat_source
SOURCE_LAT = ('C04',)


def source_lat(ctx):
    vlib.proof_phase_extra(ctx, 'Properties_lat_source')


# build_dispatch_tables (grouping by mask, v-table entries): translators/grouping.py -> Gen/GenGrp.v -> Properties_grp_source
SOURCE_GRP = ('C01', 'C04', 'C17')


def source_grp(ctx):
    vlib.proof_phase_extra(ctx, 'Properties_grp_source')


# the stages of update chained: each translated stage, fed what the earlier ones produced, computes its component of compile_with
SOURCE_UPDATE = ('C01',)


def source_update(ctx):
    vlib.proof_phase_extra(ctx, 'Properties_update_source')


def main(pid, assumptions, level='proof', explanation=None):
    ctx = vlib.Ctx(pid)
    if ctx.replay:
        replay(ctx); sys.exit(0)
    ctx.level = level
    vlib.proof_phase(ctx)
    if pid in SOURCE_ORDERING:
        source_ordering(ctx)
    if pid in SOURCE_WALK:
        source_walk(ctx)
    if pid in SOURCE_PUB:
        source_pub(ctx)
    if pid in SOURCE_REG:
        source_reg(ctx)
    if pid in SOURCE_TAB:
        source_tab(ctx)
    if pid in SOURCE_GV:
        source_gv(ctx)
    if pid in SOURCE_REP:
        source_rep(ctx)
    if pid in SOURCE_PHASE:
        source_phase(ctx)
    if pid in SOURCE_SLOT:
        source_slot(ctx)
    if pid in SOURCE_DEF:
        source_def(ctx)
    if pid in SOURCE_METH:
        source_meth(ctx)
    if pid in SOURCE_LAT:
        source_lat(ctx)
    if pid in SOURCE_GRP:
        source_grp(ctx)
    if pid in SOURCE_UPDATE:
        source_update(ctx)
    res = coresuite.dispatch_suite(ctx.tier, ctx.seed)
    cov = coresuite.summarize(ctx, res, pid)
    if pid == 'C03':
        # which pointer update writes `next` through is decided by the registration front end (macros, add_definition,
        # use_definitions, add_function), which H1 bypasses: self-checking programs (checks/C03_glue.py)
        import C03_glue
        cov['registration_glue_programs (next through macros / add_definition / use_definitions / add_function; checks/C03_glue.py)'] = \
            C03_glue.run(ctx, lambda summary, rep: ctx.violation(summary, rep))
    if ctx.broken and not ctx.violations:
        # a proof or the correspondence no longer checks: search harder for a concrete failing input (DESIGN.md section 7)
        for extra in range(2 if ctx.tier == 'quick' else 6):
            res2 = coresuite.dispatch_suite('thorough', ctx.seed * 1000 + 100 + extra)
            saved = list(ctx.broken)
            cov2 = coresuite.summarize(ctx, res2, pid)
            ctx.broken = saved
            cov['search_evaluations'] = cov.get('search_evaluations', 0) + cov2['evaluations']
            if ctx.violations:
                break
    vlib.finish(ctx, cov, assumptions=assumptions, explanation=explanation)
